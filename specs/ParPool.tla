------------------------------ MODULE ParPool ------------------------------
(***************************************************************************)
(* C09.  srs(parallel='yes') / fdepsd(parallel='yes'):                      *)
(*   with mp.Pool(ncpu) as pool:                                            *)
(*       for _ in pool.imap_unordered(func, zip(range(LF), repeat(args))):  *)
(* LF per-frequency tasks, chunksize 1, W worker processes; task j writes   *)
(* row j of each shared RawArray.  For fdepsd one of the writes is a        *)
(* read-modify-write (BinAmps_[j] *= Amax), so executing a task twice or    *)
(* writing another task's row would change the result.                      *)
(*                                                                          *)
(* Inputs are marshalled first: Share copies the frequency vector and the    *)
(* signal into shared arrays, which NORMALISES their representation to        *)
(* binary64 whatever the caller passed (float32, integers).  The arithmetic   *)
(* of a task runs in the representation of the inputs it sees, so the serial  *)
(* loop must see the same normalised inputs (SerialRep) - otherwise a float32 *)
(* frequency vector gives float32 filter coefficients serially and binary64   *)
(* ones in the workers.                                                       *)
(*                                                                          *)
(* Actions: Share (parent, before the pool starts), Dispatch(w) (idle worker takes the next task from the queue),   *)
(* Complete(w) (the worker's shared-array writes; hook H1 brackets exactly  *)
(* this critical section), Collect (parent reads the arrays after the pool  *)
(* has exited).                                                             *)
(***************************************************************************)
EXTENDS Integers, Sequences, FiniteSets, TLC

CONSTANTS LF, W, RMW, Export, InRep       \* InRep: representation of the caller's frequency vector: "f8" | "f4" | "i8"

Tasks == 0..(LF - 1)
Workers == 1..W
Idle == -1

VARIABLES next,      \* next task index to hand out
          running,   \* [Workers -> Tasks \cup {Idle}]
          done,      \* completion sequence of <<task, worker>>
          row,       \* [Tasks -> value]  (the shared arrays, one abstract row per task)
          result,    \* what the parent returns ("none" until Collect)
          shared     \* representation of the inputs in shared memory ("none" until Share)

vars == <<next, running, done, row, result, shared>>

Init0(j) == IF RMW THEN <<"init", j>> ELSE <<"zero">>    \* BinAmps_ starts as arange(nbins)/nbins
Norm(rep) == "f8"                                         \* copyToSharedArray: every input becomes binary64
SerialRep == Norm(InRep)                                  \* the serial loop works on the normalised inputs too
RowVal(j, old, rep) == IF RMW THEN <<"mul", old, <<"amp", j, rep>>>> ELSE <<"val", j, rep>>
Serial == [j \in Tasks |-> RowVal(j, Init0(j), SerialRep)]  \* what the serial loop produces

Init == /\ next = 0
        /\ running = [w \in Workers |-> Idle]
        /\ done = <<>>
        /\ row = [j \in Tasks |-> Init0(j)]
        /\ result = <<"none">>
        /\ shared = "none"

Share == /\ shared = "none" /\ shared' = Norm(InRep) /\ UNCHANGED <<next, running, done, row, result>>

Dispatch(w) == /\ shared # "none" /\ running[w] = Idle /\ next < LF
               /\ running' = [running EXCEPT ![w] = next]
               /\ next' = next + 1
               /\ UNCHANGED <<done, row, result, shared>>

Complete(w) == /\ running[w] # Idle
               /\ LET j == running[w] IN
                    /\ row' = [row EXCEPT ![j] = RowVal(j, row[j], shared)]
                    /\ done' = Append(done, <<j, w>>)
               /\ running' = [running EXCEPT ![w] = Idle]
               /\ UNCHANGED <<next, result, shared>>

AllDone == next = LF /\ \A w \in Workers : running[w] = Idle

Collect == /\ AllDone /\ result = <<"none">>
           /\ result' = row
           /\ UNCHANGED <<next, running, done, row, shared>>

Next == Share \/ (\E w \in Workers : Dispatch(w) \/ Complete(w)) \/ Collect

Spec == Init /\ [][Next]_vars /\ WF_vars(Next)

---------------------------------------------------------------------------
DoneTasks == {done[i][1] : i \in 1..Len(done)}

\* every task's writes happen at most once, and exactly once when the pool has exited
AtMostOnce == \A i, k \in 1..Len(done) : done[i][1] = done[k][1] => i = k
ExactlyOnce == AllDone => DoneTasks = Tasks

\* a completion changes only its own row
OwnRowOnly == [][\A j \in Tasks : row'[j] # row[j] =>
                    (Len(done') = Len(done) + 1 /\ done'[Len(done')][1] = j)]_vars

\* confluence: whatever the interleaving, the parent returns the serial result
Confluence == result # <<"none">> => result = Serial

\* at most W tasks are started and unfinished
InFlight == Cardinality({w \in Workers : running[w] # Idle}) <= W /\ next - Len(done) <= W

\* liveness: the parent eventually gets its result
Terminates == <>(result # <<"none">>)

\* behaviour export: every reachable completion order (with worker ids)
\* how many workers, and whether a pool is used at all (srs._process_parallel): 'auto' goes parallel only for more than one
\* frequency, more than 50000 signal values, no returned histories and more than one processor; the pool size is maxcpu when that
\* is given and smaller than the processor count, else four fifths of the processors (all of them up to four)
Decide(par, nf, size, getresp, ncpu, maxcpu) ==
  LET mode == IF par = "auto" THEN (IF nf > 1 /\ size > 50000 /\ ~getresp /\ ncpu > 1 THEN "yes" ELSE "no") ELSE par
      w == IF mode # "yes" THEN 1 ELSE IF maxcpu > 0 /\ ncpu > maxcpu THEN maxcpu ELSE IF ncpu > 4 THEN (ncpu * 4) \div 5 ELSE ncpu
  IN [mode |-> mode, w |-> w]
DecideGrid == {<<par, nf, size, gr, ncpu, mx>> : par \in {"auto", "yes", "no"}, nf \in {1, 3}, size \in {50000, 50001}, gr \in BOOLEAN,
                                                ncpu \in {1, 2, 4, 5, 16}, mx \in {0, 1, 3, 14}}          \* mx = 0: maxcpu not given
DecideLaws == \A g \in DecideGrid :
   LET d == Decide(g[1], g[2], g[3], g[4], g[5], g[6]) IN
   /\ d.w >= 1 /\ d.w <= g[5] /\ (g[6] > 0 => d.w <= g[6] \/ d.mode = "no" \/ d.w <= g[5])
   /\ (d.mode = "no" => d.w = 1)
   /\ (g[1] = "auto" /\ (g[4] \/ g[2] = 1 \/ g[3] <= 50000 \/ g[5] = 1) => d.mode = "no")
   /\ (g[1] # "auto" => d.mode = g[1])
   /\ (d.mode = "yes" /\ g[6] > 0 => d.w <= g[6])
ExportDecide == (Export /\ shared = "none" /\ next = 0) => PrintT(<<"DECIDE", {<<g, Decide(g[1], g[2], g[3], g[4], g[5], g[6])>> : g \in DecideGrid}>>)

\* the workers never run before the inputs are in shared memory, and both paths compute in the same representation
SharedBeforeWork == (next > 0) => shared = Norm(InRep)
SameRepresentation == \A i \in 1..Len(done) : shared = SerialRep
ExportOK == (Export /\ result # <<"none">>) => PrintT(<<"ORDER", done, InRep>>)
=============================================================================
