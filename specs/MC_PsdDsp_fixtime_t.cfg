CONSTANTS
  Part = "fixtime"
  Export = TRUE
  MaxLen = 6
INIT Init
NEXT Next
INVARIANT Conservation
INVARIANT KeptContiguous
INVARIANT NoCreation
INVARIANT LengthLaw
INVARIANT UniformUnchanged
INVARIANT ExportRescale
INVARIANT ExportResample
INVARIANT ExportFix
INVARIANT ExportTerms
