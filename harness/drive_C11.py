"""C11: readers decode every OUTPUT4 (and OUTPUT2 matrix/table framing) variant; listings match reads.

spec -> code: every encoding exported by TLC from specs/Op4.tla (all string partitions of every small matrix, dense /
bigmat / nonbigmat) is rendered by the neutral renderer (harness/phys_op4.py: shares no code with pyYeti) in every
physical variant compatible with the model's (WPV, CPLX, Ascii) constants and read with op4.load / read / dir /
listload in dense, sparse and auto modes; multi-matrix files exercise named-subset reads and skipping.
code <- files: every shipped sample file is tokenised by the neutral tokenizer (record markers, word counts consumed
exactly = a word of the grammar) and the placed matrices are compared with pyYeti's reads."""
import glob
import json
import os
import random

from . import phys_op4 as P
from . import op4_common as C
from .runner import main, Run, REPO


def variants(wpv, cplx, ascii_, perline):
    out = []
    if ascii_:
        mtype = C.MTYPE[(wpv, cplx)]
        for letter in ("E", "D"):
            # announced values-per-line counts that begin with the digit 1 (one very wide field; ten narrow ones) next to the usual 2-3
            wd = {1: ((45, 30), (41, 20), (80, 17)), 10: ((8, 1),)}.get(perline, ((16, 9), (23, 16), (24, 16), (27, 17), (21, 14)))
            for width, digits in wd:
                for prefix in ("1P,", ""):
                    for i16 in (False, True):
                        out.append(dict(kind="ascii", mtype=mtype, letter=letter, width=width, digits=digits, prefix=prefix,
                                        i16=i16, perline=perline))
    else:
        for endian in ("<", ">"):
            out.append(dict(kind="binary", endian=endian, bit64=False, mtype=C.MTYPE[(wpv, cplx)]))
            if wpv == 1:
                # 64-bit keys: every word is 8 bytes, single and double "precision" alike
                for mt in ((1, 2) if cplx == 1 else (3, 4)):
                    out.append(dict(kind="binary", endian=endian, bit64=True, mtype=mt))
    return out


def render(blocks, v):
    if v["kind"] == "ascii":
        return P.render_ascii(blocks, width=v["width"], digits=v["digits"], letter=v["letter"], perline=v["perline"],
                              prefix=v["prefix"], i16=v["i16"])
    return P.render_binary(blocks, endian=v["endian"], bit64=v["bit64"])


def expected_value(x, v):
    """the number a reader must return for a rendered value"""
    import struct
    if v["kind"] == "ascii":
        f = lambda y: float("%.*E" % (v["digits"], y))  # noqa
    elif v["mtype"] in (1, 3) and not v["bit64"]:
        f = lambda y: struct.unpack("f", struct.pack("f", y))[0]  # noqa
    else:
        f = lambda y: y  # noqa
    if isinstance(x, complex):
        return complex(f(x.real), f(x.imag))
    return f(x)


def check_file(run, np, op4, sp, data, blocks, v, tag):
    """blocks: what was encoded.  Returns a failure message or None."""
    want = []
    for b in blocks:
        h = b["hdr"]
        M = np.zeros((abs(h["nrows"]), h["ncols"]), complex if h["mtype"] in (3, 4) else float)
        for c in b["cols"]:
            for s_ in c["strs"]:
                for k, y in enumerate(s_["vals"]):
                    M[s_["r0"] - 1 + k, c["icol"] - 1] = expected_value(y, v)
        want.append((b["hdr"]["name"].lower(), M, b["hdr"]["form"], b["hdr"]["mtype"]))
    with C.TmpFile(data) as path:
        for mode in (False, True, None):
            try:
                names, mats, forms, mtypes = op4.load(path, into="list", sparse=mode)
            except Exception as ex:
                return "load(sparse=%r) raised %r" % (mode, ex)
            if list(names) != [w[0] for w in want]:
                return "load(sparse=%r): names %r, encoded %r" % (mode, names, [w[0] for w in want])
            for (nm, M, fo, mt), m, f2, t2 in zip(want, mats, forms, mtypes):
                was_sparse = sp.issparse(m)
                if mode is True and not was_sparse:
                    return "sparse=True returned a dense matrix"
                if mode is False and was_sparse:
                    return "sparse=False returned a sparse matrix"
                d = m.toarray() if was_sparse else np.asarray(m)
                if d.shape != M.shape:
                    return "load(sparse=%r): matrix %s has shape %r, encoded %r" % (mode, nm, d.shape, M.shape)
                if not np.array_equal(d, M):
                    bad = np.argwhere(d != M)[0]
                    return "load(sparse=%r): matrix %s differs at %r: read %r, encoded %r" % (
                        mode, nm, tuple(int(i) for i in bad), d[tuple(bad)], M[tuple(bad)])
                if (f2, t2) != (fo, mt):
                    return "load(sparse=%r): form/type %r, encoded %r" % (mode, (f2, t2), (fo, mt))
        # directory listing agrees with the full read
        try:
            dn, ds, df, dt = op4.dir(path, verbose=False)
        except Exception as ex:
            return "dir raised %r" % ex
        if list(dn) != [w[0] for w in want] or [tuple(s) for s in ds] != [w[1].shape for w in want] \
                or list(df) != [w[2] for w in want] or list(dt) != [w[3] for w in want]:
            return "dir listing %r differs from the encoded content" % ((dn, ds, df, dt),)
        # named subset = filter of the full read (also exercises the skipper: the reader must land on the next header)
        allnames = [w[0] for w in want]
        for pick in set(allnames):
            try:
                names, mats, forms, mtypes = op4.load(path, namelist=[pick], into="list")
            except Exception as ex:
                return "load(namelist=[%r]) raised %r" % (pick, ex)
            exp = [w for w in want if w[0] == pick]
            if list(names) != [w[0] for w in exp]:
                return "load(namelist=[%r]) returned %r" % (pick, names)
            for w, m in zip(exp, mats):
                if not np.array_equal(np.asarray(m), w[1]):
                    return "load(namelist=[%r]): subset read differs from the full read" % pick
        if len(set(allnames)) == len(allnames):
            try:
                dct = op4.read(path)
            except Exception as ex:
                return "read raised %r" % ex
            for w in want:
                if w[0] not in dct or not np.array_equal(np.asarray(dct[w[0]]), w[1]):
                    return "read(): matrix %s differs" % w[0]
    return None


def body(run: Run, replay):
    import numpy as np
    import scipy.sparse as sp
    import warnings
    warnings.simplefilter("ignore")
    from pyyeti.nastran import op4

    run.rule = ("every string partition (zeros inside strings, runs split anywhere, null columns skipped) of every NR x NC matrix "
                "over {0,id..} in dense/bigmat/nonbigmat layout, exported by TLC, rendered in every physical variant (endian x key "
                "width x precision; ASCII E/D x 5 widths x 1P prefix x |I16) with stress values, grouped 3 per file (incl. duplicate "
                "names), read in dense/sparse/auto modes + dir + named subsets; plus all shipped sample files tokenised as words of the "
                "grammar. distinct non-trivial = (encoding, variant) with >= 2 strings in some column or a zero inside a string")
    run.assumptions = ["the neutral renderer/tokenizer (struct + string formatting) is the trusted encoder; it is itself validated on "
                       "the 61 shipped Nastran/pyYeti sample files", "OUTPUT2 coverage: see the OP2 part of this driver"]
    quick = run.tier == "quick"
    rnd = random.Random(run.seed)
    #        cfg              NR NC WPV CPLX ascii perline
    plans = [("MC_Op4_q1.cfg", 3, 2, 2, 1, False, 3), ("MC_Op4_q2.cfg", 3, 2, 1, 2, True, 2), ("MC_Op4_q3.cfg", 3, 2, 1, 1, False, 3),
             ("MC_Op4_q4.cfg", 3, 2, 1, 2, False, 3), ("MC_Op4_q5.cfg", 3, 2, 2, 2, False, 3), ("MC_Op4_q6.cfg", 3, 2, 2, 1, True, 3),
             ("MC_Op4_h1.cfg", 3, 1, 2, 1, False, 3), ("MC_Op4_h2.cfg", 3, 1, 1, 1, True, 3), ("MC_Op4_h3.cfg", 3, 1, 1, 2, False, 3),
             # exactly 65536 / 65537 rows: bigmat strings under a positive row count (Nastran's automatic switch)
             ("MC_Op4_h4.cfg", 3, 1, 2, 1, False, 3), ("MC_Op4_h5.cfg", 3, 1, 1, 1, True, 3), ("MC_Op4_h6.cfg", 3, 1, 2, 1, True, 3),
             ("MC_Op4_h7.cfg", 2, 1, 1, 2, False, 3),
             ("MC_Op4_p1.cfg", 3, 2, 2, 1, True, 1), ("MC_Op4_p10.cfg", 3, 2, 2, 1, True, 10)]
    if not quick:
        plans += [("MC_Op4_t1.cfg", 4, 2, 2, 1, False, 3), ("MC_Op4_t2.cfg", 3, 2, 2, 2, True, 3)]
    plans_extra = [("MC_Op4_q1.cfg", 1, 1), ("MC_Op4_q1.cfg", 1, 2), ("MC_Op4_q1.cfg", 2, 2), ("MC_Op4_q2.cfg", 2, 1), ("MC_Op4_q2.cfg", 1, 1), ("MC_Op4_q2.cfg", 2, 2)]
    nfiles = 0
    for cfg, nr, nc, wpv, cplx, ascii_, perline in plans:
        encs = C.load_model(run, cfg, "NR=%d NC=%d WPV=%d CPLX=%d Ascii=%s" % (nr, nc, wpv, cplx, ascii_))
        if encs is None:
            return
        vs = variants(wpv, cplx, ascii_, perline)
        order = list(range(len(encs)))
        rnd.shuffle(order)
        if quick:
            order = order[:600]
        for gi in range(0, len(order), 3):
            group = [encs[i] for i in order[gi : gi + 3]]
            v = vs[(gi // 3) % len(vs)]
            single = v["kind"] == "binary" and v["mtype"] in (1, 3) and not v["bit64"]
            pool = C.VAL_S if single else C.VAL_D
            if v["kind"] == "ascii" and v["width"] < v["digits"] + 8:
                # a legal file never overflows its announced field: 3-digit exponents need width >= digits + 8
                pool = [x for x in pool if x == 0 or 1e-99 <= abs(x) < 9.9e99]
            blocks = []
            for k, (M, enc) in enumerate(group):
                base = pool[(gi + k) % len(pool)]
                b2 = pool[(gi + k + 5) % len(pool)]
                if cplx == 2:
                    valmap = {1: complex(base, b2), 2: complex(-b2, 0.0)}
                else:
                    valmap = {1: base, 2: b2}
                name = ["ma", "mb", "ma"][k] if (gi // 3) % 4 == 0 else "m%d" % k     # duplicate names every 4th file
                form = [2, 1, 6, 9][(gi + k) % 4]
                blocks.append(C.instantiate(enc, valmap, cplx == 2, name, form, v["mtype"]))
            data = render(blocks, v)
            msg = check_file(run, np, op4, sp, data, blocks, v, cfg)
            nfiles += 1
            nontriv = any(len(c["strs"]) > 1 or any(x == 0 for s in c["strs"] for x in s["vals"]) for b in blocks for c in b["cols"])
            run.case((cfg, tuple(order[gi : gi + 3]), json.dumps(v, sort_keys=True)), nontrivial=nontriv, part="op4 " + v["kind"])
            run.trace_validated(len(group))
            if nfiles <= 3:
                run.sample({"variant": v, "encodings": [C.shape_of(b) for b in blocks]})
            if msg:
                run.violation("OP4 reader: " + msg, {"variant": v, "blocks": blocks, "cfg": cfg}, {"kind": v["kind"]})
                if len(run.violations) >= 5:
                    return
    # ---- shipped sample files: grammar words + agreement with pyYeti's reads (T) ----------------
    files = sorted(glob.glob(os.path.join(REPO, "pyyeti/tests/nastran_op4_data/*.op4")) +
                   glob.glob(os.path.join(REPO, "pyyeti/tests/nastran_op4_data/*.other")))
    for f in files:
        base = os.path.basename(f)
        data = open(f, "rb").read()
        run.case(("shipped", base), part="shipped op4 files")
        try:
            var, blocks = P.tokenize(data)
        except P.FormatError as ex:
            run.violation("shipped file is not a word of the OUTPUT4 grammar as specified: %s" % ex, {"file": base}, {"kind": "shipped"})
            continue
        if base.startswith("nas_large_dim"):
            kw = dict(sparse=True)
        else:
            kw = dict(sparse=False)
        try:
            names, mats, forms, mtypes = op4.load(f, into="list", **kw)
            dn, ds, df, dt = op4.dir(f, verbose=False)
        except Exception as ex:
            run.violation("reading shipped file raised %r" % ex, {"file": base}, {"kind": "shipped"})
            continue
        if len(blocks) != len(names) or len(dn) != len(names):
            run.violation("number of matrices: load %d, dir %d, tokenizer %d" % (len(names), len(dn), len(blocks)), {"file": base}, {"kind": "shipped"})
            continue
        for b, n, m, fo, mt, d_s in zip(blocks, names, mats, forms, mtypes, ds):
            h = b["hdr"]
            if "badname" not in base and h["name"] != n:
                run.violation("matrix name: read %r, file has %r" % (n, h["name"]), {"file": base}, {"kind": "shipped"})
            if (fo, mt) != (h["form"], h["mtype"]) or tuple(d_s) != (abs(h["nrows"]), h["ncols"]) or tuple(m.shape) != tuple(d_s):
                run.violation("form/type/size: read %r dir %r, file has %r" % ((fo, mt, m.shape), tuple(d_s), h), {"file": base}, {"kind": "shipped"})
            if kw["sparse"]:
                coo = m.tocoo()
                got = sorted((int(i), int(j), v) for i, j, v in zip(coo.row, coo.col, coo.data) if v != 0)
                exp = sorted((s["r0"] - 1 + k, c["icol"] - 1, v) for c in b["cols"] for s in c["strs"] for k, v in enumerate(s["vals"]) if v != 0)
                same = got == exp
            else:
                same = np.array_equal(np.asarray(m), np.array(P.place(b)))
            if not same:
                run.violation("matrix %s of shipped file differs from the neutral decode" % n, {"file": base}, {"kind": "shipped"})
        run.trace_validated()
    run.extra["files_rendered"] = nfiles
    from . import drive_C11_op2
    drive_C11_op2.run_op2(run)


if __name__ == "__main__":
    main("C11", "model_checking", body)
