"""C02: frequency-domain solution satisfies the dynamic-stiffness equation; incrb / rf_disp_only zero patterns; SolveUnc.fsolve
and FreqDirect.fsolve agree; solvepsd.

specs/OdeFreq.tla: configuration lattice (layout x incrb subsets and deprecated integers x rf_disp_only x solver x
representation) with the exact-zero pattern and the response terms; TLC checks the pattern laws and exports every legal
configuration.  The driver instantiates each with seeded systems and complex force spectra at frequency classes
{0 Hz, below, at, above resonance}, checks the zero pattern EXACTLY (count_nonzero) and the values against the spec's
terms (generic evaluator), so both solvers and all representations agree with one definition.  solvepsd is checked
against its definition built from the same solver's unit-load responses and against the terms."""
import json

from . import tlc, terms
from .runner import main, Run


def build(np, rng, cfg):
    nrb, nel, nrf = cfg["lay"]
    if cfg.get("order") == "interleaved":
        labels = ["rb", "el", "rb"] + ["el"] * (nel - 1) + ["rf"] * nrf      # two rigid-body equations, not contiguous
        nrb = 2
    else:
        labels = ["rb"] * nrb + ["el"] * nel + ["rf"] * nrf
    n = nrb + nel + nrf
    md = rng.uniform(0.5, 2.0, n)
    w = rng.uniform(20.0, 200.0, nel)
    z = rng.choice([0.01, 0.05, 0.3], nel)
    if cfg.get("damp") == "mixed":
        z = np.array([0.05, 1.7])[:nel]                 # under- and over-damped side by side
    kd = np.zeros(n, complex if cfg["cplxk"] else float)
    bd = np.zeros(n)
    el = np.array([i for i, l in enumerate(labels) if l == "el"], int)
    rf = np.array([i for i, l in enumerate(labels) if l == "rf"], int)
    rbi = np.array([i for i, l in enumerate(labels) if l == "rb"], int)
    kd[el] = w ** 2 * md[el]
    if cfg["cplxk"]:
        kd[el] = kd[el] * (1 + 0.04j)
    bd[el] = 2 * z * w * md[el]
    kd[rf] = (rng.uniform(2000.0, 4000.0, nrf)) ** 2 * md[rf]
    bd[rf] = 0.02 * np.sqrt(np.abs(kd[rf]) * md[rf])
    if cfg["mform"] == "none":
        bd, kd, scale = bd / md, kd / md, 1.0 / md
        md = np.ones(n)
    else:
        scale = np.ones(n)
    M, B, K = np.diag(md), np.diag(bd), np.diag(kd)
    T = np.eye(n)
    if cfg["coupling"] == "coupled":
        if cfg["mform"] == "none":
            Q, _ = np.linalg.qr(rng.standard_normal((nel, nel)))
            Te = Q
        else:
            for _ in range(50):          # a congruence of moderate condition number (see drive_C01: sensitivity grows like cond(T)^2)
                Te = np.eye(nel) + 0.3 * rng.standard_normal((nel, nel))
                if np.linalg.cond(Te) <= 30:
                    break
        T[np.ix_(el, el)] = Te
        M, B, K = T.T @ M @ T, T.T @ B @ T, T.T @ K @ T
    if cfg.get("gyro"):
        g = 0.8 * np.sqrt(abs(B[el[0], el[0]] * B[el[1], el[1]]))
        B = B.copy()
        B[el[0], el[1]] += g
        B[el[1], el[0]] -= g                      # skew-symmetric part: B is no longer symmetric, M and K are
    L = np.eye(n)
    if cfg.get("lmul"):
        for _ in range(50):
            Le = np.eye(nel) + 0.3 * rng.standard_normal((nel, nel))
            if np.linalg.cond(Le) <= 10:
                break
        L[np.ix_(el, el)] = Le
        M, B, K = L @ M, L @ B, L @ K              # same response for forces L f; nothing is symmetric any more
    if cfg["mform"] == "none":
        marg = None
    elif cfg["mform"] == "vec":
        marg = np.diag(M).real.copy()
    else:
        marg = M
    diag = cfg["coupling"] == "diag" and cfg["mform"] != "mat"
    barg = np.diag(B).copy() if diag else B
    karg = np.diag(K).copy() if diag else K
    wres = float(w[0])
    return dict(n=n, md=md, bd=bd, kd=kd, scale=scale, T=T, L=L, M=M, B=B, K=K, marg=marg, barg=barg, karg=karg,
                rb=rbi, el=el, rf=rf, wres=wres)


def body(run: Run, replay):
    import numpy as np
    import warnings
    warnings.simplefilter("ignore")
    from pyyeti import ode

    res = tlc.run("OdeFreq", "MC_OdeFreq.cfg", timeout=900)
    if res.violation:
        run.add_tlc("MC_OdeFreq.cfg", res)
        run.violation("TLC: %s on the OdeFreq model" % res.violation, {"tlc": res.error_text()}, {"where": "model"})
        return
    run.add_tlc("MC_OdeFreq.cfg", res, "all legal configurations; invariants ElNeverForcedZero (+ pattern export)")
    T_ = res.tagged("FTERMS")[0][0]
    cfgs = res.tagged("CFG")
    run.rule = ("every legal configuration: layout (0-1 rb, 1-2 el, 0-1 rf) x 8 incrb subsets + deprecated integers x rf_disp_only x "
                "{SolveUnc, FreqDirect} x diag/coupled x m None/vector/matrix x pre_eig x complex stiffness; frequencies {0 Hz when in "
                "the solver's domain, below, at, above resonance}; zero pattern exact, values vs the spec's terms; solvepsd. "
                "distinct non-trivial = configurations")
    run.assumptions = ["rigid-body equations are undamped (modal-space rb), as the statement's domain says",
                       "tolerance 1e-9 relative to the response scale at each frequency (dynamic stiffness away from singularity: damped modes)"]
    rng = np.random.default_rng(run.seed)
    quant = ["d", "v", "a"]
    # thorough: every configuration is instantiated with sixteen independent random systems / force spectra
    for ci, (cfg, zero_ok, pattern) in enumerate(list(cfgs) * (1 if run.tier == "quick" else 16)):
        incrb = "".join(sorted(cfg["incrb"]))
        s = build(np, rng, cfg)
        n = s["n"]
        fres = s["wres"] / 2 / np.pi
        freq = np.array(([0.0] if zero_ok else []) + [0.3 * fres, fres, 2.7 * fres, 11.0 * fres])
        if cfg["forder"] == "zerolast":
            freq = freq[::-1].copy()
        elif cfg["forder"] == "shuffled":
            freq = freq[rng.permutation(len(freq))]
        Fm = (rng.standard_normal((n, len(freq))) + 1j * rng.standard_normal((n, len(freq))))     # modal forces
        Fp = s["L"] @ s["T"].T @ (Fm * s["scale"][:, None])     # mass None: equations divided by the modal mass
        if cfg["intform"]:
            inc_arg = {"": 0, "av": 1, "adv": 2}[incrb]
        else:
            inc_arg = incrb[::-1] if ci % 2 else incrb        # letters in any order
        case = {"cfg": cfg, "freq": freq.tolist()}
        run.case(json.dumps(cfg, sort_keys=True), part=cfg["solver"] + "/" + cfg["coupling"])
        try:
            if cfg["solver"] == "SolveUnc":
                ts = ode.SolveUnc(s["marg"], s["barg"], s["karg"], (0.002 if cfg["hgiven"] else None), rf=(s["rf"] if len(s["rf"]) else None), pre_eig=cfg["pre_eig"],
                                  rb=([int(x) for x in s["rb"]] if (ci % 3 == 0 and len(s["rb"])) else None))
            else:
                ts = ode.FreqDirect(s["marg"], s["barg"], s["karg"], rf=(s["rf"] if len(s["rf"]) else None))
            sol = ts.fsolve(Fp, freq, incrb=inc_arg, rf_disp_only=cfg["rfdo"])
        except Exception as ex:
            run.violation("%s.fsolve raised %r" % (cfg["solver"], ex), case, {"solver": cfg["solver"]})
            continue
        # modal expectation from the terms
        Wv = 2 * np.pi * freq
        exp = {qn: np.zeros((n, len(freq)), complex) for qn in quant}
        for blk, idx in (("rb", s["rb"]), ("el", s["el"]), ("rf", s["rf"])):
            for i in idx:
                env = dict(m=s["md"][i], b=s["bd"][i], k=s["kd"][i], W=Wv, F=Fm[i] * s["scale"][i])
                with np.errstate(all="ignore"):
                    vals = [terms.ev(t, env) for t in T_[blk]]
                for qn, val in zip(quant, vals):
                    zz = pattern[blk][qn]
                    val = np.array(val, complex) * np.ones(len(freq))
                    for j in range(len(freq)):
                        must_zero = zz[1] if freq[j] == 0 else zz[0]
                        exp[qn][i, j] = 0.0 if must_zero else val[j]
        Ti = np.linalg.inv(s["T"])
        if cfg.get("gyro"):
            # no modal decoupling: the spec's full dynamic-stiffness definition, frequency by frequency (modal coordinates = physical here)
            for j in range(len(freq)):
                envm = dict(M=s["M"], B=s["B"], K=s["K"], W=Wv[j], F=Fp[:, j:j + 1])
                for qn, tm in zip(quant, T_["mat"]):
                    exp[qn][:, j] = np.ravel(terms.ev(tm, envm))
            Ti = np.eye(n)
        got = {"d": sol.d, "v": sol.v, "a": sol.a}
        bad = None
        for qn in quant:
            E = Ti @ exp[qn]
            G = got[qn]
            # exact-zero pattern (block rows are not mixed by the coupling transform: it acts on the elastic block only)
            for blk, idx in (("rb", s["rb"]), ("rf", s["rf"])):
                for i in idx:
                    for j in range(len(freq)):
                        must_zero = pattern[blk][qn][1] if freq[j] == 0 else pattern[blk][qn][0]
                        if must_zero and G[i, j] != 0:
                            bad = "%s[%s] at %.3g Hz must be exactly zero (incrb=%r, rf_disp_only=%s) but is %r" % (qn, blk, freq[j], inc_arg, cfg["rfdo"], G[i, j])
                        if not must_zero and G[i, j] == 0 and E[i, j] != 0:
                            bad = "%s[%s] at %.3g Hz was zeroed although incrb=%r / rf_disp_only=%s keep it" % (qn, blk, freq[j], inc_arg, cfg["rfdo"])
            if bad:
                break
            sc = np.maximum(np.abs(E).max(axis=0), 1e-300)
            err = (np.abs(G - E) / sc).max()
            if not err <= 1e-9:
                j = int(np.argmax((np.abs(G - E) / sc).max(axis=0)))
                bad = "%s differs from the dynamic-stiffness solution: relative error %.3g at %.4g Hz" % (qn, err, freq[j])
                break
        if bad:
            run.violation("%s.fsolve: %s" % (cfg["solver"], bad), case, {"solver": cfg["solver"]})
            if len([v for v in run.violations if v]) > 12:
                return
        run.trace_validated()
        if ci < 2:
            run.sample(case)
    psd_part(run, np, ode, rng, T_)


def psd_part(run, np, ode, rng, T_):
    """solvepsd: PSD_resp = sum_i PSD_i |H_i|^2 with H_i the unit-load response (spec terms), rms = sqrt(trapezoid area)"""
    for trial in range(12 if run.tier == "quick" else 150):
        nel = int(rng.integers(1, 4))
        nrb = int(rng.integers(0, 2))
        n = nrb + nel
        md = rng.uniform(0.5, 2.0, n)
        w = rng.uniform(30.0, 150.0, nel)
        kd = np.concatenate((np.zeros(nrb), w ** 2 * md[nrb:]))
        bd = np.concatenate((np.zeros(nrb), 2 * 0.03 * w * md[nrb:]))
        # frequency grids: random, uniform, logarithmic, and a coarse grid with a refined band around a resonance (uneven inside,
        # yet with equal first and last steps)
        gk = trial % 4
        if gk == 0:
            freq = np.sort(rng.uniform(2.0, 60.0, 25))
        elif gk == 1:
            freq = np.linspace(2.0, 60.0, 25)
        elif gk == 2:
            freq = np.geomspace(2.0, 60.0, 25)
        else:
            f0 = float(rng.uniform(20.0, 40.0))
            freq = np.unique(np.round(np.concatenate((np.arange(2.0, 61.0, 1.0), np.arange(f0 - 1.0, f0 + 1.0, 0.05))), 6))
        nfrc = int(rng.integers(1, 4))
        t_frc = rng.standard_normal((n, nfrc))
        if trial % 3 == 1:
            t_frc[:, 0] = 0.0           # a force that loads no equation still reaches the outputs through the direct term drmf
        fpsd = rng.uniform(0.1, 2.0, (nfrc, len(freq)))
        drma = rng.standard_normal((2, n))
        drmd = rng.standard_normal((3, n))
        drmf = rng.standard_normal((3, nfrc))
        drmlist = [[drma, None, None, None], [None, None, drmd, drmf]]
        incrb = ["dva", "av", ""][trial % 3]
        case = {"n": n, "nrb": nrb, "incrb": incrb, "nforces": nfrc}
        run.case(("solvepsd", trial), part="solvepsd")
        for cls in ("SolveUnc", "FreqDirect"):
            ts = ode.SolveUnc(md, bd, kd) if cls == "SolveUnc" else ode.FreqDirect(md, bd, kd)
            try:
                rms, psd = ode.solvepsd(ts, fpsd, t_frc, freq, drmlist, incrb=incrb)
            except Exception as ex:
                run.violation("solvepsd raised %r" % ex, case, {"solver": cls})
                continue
            Wv = 2 * np.pi * freq
            P0 = np.zeros((2, len(freq)))
            P1 = np.zeros((3, len(freq)))
            for i in range(nfrc):
                Hd = np.zeros((n, len(freq)), complex)
                Ha = np.zeros((n, len(freq)), complex)
                for e in range(n):
                    blk = "rb" if e < nrb else "el"
                    env = dict(m=md[e], b=bd[e], k=kd[e], W=Wv, F=t_frc[e, i] * np.ones(len(freq)))
                    dd, vv, aa = [np.array(terms.ev(t, env), complex) * np.ones(len(freq)) for t in T_[blk]]
                    if blk == "rb":
                        dd = dd if "d" in incrb else 0 * dd
                        aa = aa if "a" in incrb else 0 * aa
                    Hd[e], Ha[e] = dd, aa
                P0 += fpsd[i] * np.abs(drma @ Ha) ** 2
                P1 += fpsd[i] * np.abs(drmd @ Hd + drmf[:, i:i + 1] @ np.ones((1, len(freq)))) ** 2
            for j, (P, got) in enumerate(((P0, psd[0]), (P1, psd[1]))):
                if not np.allclose(got, P, rtol=1e-9, atol=1e-300):
                    run.violation("solvepsd: PSD response is not sum_i PSD_i |H_i|^2 (drm %d)" % j, case, {"solver": cls})
                area = np.sqrt(np.sum(np.diff(freq) * (got[:, :-1] + got[:, 1:]) / 2, axis=1))
                if not np.allclose(rms[j], area, rtol=1e-12, atol=0):
                    run.violation("solvepsd: rms is not the square root of the trapezoidal area of the PSD response", case, {"solver": cls})
        run.trace_validated()
    reuse_part(run, np, ode, rng)


def reuse_part(run, np, ode, rng):
    """one solver object, two fsolve calls: the second with the SAME frequency / force ndarrays whose contents were changed in place
    (the answer of a call depends on the values it is given, not on the identity of the arrays) - compared with a fresh object"""
    from . import odesys
    for trial in range(8 if run.tier == "quick" else 80):
        kind = ["coupled", "diag", "cdamp"][trial % 3]
        s = odesys.make_system(rng, kind, trial % 2, 3, 0, ["none", "vec", "mat"][(trial // 3) % 3] if kind != "coupled" else ["none", "mat"][trial % 2])
        n = s["n"]
        for cls in ("FreqDirect", "SolveUnc"):
            mk = (lambda: ode.FreqDirect(s["m"], s["b"], s["k"])) if cls == "FreqDirect" else (lambda: ode.SolveUnc(s["m"], s["b"], s["k"]))
            freq = np.linspace(3.0, 40.0, 7)
            F = rng.standard_normal((n, 7)) + 1j * rng.standard_normal((n, 7))
            run.case(("reuse", trial, cls), part="reused solver object, arrays changed in place")
            try:
                ts = mk()
                first = ts.fsolve(F, freq)
                d1 = first.d.copy()
                freq += 0.9                      # same array object, new values
                F *= 1.5
                second = ts.fsolve(F, freq)
                fresh = mk().fsolve(F.copy(), freq.copy())
            except Exception as ex:
                run.violation("%s.fsolve raised %r on a reused object" % (cls, ex), {"trial": trial}, {"solver": cls, "part": "reuse"})
                continue
            sc = np.abs(fresh.d).max()
            if not np.abs(second.d - fresh.d).max() <= 1e-10 * sc or not np.abs(second.a - fresh.a).max() <= 1e-10 * np.abs(fresh.a).max():
                run.violation("%s.fsolve: a second call on the same object, given the same frequency / force arrays with new contents, differs from a fresh "
                              "object's answer (relative %.3g)" % (cls, np.abs(second.d - fresh.d).max() / sc), {"trial": trial, "kind": kind},
                              {"solver": cls, "part": "reuse"})
            elif not np.array_equal(first.d, d1):
                run.deviation("OdeReuse (aliasing)", "%s.fsolve: the result of the first call was modified by the second" % cls, {"trial": trial})
        run.trace_validated()


if __name__ == "__main__":
    main("C02", "exploration", body)
