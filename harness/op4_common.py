"""Shared machinery for C04 (write -> read identity) and C11 (readers decode every variant)."""
import os
import tempfile

from . import tlc, phys_op4

# stress values (instantiations of the spec's value ids).  D: double files, S: exactly representable in float32
VAL_D = [1.5, -2.5e-300, 1.0e-100, 5e-324, 9007199254740993.0, -1.7976931348623157e308, 1.2345678901234567e300,
         -9.999999999999999e99, 1.0000000000000002e-99, 3.141592653589793, -1e-5, 123456789.0]
VAL_S = [1.5, -0.375, 1.1754943508222875e-38, 3.4028234663852886e38, 16777216.0, -1.0e-45 * 0 - 1.401298464324817e-45,
         0.10000000149011612, -12345.6787109375]

MTYPE = {(1, 1): 1, (2, 1): 2, (1, 2): 3, (2, 2): 4}   # (WPV, CPLX) -> mtype for 32-bit-key files


def asmap(x):
    if isinstance(x, list):
        return {i + 1: v for i, v in enumerate(x)}
    return x


def load_model(run, cfg, note=""):
    res = tlc.run("Op4", cfg, timeout=1500, heap="8g")
    if res.violation:
        run.add_tlc(cfg, res)
        run.violation("TLC: %s on the Op4 model (%s)" % (res.violation, cfg), {"tlc": res.error_text()}, {"where": "model"})
        return None
    run.add_tlc(cfg, res, "invariants DecodeIsIdentity LayoutRecognised SkipExact FieldRanges; " + note)
    out = []
    for M, enc in res.tagged("OP4"):
        out.append((M, enc))
    return out


def matrix_ids(M, nr, nc):
    """TLC prints a function over Rows x Cols as (<<r,c>> :> v @@ ...) -> dict with tuple keys"""
    return [[M[(r, c)] for c in range(1, nc + 1)] for r in range(1, nr + 1)]


def instantiate(enc, valmap, cplx, name, form, mtype):
    """abstract encoding with ids -> abstract block with numbers"""
    def val(i):
        if i == 0:
            return 0j if cplx else 0.0
        return valmap[i]
    cols = []
    for c in enc["cols"]:
        strs = []
        for s in c["strs"]:
            strs.append(dict(hw=list(s["hw"]), r0=s["r0"], n=s["n"], vals=[val(i) for i in s["vals"]]))
        cols.append(dict(icol=c["icol"], irow=c["irow"], nw=c["nw"], strs=strs))
    h = enc["hdr"]
    return {"hdr": dict(ncols=h["ncols"], nrows=h["nrows"], form=form, mtype=mtype, name=name), "cols": cols,
            "trailer": dict(enc["trailer"])}


def shape_of(block):
    """structure of an abstract block without the values: for membership tests"""
    return (block["hdr"]["nrows"] < 0,
            tuple((c["icol"], c["irow"], c["nw"], tuple((tuple(s["hw"]), s["r0"], s["n"]) for s in c["strs"])) for c in block["cols"]),
            (block["trailer"]["icol"], block["trailer"]["irow"], block["trailer"]["nw"]))


class TmpFile:
    def __init__(self, data):
        fd, self.path = tempfile.mkstemp(suffix=".op4", prefix="verif_")
        os.write(fd, data)
        os.close(fd)

    def __enter__(self):
        return self.path

    def __exit__(self, *a):
        try:
            os.unlink(self.path)
        except OSError:
            pass
