----------------------------- MODULE CycleCount -----------------------------
(***************************************************************************)
(* C10 (selection and binning part).                                        *)
(*  findap: selection of alternating local maxima/minima for cycle          *)
(*  counting.  Two algorithms are transcribed from pyyeti/cyclecount.py:    *)
(*    Vec   the vectorised one (unique-mask by adjacent difference, then    *)
(*          slope-sign changes), active when numba is absent                *)
(*    Loop  the loop ("accelerated", numba-compiled) one                    *)
(*  and checked against the declarative requirement Req and against each    *)
(*  other for EVERY integer signal up to the bound.  Tolerances are doubled *)
(*  (stol2 = 2*stol, odd) so that no comparison is ever a tie.              *)
(*  Drift(y) identifies the family on which the vectorised algorithm is     *)
(*  known to deviate: a run of adjacent sub-tolerance steps whose           *)
(*  cumulative change exceeds the tolerance.                                *)
(*  binify: half-open interval membership for right/left closed bins.       *)
(***************************************************************************)
EXTENDS Integers, Sequences, FiniteSets, TLC

CONSTANTS MaxLen, MaxVal, Export, Mode     \* Mode: "findap" | "binify"

Abs(x) == IF x < 0 THEN -x ELSE x
Sign(x) == IF x > 0 THEN 1 ELSE IF x < 0 THEN -1 ELSE 0
Big(d, stol2) == 2 * Abs(d) > stol2            \* |d| > stol

\* ---- vectorised --------------------------------------------------------
Unique(y, stol2) == [i \in 1..Len(y) |-> IF i = 1 THEN TRUE ELSE Big(y[i] - y[i - 1], stol2)]
RECURSIVE Pick(_, _, _)
Pick(y, u, i) == IF i > Len(y) THEN <<>> ELSE (IF u[i] THEN <<i>> ELSE <<>>) \o Pick(y, u, i + 1)
Vec(y, stol2) ==
  IF Len(y) = 1 THEN <<1>>
  ELSE LET u == Unique(y, stol2)
           ix == Pick(y, u, 1)                        \* positions of the unique values
           n == Len(ix)
           yu == [k \in 1..n |-> y[ix[k]]]
           s == [k \in 1..(n - 1) |-> Sign(yu[k + 1] - yu[k])]
           pv == [k \in 1..n |-> IF k = 1 THEN 1
                                 ELSE IF k = n THEN (IF n > 2 THEN (IF yu[n] # yu[n - 1] THEN 1 ELSE 0) ELSE 1)
                                 ELSE (IF Abs(s[k] - s[k - 1]) = 2 THEN 1 ELSE 0)]
       IN [i \in 1..Len(y) |-> IF \E k \in 1..n : ix[k] = i /\ pv[k] = 1 THEN 1 ELSE 0]

\* ---- loop ----------------------------------------------------------------
RECURSIVE FirstBig(_, _, _)
FirstBig(y, stol2, i) == IF i > Len(y) THEN i ELSE IF Big(y[i] - y[1], stol2) THEN i ELSE FirstBig(y, stol2, i + 1)
\* state of the scan: <<PV, cur, j, mountain>>
RECURSIVE Scan(_, _, _, _)
Scan(y, stol2, i, st) ==
  IF i > Len(y) THEN st
  ELSE LET PV == st[1] cur == st[2] j == st[3] mt == st[4] nxt == y[i] IN
       IF Big(nxt - cur, stol2)
       THEN (IF mt THEN (IF nxt < cur THEN Scan(y, stol2, i + 1, <<[PV EXCEPT ![j] = 1], nxt, i, FALSE>>)
                         ELSE Scan(y, stol2, i + 1, <<PV, nxt, i, mt>>))
             ELSE (IF nxt > cur THEN Scan(y, stol2, i + 1, <<[PV EXCEPT ![j] = 1], nxt, i, TRUE>>)
                   ELSE Scan(y, stol2, i + 1, <<PV, nxt, i, mt>>)))
       ELSE Scan(y, stol2, i + 1, st)
Err == <<-1>>
Loop(y, stol2) ==
  LET n == Len(y) IN
  IF n = 1 THEN <<1>>
  ELSE IF n = 2 THEN <<1, IF y[2] = y[1] THEN 0 ELSE 1>>
  ELSE LET i == FirstBig(y, stol2, 2)
           PV0 == [k \in 1..n |-> IF k = 1 THEN 1 ELSE 0]
       IN IF i > n THEN PV0
          ELSE IF i = n THEN [PV0 EXCEPT ![n] = 1]    \* the scan does not run; nxt = cur = y[n] (repaired in the repository: fix 51d2056)
          ELSE LET st == Scan(y, stol2, i + 1, <<PV0, y[i], i, y[i] > y[1]>>)
               IN IF Big(y[n] - y[n - 1], stol2) THEN [st[1] EXCEPT ![n] = 1] ELSE [st[1] EXCEPT ![st[3]] = 1]

\* ---- the property ---------------------------------------------------------
Sel(pv) == Pick(pv, [i \in 1..Len(pv) |-> pv[i] = 1], 1)
SetMax(S) == CHOOSE x \in S : \A z \in S : z <= x
SetMin(S) == CHOOSE x \in S : \A z \in S : z >= x
Req(y, stol2, pv) ==
  /\ pv # Err /\ Len(pv) = Len(y) /\ pv[1] = 1
  /\ LET ix == Sel(pv) v == [k \in 1..Len(ix) |-> y[ix[k]]] IN
     /\ \A k \in 1..(Len(v) - 1) : v[k] # v[k + 1]
     /\ \A k \in 2..(Len(v) - 1) : (v[k] - v[k - 1]) * (v[k + 1] - v[k]) < 0
     /\ 2 * (SetMax({y[i] : i \in 1..Len(y)}) - SetMax({v[k] : k \in 1..Len(v)})) <= stol2
     /\ 2 * (SetMin({v[k] : k \in 1..Len(v)}) - SetMin({y[i] : i \in 1..Len(y)})) <= stol2

\* the known-deviation family of the vectorised algorithm: a maximal run of adjacent sub-tolerance steps
\* (length >= 2 samples beyond its start) whose end differs from its start by more than the tolerance
Drift(y, stol2) == \E a \in 1..Len(y), b \in 1..Len(y) :
   /\ b >= a + 2 /\ \A k \in (a + 1)..b : ~Big(y[k] - y[k - 1], stol2)
   /\ \E c \in (a + 1)..b : Big(y[c] - y[a], stol2)

\* ---- binify -----------------------------------------------------------------
\* a cycle is <<amp2, mean2, cnt2>> (all doubled); edges are integers in original units
InBin(v2, lo, hi, right) == IF right THEN 2 * lo < v2 /\ v2 <= 2 * hi ELSE 2 * lo <= v2 /\ v2 < 2 * hi
Table(cyc, ab, mb, right) ==
  [m \in 1..(Len(mb) - 1) |-> [a \in 1..(Len(ab) - 1) |->
     LET RECURSIVE S(_) S(i) == IF i = 0 THEN 0 ELSE S(i - 1) +
            (IF InBin(cyc[i][1], ab[a], ab[a + 1], right) /\ InBin(cyc[i][2], mb[m], mb[m + 1], right) THEN cyc[i][3] ELSE 0)
     IN S(Len(cyc))]]
Covered(cyc, ab, mb, right) == \A i \in 1..Len(cyc) :
   /\ InBin(cyc[i][1], ab[1], ab[Len(ab)], right) /\ InBin(cyc[i][2], mb[1], mb[Len(mb)], right)
Total(cyc) == LET RECURSIVE S(_) S(i) == IF i = 0 THEN 0 ELSE S(i - 1) + cyc[i][3] IN S(Len(cyc))
TabSum(t) == LET RECURSIVE R(_, _) R(m, a) == IF m = 0 THEN 0 ELSE IF a = 0 THEN R(m - 1, Len(t[1])) ELSE t[m][a] + R(m, a - 1)
             IN R(Len(t), Len(t[1]))
CycSet == {<<a, m, c>> : a \in 0..6, m \in {-2, 0, 1, 2}, c \in {1, 2}}
AmpBins == {<<0, 1, 2, 3>>, <<1, 2>>, <<0, 3>>, <<1, 3>>, <<0, 2, 4>>}
MeanBins == {<<-2, 0, 2>>, <<0, 1>>, <<-1, 1>>}

VARIABLES y, stol2
\* the tolerance is relative: stol = tol * max|adjacent difference| with tol < 1
MaxAbsDiff(s) == IF Len(s) < 2 THEN 0 ELSE SetMax({Abs(s[i + 1] - s[i]) : i \in 1..(Len(s) - 1)})
Init == IF Mode = "findap"
        THEN /\ y \in UNION {[1..n -> 0..MaxVal] : n \in 1..MaxLen} /\ stol2 \in {1, 3, 5}
             /\ (MaxAbsDiff(y) = 0 \/ stol2 < 2 * MaxAbsDiff(y))
        ELSE /\ y \in {<<c1, c2>> : c1 \in CycSet, c2 \in {<<5, 1, 2>>, <<2, 0, 1>>, <<0, -2, 2>>}}
             /\ stol2 \in {<<ab, mb, r>> : ab \in AmpBins, mb \in MeanBins, r \in BOOLEAN}
Next == UNCHANGED <<y, stol2>>

\* outside the drift family the two algorithms agree and meet the requirement (where the loop variant is defined)
AgreeOutsideDrift == (Mode = "findap" /\ ~Drift(y, stol2) /\ Loop(y, stol2) # Err) => Vec(y, stol2) = Loop(y, stol2)
VecMeetsReqOutsideDrift == (Mode = "findap" /\ ~Drift(y, stol2)) => Req(y, stol2, Vec(y, stol2))
TypeOK == Mode = "findap" => Len(Vec(y, stol2)) = Len(y)
\* at the default-like tolerance (only exactly equal neighbours merge) both variants agree and meet the requirement
DefaultTolOK == (Mode = "findap" /\ stol2 = 1) => /\ Vec(y, stol2) = Loop(y, stol2) /\ Req(y, stol2, Vec(y, stol2))
\* binning conserves the total count whenever the bins cover the data, and never creates counts
Conservation == Mode = "binify" =>
   LET t == Table(y, stol2[1], stol2[2], stol2[3]) IN
   /\ TabSum(t) <= Total(y) /\ (Covered(y, stol2[1], stol2[2], stol2[3]) => TabSum(t) = Total(y))

ExportBins == (Export /\ Mode = "binify") => PrintT(<<"BINIFY", y, stol2[1], stol2[2], stol2[3],
                       Table(y, stol2[1], stol2[2], stol2[3]), Covered(y, stol2[1], stol2[2], stol2[3])>>)
ExportOK == (Export /\ Mode = "findap") => PrintT(<<"FINDAP", y, stol2, Vec(y, stol2), Loop(y, stol2),
                               Req(y, stol2, Vec(y, stol2)), Req(y, stol2, Loop(y, stol2)), Drift(y, stol2)>>)
=============================================================================
