------------------------------- MODULE Locate -------------------------------
(***************************************************************************)
(* C18 (look-up part).  Defining equations of mkdofpv / expanddof and of   *)
(* the generic locating helpers of pyyeti.locate, over small integer       *)
(* sequences.  Indices are 0-based as in the code.  Each state is one      *)
(* query; TLC evaluates the definition and exports the expected answer,    *)
(* or, where the code may legitimately pick among several answers, the set *)
(* of admissible answers.                                                  *)
(***************************************************************************)
EXTENDS Integers, Sequences, FiniteSets, TLC

CONSTANTS MaxLen, MaxVal, Export,
          TableVariant     \* 1 | 2: two set assignments of the SAME rows (the driver edits one table object in place
                           \* from variant 1 to 2 and back between look-ups: the answer must follow the current table)

Vals == 0..MaxVal
Seqs(n) == UNION {[1..k -> Vals] : k \in 0..n}
Refuse == <<-1>>

\* generic helpers --------------------------------------------------------
Range(s) == {s[i] : i \in 1..Len(s)}
RECURSIVE Filter(_, _, _)
Filter(s, P(_), i) == IF i > Len(s) THEN <<>>
                      ELSE (IF P(i) THEN <<i - 1>> ELSE <<>>) \o Filter(s, P, i + 1)      \* 0-based positions
First(s, x) == CHOOSE i \in 1..Len(s) : s[i] = x /\ \A k \in 1..(i - 1) : s[k] # x
NoDup(s) == \A i, k \in 1..Len(s) : s[i] = s[k] => i = k

\* find_duplicates(v): True where the value occurs anywhere else
FindDuplicates(v) == [i \in 1..Len(v) |-> IF \E k \in 1..Len(v) : k # i /\ v[k] = v[i] THEN 1 ELSE 0]

\* flippv(pv, n): sorted complement of pv in 0..n-1
FlipPV(pv, n) == LET s == [i \in 1..n |-> i - 1] IN
                 LET P(i) == ~(s[i] \in Range(pv)) IN Filter(s, P, 1)

\* index2bool(pv, n)
Index2Bool(pv, n) == [i \in 1..n |-> IF (i - 1) \in Range(pv) THEN 1 ELSE 0]

\* index2slice(pv): convertible iff empty, single, or constant non-zero step (entries are >= 0 here)
Sliceable(pv) == Len(pv) <= 1 \/ (pv[2] # pv[1] /\ \A i \in 1..(Len(pv) - 1) : pv[i + 1] - pv[i] = pv[2] - pv[1])

\* find_subseq(seq, sub): start indices of every (possibly overlapping) occurrence
FindSubseq(s, sub) == LET P(i) == i + Len(sub) - 1 <= Len(s) /\ \A k \in 1..Len(sub) : s[i + k - 1] = sub[k]
                      IN Filter(s, P, 1)

\* find_vals(m, v): True where m holds any value of v
FindVals(m, v) == [i \in 1..Len(m) |-> IF m[i] \in Range(v) THEN 1 ELSE 0]

\* mat_intersect(D1, D2, keep) on vectors (rows of width 1):
\* needles = D1 if keep = 1 or (keep = 0 and len(D1) <= len(D2)), else D2.  pvN = positions in needles order of the
\* needles that occur in the haystack; pvH[i] any position in the haystack holding that value.
NeedlesAreD1(d1, d2, keep) == keep = 1 \/ (keep = 0 /\ Len(d1) <= Len(d2))
MatIntersect(d1, d2, keep) ==
  LET nd == IF NeedlesAreD1(d1, d2, keep) THEN d1 ELSE d2
      hs == IF NeedlesAreD1(d1, d2, keep) THEN d2 ELSE d1
      P(i) == nd[i] \in Range(hs)
      pvN == Filter(nd, P, 1)
      adm == [i \in 1..Len(pvN) |-> {k - 1 : k \in {k \in 1..Len(hs) : hs[k] = nd[pvN[i] + 1]}}]
  IN <<IF NeedlesAreD1(d1, d2, keep) THEN 1 ELSE 2, pvN, adm>>

\* list_intersect(L1, L2): common items, first occurrences, in L1 order
ListIntersect(l1, l2) ==
  LET P(i) == l1[i] \in Range(l2) /\ First(l1, l1[i]) = i
      pv1 == Filter(l1, P, 1)
  IN <<pv1, [i \in 1..Len(pv1) |-> First(l2, l1[pv1[i] + 1]) - 1]>>

\* merge_lists(l1, l2) (lists without repeated items): defining equations only - checked on the real answer
\*   l1 = [m[i] : i in pv1], l2 = [m[i] : i in pv2], set(m) = set(l1) | set(l2), no repeats in m, l1 is a subsequence of m;
\* TLC exports the required item SET and length of the merged list.
MergeSpec(l1, l2) == <<Range(l1) \cup Range(l2), Cardinality(Range(l1) \cup Range(l2))>>

---------------------------------------------------------------------------
(* mkdofpv / expanddof on a fixed USET table                                *)
(* table rows <<id, dof, base set>> in table order                          *)
Table1 == << <<10, 1, "b">>, <<10, 2, "b">>, <<10, 3, "b">>, <<10, 4, "c">>, <<10, 5, "c">>, <<10, 6, "m">>,
             <<20, 0, "q">>,
             <<30, 1, "s">>, <<30, 2, "s">>, <<30, 3, "o">>, <<30, 4, "o">>, <<30, 5, "r">>, <<30, 6, "e">>,
             <<5, 0, "q">> >>
Table2 == << <<10, 1, "s">>, <<10, 2, "b">>, <<10, 3, "q">>, <<10, 4, "c">>, <<10, 5, "m">>, <<10, 6, "m">>,
             <<20, 0, "s">>,
             <<30, 1, "b">>, <<30, 2, "s">>, <<30, 3, "q">>, <<30, 4, "o">>, <<30, 5, "b">>, <<30, 6, "e">>,
             <<5, 0, "o">> >>
Table == IF TableVariant = 1 THEN Table1 ELSE Table2
SetMembers(name) ==
  CASE name = "p" -> {"m", "s", "o", "q", "r", "c", "b", "e"}
    [] name = "a" -> {"c", "b", "r", "q"}
    [] name = "q+b" -> {"q", "b"}
    [] name = "g" -> {"m", "s", "o", "q", "r", "c", "b"}
    [] name = "s" -> {"s"}
SubTable(name) == LET P(i) == Table[i][3] \in SetMembers(name)
                      RECURSIVE G(_) G(i) == IF i > Len(Table) THEN <<>> ELSE (IF P(i) THEN <<Table[i]>> ELSE <<>>) \o G(i + 1)
                  IN G(1)
\* a request item is <<id, comps>> with comps a sequence of component digits
RECURSIVE ExpandReq(_)
ExpandReq(req) == IF req = <<>> THEN <<>>
                  ELSE [k \in 1..Len(req[1][2]) |-> <<req[1][1], req[1][2][k]>>] \o ExpandReq(Tail(req))
PosIn(tab, idd) == IF \E i \in 1..Len(tab) : tab[i][1] = idd[1] /\ tab[i][2] = idd[2]
                   THEN (CHOOSE i \in 1..Len(tab) : tab[i][1] = idd[1] /\ tab[i][2] = idd[2]) - 1 ELSE -1
DofPV(name, req, strict) ==
  LET tab == SubTable(name)
      ex == ExpandReq(req)
      pos == [k \in 1..Len(ex) |-> PosIn(tab, ex[k])]
  IN IF \E k \in 1..Len(pos) : pos[k] = -1
     THEN (IF strict THEN <<Refuse, <<>>>>
           ELSE LET RECURSIVE H(_) H(k) == IF k > Len(pos) THEN <<>> ELSE (IF pos[k] # -1 THEN <<k>> ELSE <<>>) \o H(k + 1)
                    keep == H(1)
                IN <<[i \in 1..Len(keep) |-> pos[keep[i]]], [i \in 1..Len(keep) |-> ex[keep[i]]]>>)
     ELSE <<pos, ex>>

ReqItems == {<<10, <<1, 2, 3, 4, 5, 6>>>>, <<10, <<3>>>>, <<10, <<4, 6>>>>, <<20, <<0>>>>, <<30, <<2, 1>>>>,
             <<40, <<1>>>>, <<20, <<1>>>>, <<5, <<0>>>>, <<30, <<6, 5, 4>>>>}
Reqs == {<<a>> : a \in ReqItems} \cup {<<a, b>> : a \in ReqItems, b \in ReqItems}
IdLists == {<<a>> : a \in {10, 20, 30, 40, 5}} \cup {<<a, b>> : a \in {10, 20, 30, 40, 5}, b \in {10, 20, 30}}
AllComps(grids_only) == IF grids_only THEN <<1, 2, 3, 4, 5, 6>> ELSE <<0, 1, 2, 3, 4, 5, 6>>
SetNames == {"p", "a", "q+b", "g", "s"}

---------------------------------------------------------------------------
VARIABLE q
Queries ==
       {[fn |-> "find_duplicates", a |-> s] : s \in Seqs(MaxLen) \ Seqs(1)}
  \cup {[fn |-> "flippv", a |-> s, n |-> n] : s \in {t \in Seqs(MaxLen) : TRUE}, n \in {MaxVal + 1, MaxVal + 3}}
  \cup {[fn |-> "index2bool", a |-> s, n |-> MaxVal + 2] : s \in Seqs(MaxLen)}
  \cup {[fn |-> "index2slice", a |-> s] : s \in Seqs(MaxLen)}
  \cup {[fn |-> "find_subseq", a |-> s, b |-> t] : s \in Seqs(MaxLen), t \in Seqs(2) \ {<<>>}}
  \cup {[fn |-> "find_vals", a |-> s, b |-> t] : s \in Seqs(MaxLen), t \in Seqs(2)}
  \cup {[fn |-> "mat_intersect", a |-> s, b |-> t, keep |-> k] : s \in Seqs(MaxLen) \ {<<>>}, t \in Seqs(MaxLen) \ {<<>>}, k \in 0..2}
  \cup {[fn |-> "list_intersect", a |-> s, b |-> t] : s \in Seqs(MaxLen), t \in Seqs(MaxLen)}
  \cup {[fn |-> "merge_lists", a |-> s, b |-> t] : s \in {x \in Seqs(MaxLen) : NoDup(x)}, t \in {x \in Seqs(MaxLen) : NoDup(x)}}
  \cup {[fn |-> "mkdofpv2", set |-> nm, req |-> r, strict |-> st] : nm \in SetNames, r \in Reqs, st \in BOOLEAN}
  \cup {[fn |-> "mkdofpv1", set |-> nm, ids |-> r, strict |-> st, go |-> go] : nm \in SetNames, r \in IdLists, st \in BOOLEAN, go \in BOOLEAN}

Answer(x) ==
  CASE x.fn = "find_duplicates" -> FindDuplicates(x.a)
    [] x.fn = "flippv" -> FlipPV(x.a, x.n)
    [] x.fn = "index2bool" -> Index2Bool(x.a, x.n)
    [] x.fn = "index2slice" -> <<IF Sliceable(x.a) THEN 1 ELSE 0>>
    [] x.fn = "find_subseq" -> FindSubseq(x.a, x.b)
    [] x.fn = "find_vals" -> FindVals(x.a, x.b)
    [] x.fn = "mat_intersect" -> MatIntersect(x.a, x.b, x.keep)
    [] x.fn = "list_intersect" -> ListIntersect(x.a, x.b)
    [] x.fn = "merge_lists" -> MergeSpec(x.a, x.b)
    [] x.fn = "mkdofpv2" -> DofPV(x.set, x.req, x.strict)
    [] x.fn = "mkdofpv1" -> DofPV(x.set, [i \in 1..Len(x.ids) |-> <<x.ids[i], AllComps(x.go)>>], x.strict)

Init == q \in Queries
Next == UNCHANGED q

\* laws the definitions themselves must satisfy (checked by TLC for every query)
Laws ==
  /\ (q.fn = "flippv" => LET c == FlipPV(q.a, q.n) IN
        /\ Range(c) \cap Range(q.a) = {} /\ Range(c) \cup (Range(q.a) \cap 0..(q.n - 1)) = 0..(q.n - 1)
        /\ \A i \in 1..(Len(c) - 1) : c[i] < c[i + 1])
  /\ (q.fn = "list_intersect" => LET r == ListIntersect(q.a, q.b) IN
        /\ Len(r[1]) = Len(r[2]) /\ \A i \in 1..Len(r[1]) : q.a[r[1][i] + 1] = q.b[r[2][i] + 1]
        /\ {q.a[r[1][i] + 1] : i \in 1..Len(r[1])} = Range(q.a) \cap Range(q.b))
  /\ (q.fn = "mkdofpv2" => LET r == DofPV(q.set, q.req, q.strict) IN
        r[1] # Refuse => /\ Len(r[1]) = Len(r[2])
                         /\ \A i \in 1..Len(r[1]) : SubTable(q.set)[r[1][i] + 1][1] = r[2][i][1]
                                                 /\ SubTable(q.set)[r[1][i] + 1][2] = r[2][i][2])

ExportOK == Export => PrintT(<<"LOC", q, Answer(q)>>)
ExportTable == Export => (q = [fn |-> "index2slice", a |-> <<>>] => PrintT(<<"TABLE", TableVariant, Table>>))
=============================================================================
