#!/venv/bin/python
"""Controls: apply each mutant of /verif/mutants/<Cxx>.json to a scratch worktree of /repo (outside /repo and
/verif), run the property's quick check with VERIF_REPO pointing at it, and report whether it is flagged.
Usage: tools/muttest.py C08 [name-substring]      (worktree removed afterwards)"""
import json, os, subprocess, sys, shutil, tempfile

VERIF = os.path.dirname(os.path.dirname(os.path.abspath(__file__)))


def main():
    pid = sys.argv[1]
    filt = sys.argv[2] if len(sys.argv) > 2 else ""
    muts = json.load(open(os.path.join(VERIF, "mutants", pid + ".json")))
    wt = tempfile.mkdtemp(prefix="mut_%s_" % pid, dir="/tmp")
    os.rmdir(wt)
    subprocess.run(["git", "-C", "/repo", "worktree", "add", "-q", "--detach", wt, "HEAD"], check=True)
    results = []
    try:
        for m in muts:
            if filt not in m["name"]:
                continue
            subprocess.run(["git", "-C", wt, "checkout", "-q", "--", "."], check=True)
            path = os.path.join(wt, m["file"])
            s = open(path).read()
            cnt = s.count(m["old"])
            if cnt == 0:
                results.append((m["name"], "STALE (pattern not found)"))
                print("%-40s %s" % results[-1], flush=True)
                continue
            nth = m.get("nth", 0)
            if nth != "all" and nth >= cnt:
                results.append((m["name"], "STALE (occurrence %d of %d not found)" % (nth, cnt)))
                print("%-40s %s" % results[-1], flush=True)
                continue
            if nth == "all":
                s2 = s.replace(m["old"], m["new"])
            else:
                idx = -1
                for _ in range(nth + 1):
                    idx = s.find(m["old"], idx + 1)
                s2 = s[:idx] + m["new"] + s[idx + len(m["old"]):]
            open(path, "w").write(s2)
            env = dict(os.environ, VERIF_REPO=wt, VERIF_EVID_DIR=tempfile.mkdtemp(prefix="mutevid_"))
            p = subprocess.run([os.path.join(VERIF, "check"), pid, "--tier", "quick"], env=env,
                               stdout=subprocess.PIPE, stderr=subprocess.STDOUT, text=True)
            shutil.rmtree(env["VERIF_EVID_DIR"], ignore_errors=True)
            flagged = p.returncode == 1 and "VIOLATION property=%s" % pid in p.stdout
            clause = [l for l in p.stdout.splitlines() if "failing clause" in l][:1]
            if m.get("growth"):
                # a change of behaviour outside the property that a growth spec describes: SPEC-DEVIATION line, exit 0, no VIOLATION
                ok = p.returncode == 0 and "SPEC-DEVIATION:" in p.stdout and "VIOLATION" not in p.stdout
                dev = [l for l in p.stdout.splitlines() if l.startswith("SPEC-DEVIATION:")][:1]
                results.append((m["name"], ("CAUGHT(as spec deviation, no alarm) " + (dev[0][:120] if dev else "")) if ok else
                                "MISSED (rc=%d) %s" % (p.returncode, p.stdout.strip().splitlines()[-1][:160] if p.stdout.strip() else "")))
                print("%-40s %s" % results[-1], flush=True)
                continue
            if m.get("benign"):
                results.append((m["name"], "CAUGHT(benign stays quiet)" if p.returncode == 0 else "MISSED: FALSE ALARM on benign change: " + (clause[0][:140] if clause else "")))
                print("%-40s %s" % results[-1], flush=True)
                continue
            results.append((m["name"], ("CAUGHT " + (clause[0].strip()[:140] if clause else "")) if flagged
                            else "MISSED (rc=%d) %s" % (p.returncode, p.stdout.strip().splitlines()[-1][:200] if p.stdout.strip() else "")))
            print("%-40s %s" % results[-1], flush=True)
    finally:
        subprocess.run(["git", "-C", "/repo", "worktree", "remove", "--force", wt])
    missed = [r for r in results if not r[1].startswith("CAUGHT")]
    print("%s: %d/%d mutants caught" % (pid, len(results) - len(missed), len(results)))
    return 1 if missed else 0


if __name__ == "__main__":
    sys.exit(main())
