CONSTANTS
  NC = 3
  NR = 1
  Form = "one"
  Alpha = "one1"
  XLess = {}
  Export = TRUE
SPECIFICATION Spec
INVARIANT TypeOK
INVARIANT TrueExtTwo
INVARIANT TrueExtOne
INVARIANT LabelsAttain
INVARIANT PerCase
INVARIANT ExportOK
