CONSTANTS
  LF = 6
  W = 4
  RMW = FALSE
  Export = TRUE
SPECIFICATION Spec
INVARIANT AtMostOnce
INVARIANT ExactlyOnce
INVARIANT Confluence
INVARIANT InFlight
INVARIANT ExportOK
PROPERTY OwnRowOnly
PROPERTY Terminates
