CONSTANTS
  NC = 3
  NR = 2
  Form = "one"
  Alpha = "one2n"
  XLess = {}
  Export = TRUE
SPECIFICATION Spec
INVARIANT TypeOK
INVARIANT TrueExtTwo
INVARIANT TrueExtOne
INVARIANT LabelsAttain
INVARIANT PerCase
INVARIANT ExportOK
