CONSTANTS
  MaxCalls = 3
  Export = TRUE
SPECIFICATION Spec
INVARIANT UnitIsIdentity
INVARIANT CacheInvisible
INVARIANT MergeLaws
INVARIANT ExportMerge
INVARIANT ExportOK
