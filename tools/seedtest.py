#!/venv/bin/python
"""Confirm a seeded change and run the checks against it.
usage: tools/seedtest.py <Cxx> <patch.diff> <demo.py> <seed-id> [--suite] [--tier quick]
 - scratch worktree of /repo HEAD under /tmp (removed afterwards), patch applied there
 - demo must exit 1 on the changed tree and 0 on the unchanged tree
 - with --suite: the repository suite is run on the changed tree, failing set compared with the unchanged tree's
 - ./check Cxx with VERIF_REPO=<worktree>; result recorded in /verif/seeded/<seed-id>/meta.json"""
import json, os, shutil, subprocess, sys, tempfile, time

VERIF = os.path.dirname(os.path.dirname(os.path.abspath(__file__)))
BASEFAIL = "/tmp/verif_baseline_failed.txt"


def suite(tree):
    p = subprocess.run(["/venv/bin/python", "-m", "pytest", "-q", "-p", "no:cacheprovider", "--timeout=900", "-x" if False else "-q",
                        "pyyeti/tests"], cwd=tree, env=dict(os.environ, PYTHONPATH=tree), stdout=subprocess.PIPE,
                       stderr=subprocess.STDOUT, text=True)
    failed = sorted(l.split()[1] for l in p.stdout.splitlines() if l.startswith("FAILED ") or l.startswith("ERROR "))
    return failed


def main():
    pid, patch, demo, sid = sys.argv[1:5]
    do_suite = "--suite" in sys.argv
    wt = tempfile.mkdtemp(prefix="seedchk_", dir="/tmp")
    os.rmdir(wt)
    subprocess.run(["git", "-C", "/repo", "worktree", "add", "-q", "--detach", wt, "HEAD"], check=True)
    meta = {"property": pid, "seed_id": sid, "repo_head": subprocess.check_output(["git", "-C", "/repo", "rev-parse", "--short", "HEAD"], text=True).strip()}
    try:
        r = subprocess.run(["git", "-C", wt, "apply", os.path.abspath(patch)], stdout=subprocess.PIPE, stderr=subprocess.STDOUT, text=True)
        if r.returncode:
            print("patch does not apply:", r.stdout)
            return 2
        d_un = subprocess.run(["/venv/bin/python", demo], env=dict(os.environ, PYTHONPATH="/repo"), cwd="/tmp", stdout=subprocess.PIPE, stderr=subprocess.STDOUT, text=True)
        d_ch = subprocess.run(["/venv/bin/python", demo], env=dict(os.environ, PYTHONPATH=wt), cwd="/tmp", stdout=subprocess.PIPE, stderr=subprocess.STDOUT, text=True)
        meta["demo_unchanged_rc"] = d_un.returncode
        meta["demo_changed_rc"] = d_ch.returncode
        print("demo: unchanged rc=%d changed rc=%d" % (d_un.returncode, d_ch.returncode))
        if do_suite:
            if not os.path.exists(BASEFAIL):
                open(BASEFAIL, "w").write("\n".join(suite("/repo")))
            base = open(BASEFAIL).read().split()
            ch = suite(wt)
            meta["suite_failing_unchanged"] = len(base)
            meta["suite_new_failures_with_change"] = sorted(set(ch) - set(base))
            print("suite: baseline failing %d, new failures with change: %s" % (len(base), meta["suite_new_failures_with_change"]))
        tier = "quick"
        if "--tier" in sys.argv:
            tier = sys.argv[sys.argv.index("--tier") + 1]
        ev = tempfile.mkdtemp(prefix="seedevid_")
        t0 = time.time()
        p = subprocess.run([os.path.join(VERIF, "check"), pid, "--tier", tier], env=dict(os.environ, VERIF_REPO=wt, VERIF_EVID_DIR=ev),
                           stdout=subprocess.PIPE, stderr=subprocess.STDOUT, text=True)
        shutil.rmtree(ev, ignore_errors=True)
        clause = [l.strip() for l in p.stdout.splitlines() if "failing clause" in l][:2]
        meta["check"] = {"cmd": "VERIF_REPO=<scratch worktree with patch> ./check %s --tier %s" % (pid, tier), "rc": p.returncode,
                         "detected": p.returncode == 1 and ("VIOLATION property=%s" % pid) in p.stdout, "first_clauses": clause,
                         "wall_s": round(time.time() - t0, 1)}
        print("check rc=%d detected=%s %s" % (p.returncode, meta["check"]["detected"], clause[:1]))
        if p.returncode not in (0, 1):
            print(p.stdout[-1500:])
    finally:
        subprocess.run(["git", "-C", "/repo", "worktree", "remove", "--force", wt])
    out = os.path.join(VERIF, "seeded", sid)
    os.makedirs(out, exist_ok=True)
    shutil.copy(patch, os.path.join(out, "patch.diff"))
    shutil.copy(demo, os.path.join(out, "demo.py"))
    old = {}
    mp = os.path.join(out, "meta.json")
    if os.path.exists(mp):
        old = json.load(open(mp))
    old.update(meta)
    json.dump(old, open(mp, "w"), indent=1)
    return 0


if __name__ == "__main__":
    sys.exit(main())
