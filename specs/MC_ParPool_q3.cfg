CONSTANTS
  LF = 3
  W = 1
  RMW = TRUE
  Export = TRUE
SPECIFICATION Spec
INVARIANT AtMostOnce
INVARIANT ExactlyOnce
INVARIANT Confluence
INVARIANT InFlight
INVARIANT ExportOK
PROPERTY OwnRowOnly
PROPERTY Terminates
