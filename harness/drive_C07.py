"""C07: matrix exponential, its integrals, the E/P/Q coefficient matrices, and continuous <-> discrete conversion.

specs/ExpmInt.tla: (1) the power-series DEFINITIONS of E, I1, I2 and of P, Q / one hold step as terms, (2) the expmint
algorithm as a state machine (Pade selection, scaling, squaring with the integral propagated on equal spans; TLC checks
that every run ends with E and I1 spanning [0, h]), (3) the case lattice structure x norm class x order x B x half with
the predicted getEPQ route.  specs/SSModel.tla: conversion histories (c2d / d2c with every method and prewarp, calls on
a model already in the target domain), their reduction (inverse pairs cancel in either direction), the discrete
matrices of each method as terms, the sampled-response law and the bilinear-transform law.

The driver evaluates the definitions with the generic evaluator (mpmath, precision scaled with ||Ah||) for every lattice
case, compares expmint / expmint_pow / getEPQ / getEPQ1 / getEPQ2 / getEPQ_pow with them (tolerance = measured
sensitivity of the exact result to a relative perturbation of A of 2 ulp, times a safety factor), records which Pade
branch / I2 formula / route the real code took (wrappers around the helper methods) and validates those events with TLC
against ExpmIntTrace.tla, and replays every conversion history into SSModel."""
import json
import os
import tempfile
import warnings

from . import tlc, terms
from .runner import main, Run

EPS = 2.0 ** -52
SAFETY = 30.0
PERT = 64.0            # size of the relative perturbation of A, in ulp, used to measure sensitivity


# ----------------------------------------------------------------------------------------------- matrices
def build(np, rng, st, even):
    """a matrix of the given structure (size 3, or 4 when an even size is needed; oscillator 2 or 4)"""
    n = 4 if even else 3

    def randq():
        q = rng.standard_normal((n, n))
        q += n * np.eye(n) * np.sign(np.diag(q) + 1e-9)       # diagonally dominant: condition number of order 1..10
        return q

    if st == "generic":
        a = rng.standard_normal((n, n))
        a -= (np.linalg.eigvals(a).real.max() + 0.3 * np.abs(a).sum(axis=0).max()) * np.eye(n)
    elif st == "singular":
        q = randq()
        ev = -rng.uniform(0.2, 2.0, n)
        ev[0] = 0.0
        a = q @ np.diag(ev) @ np.linalg.inv(q)
    elif st in ("nilpotent2", "nilpotent3"):
        N = np.zeros((n, n))
        N[0, 1] = 2.0
        if st == "nilpotent3":
            N[1, 2] = 3.0
            N[0, 2] = 1.0
        # unimodular integer similarity (exact in floats): P = L U with unit diagonals
        L = np.eye(n) + np.tril(rng.integers(-2, 3, (n, n)), -1)
        U = np.eye(n) + np.triu(rng.integers(-2, 3, (n, n)), 1)
        P = L @ U
        Pi = np.round(np.linalg.inv(P))
        a = P @ N @ Pi
        assert np.all(Pi @ P == np.eye(n))
    elif st == "jordan":
        a = -0.7 * np.eye(n) + np.diag(np.ones(n - 1), 1)
        if rng.integers(2):
            q = randq()
            a = q @ a @ np.linalg.inv(q)
    elif st == "uppertri":
        a = np.triu(rng.standard_normal((n, n)), 1) + np.diag(-rng.uniform(0.1, 2.0, n))
    elif st == "diagonal":
        ev = -np.array([1.0, 0.05, 0.0, 1e-3][:n]) * rng.uniform(0.5, 2.0)
        a = np.diag(ev)
    elif st == "stiff":
        q = randq()
        ev = -np.array([1.0, 1e-2, 1e-4, 1e-6][:n]) if n == 4 else -np.array([1.0, 1e-3, 1e-6])
        a = q @ np.diag(ev) @ np.linalg.inv(q)
    elif st == "oscillator":
        nd = 2 if even else 1
        w = rng.uniform(1.0, 9.0, nd)
        z = rng.uniform(0.005, 0.3, nd)
        K = np.diag(w ** 2)
        Cc = np.diag(2 * z * w)
        if nd == 2:
            Cc[0, 1] = Cc[1, 0] = 0.2 * np.sqrt(Cc[0, 0] * Cc[1, 1])
        a = np.block([[np.zeros((nd, nd)), np.eye(nd)], [-K, -Cc]])
    else:
        raise ValueError(st)
    return a * 10.0 ** rng.uniform(-2, 2)


def aclass(np, a):
    c = np.linalg.cond(a)
    return "singular" if not np.isfinite(c) or c > 1e13 else ("illcond" if c > 3e4 else "regular")


# ----------------------------------------------------------------------------------------------- exact side (workers)
def _exact_job(job):
    """evaluate the series definitions at A and at three relative perturbations of A; returns float arrays + sensitivities"""
    import numpy as np
    import mpmath as mp
    defs, a, h, nrm, seed = job
    mp.mp.dps = int(40 + 0.9 * nrm)
    n = a.shape[0]

    def tonp(M):
        return np.array([[float(M[i, j]) for j in range(M.cols)] for i in range(M.rows)])

    def one(am):
        env = {"A": mp.matrix(am.tolist()), "h": mp.mpf(h), "__kmin": int(2 * nrm + 10)}
        E = terms.evm(defs["E"], env, mp)
        I1 = terms.evm(defs["I1"], env, mp)
        I2 = terms.evm(defs["I2"], env, mp)
        return E, I1, I2, env

    E, I1, I2, env = one(a)
    # laws of the definitions (ties the three series together)
    env2 = dict(env, E=E, I1=I1, I2=I2)
    lawerr = 0.0
    for nm in ("lawI1", "lawI2"):
        lhs = terms.evm(defs[nm][0], env2, mp)
        rhs = terms.evm(defs[nm][1], env2, mp)
        sc = max(mp.mnorm(lhs, 1), mp.mnorm(rhs, 1), mp.mpf(10) ** -300)
        lawerr = max(lawerr, float(mp.mnorm(lhs - rhs, 1) / sc))
    out = {"E": tonp(E), "I1": tonp(I1), "I2": tonp(I2), "lawerr": lawerr}
    rng = np.random.default_rng(seed)
    sens = {"E": 0.0, "I1": 0.0, "I2": 0.0}
    an = np.abs(a).sum(axis=0).max()
    for _ in range(3):
        # backward stability is normwise and unstructured: dense perturbation of size PERT ulp of ||A||, plus a componentwise part
        # (sensitivity of nearly defective matrices grows like a fractional power: measured at the full size, not extrapolated)
        da = PERT * EPS * (a * rng.uniform(-1, 1, a.shape) + an / n * rng.uniform(-1, 1, a.shape))
        Ep, I1p, I2p, _e = one(a + da)
        for nm, X, Xp in (("E", E, Ep), ("I1", I1, I1p), ("I2", I2, I2p)):
            sens[nm] = max(sens[nm], float(max(abs(x) for x in (Xp - X))))
    out["sens"] = sens
    return out


# ----------------------------------------------------------------------------------------------- probes
class Probes:
    """records which helper methods the real code calls (soft: missing attributes only disable the recording)"""

    def __init__(self, em, theta):
        self.em = em
        self.events = []
        self.theta = {k: float(v) for k, v in theta.items()}
        self.ok = True
        self.saved = []
        try:
            mf = em.mf
            self.mf = mf
            for cls, names in ((em._ExpmIntPadeHelper, (("pade3_i", 3), ("pade5_i", 5), ("pade7_i", 7), ("pade9_i", 9))),
                               (em._ExpmPadeHelper_SS, (("pade3", 3), ("pade5", 5), ("pade7", 7), ("pade9", 9)))):
                for name, order in names:
                    self._wrap_method(cls, name, order)
            self._wrap_method(em._ExpmIntPadeHelper, "pade13_scaled_i", 13)
            self._wrap_method(em._ExpmPadeHelper_SS, "pade13_scaled", 13)
            orig_i2 = em._geti2
            ev = self.events

            def geti2(H, E, I, h, pade):
                with warnings.catch_warnings(record=True) as wl:
                    warnings.simplefilter("always")
                    r = orig_i2(H, E, I, h, pade)
                ser = any("power series" in str(w.message) for w in wl)
                ev.append(("i2", "pade" if pade <= 9 else ("series" if ser else "inverse")))
                return r
            self.saved.append((em, "_geti2", orig_i2))
            em._geti2 = geti2
            for name in ("getEPQ1", "getEPQ2"):
                orig = getattr(em, name)

                def route(*a, _o=orig, _n=name, **k):
                    ev.append(("route", _n))
                    return _o(*a, **k)
                self.saved.append((em, name, orig))
                setattr(em, name, route)
        except AttributeError:
            self.ok = False

    def _wrap_method(self, cls, name, order):
        orig = getattr(cls, name)
        ev = self.events
        if order == 13:
            def w(self_, s, *a, _o=orig):
                ev.append(("pade", 13, int(s), self_))
                return _o(self_, s, *a)
        else:
            def w(self_, *a, _o=orig, _n=order):
                ev.append(("pade", _n, 0, self_))
                return _o(self_, *a)
        self.saved.append((cls, name, orig))
        setattr(cls, name, w)

    def restore(self):
        for obj, name, orig in self.saved:
            setattr(obj, name, orig)

    def take(self):
        e, self.events[:] = list(self.events), []
        return e

    def pade_line(self, ev, i2f):
        """trace line for one ("pade", order, s, helper) event"""
        import numpy as np
        _k, order, s, H = ev
        th = self.theta
        mf = self.mf
        e1 = max(H.d4_loose, H.d6_loose)
        e2 = max(H.d4_tight, H.d6_loose)
        e3 = max(H.d6_tight, H.d8_loose)
        e4 = max(H.d8_loose, H.d10_loose)
        e5 = min(e3, e4)
        line = {"kind": "pade", "pade": order, "s": s, "i2f": i2f,
                "e1": bool(e1 < th["t3"]), "e2": bool(e2 < th["t5"]), "e37": bool(e3 < th["t7"]), "e39": bool(e3 < th["t9"]),
                "l3": int(mf._ell(H.A, 3)), "l5": int(mf._ell(H.A, 5)), "l7": int(mf._ell(H.A, 7)), "l9": int(mf._ell(H.A, 9)),
                "l13": 0, "eta5q": int(min(e5 * 1024, 2e9))}
        if order == 13:
            sb = max(int(np.ceil(np.log2(e5 / th["t13"]))), 0) if e5 > 0 else 0
            line["l13"] = int(mf._ell(2.0 ** -sb * H.A, 13))
        return line


# ----------------------------------------------------------------------------------------------- part 1: expmint / getEPQ
def expm_part(run, np, em, quick):
    import multiprocessing as mpc
    res = tlc.run("ExpmInt", "MC_ExpmInt.cfg", timeout=600, coverage=False)
    run.add_tlc("MC_ExpmInt.cfg", res, "expmint algorithm machine (Pade selection, scaling, squaring spans), MaxS = 3; SpanLaw, DoneOK, "
                "I2PadeUnless13, Terminates; exports definitions and the case lattice")
    if res.violation:
        run.violation("TLC: %s on the ExpmInt model" % res.violation, {"tlc": res.error_text()}, {"where": "model"})
        return None
    norms, switch_index, theta = res.tagged("NORMS")[0]
    defs = res.tagged("DEFS")[0][0]
    cases = [(c, route) for c, route in res.tagged("CASE")]
    rng = np.random.default_rng(run.seed + 7)
    # one matrix per (structure, norm class, even size?) ; the options share it
    groups = {}
    for c, route in cases:
        even = bool(c["half"]) or c["st"] == "oscillator" and c["nc"] % 2 == 0
        groups.setdefault((c["st"], c["nc"], even), []).append((c, route))
    keys = sorted(groups)
    if quick:
        # the two largest norm classes cost ~1 s per exact evaluation: keep them for half of the structures in the quick tier
        keys = [k for k in keys if not (k[1] >= 11 and (hash(k[0]) + k[1] + (1 if k[2] else 0)) % 2)]
    jobs, mats = [], {}
    for key in keys:
        st, nc, even = key
        a = build(np, rng, st, even)
        num, den = norms[nc - 1]
        h = (num / den) / np.abs(a).sum(axis=0).max()
        # only the product A h matters: the same problem is posed with a small matrix and a long step, or a large matrix and a
        # short one (||A|| alone must not decide anything)
        sc_ = [1.0, 2.0 ** -10, 2.0 ** 10, 2.0 ** -30][int(rng.integers(4))]
        a, h = a * sc_, h / sc_
        mats[key] = (a, h)
        jobs.append((defs, a, h, num / den, run.seed + len(jobs)))
    with mpc.get_context("fork").Pool(min(16, os.cpu_count() or 1)) as pool:
        exact = dict(zip(keys, pool.map(_exact_job, jobs, chunksize=1)))

    probes = Probes(em, theta)
    trace = []
    branch_count = {}
    worst = 0.0
    graded = [0]

    def close(nm, got, want, sens, key, what, tags):
        nonlocal worst
        if np.shape(got) != np.shape(want):
            run.violation("%s: %s has shape %s, expected %s" % (what, nm, np.shape(got), np.shape(want)), {"case": key}, tags)
            return
        sc = np.abs(want).max()
        if sens > 1e-9 * sc:
            graded[0] += 1              # so ill-conditioned at PERT ulp that "round-off" is > 1e-8 relative: not compared
            return
        tol = SAFETY * (sens + 40 * EPS * sc) + 1e-300
        err = np.abs(np.asarray(got, float) - want).max()
        if not np.all(np.isfinite(got)) or err > tol:
            run.violation("%s: %s differs from its definition (relative error %.3g, allowed %.3g)" % (what, nm, err / max(sc, 1e-300), tol / max(sc, 1e-300)),
                          {"case": key, "A": mats[key][0], "h": mats[key][1]}, tags)
        elif sc > 0:
            worst = max(worst, err / tol)
            if os.environ.get("VERIF_DEBUG") and err / tol > 0.02:
                print("  [ratio] %.3f %s %s %s relerr=%.2g" % (err / tol, what, nm, key, err / sc))

    for key in keys:
        st, nc, even = key
        a, h = mats[key]
        ex = exact[key]
        if not all(np.all(np.isfinite(ex[k])) for k in ("E", "I1", "I2")):
            continue                    # result not representable in binary64: outside the statement
        if ex["lawerr"] > 1e-30:
            run.violation("the series definitions of the spec are inconsistent with A I1 = E - I / A I2 = h E - I1 (%.3g)" % ex["lawerr"],
                          {"case": key}, {"where": "model"})
            continue
        n = a.shape[0]
        nrm = norms[nc - 1][0] / norms[nc - 1][1]
        acl = aclass(np, a)
        base_tags = {"structure": st, "normclass": nc, "aclass": acl}
        with warnings.catch_warnings():
            warnings.simplefilter("ignore")
            # ---- expmint
            probes.take()
            try:
                E, I1, I2 = em.expmint(a, h, True)
                E_, I1_ = em.expmint(a, h)
            except Exception as exn:
                tg = dict(base_tags, fn="expmint")
                try:
                    probes.take()
                    em.expmint(a, h)                     # the failure is in the second integral when this succeeds
                    pe = [e for e in probes.take() if e[0] == "pade"]
                    tg.update(quantity="I2", pade=pe[0][1] if pe else None)
                except Exception:
                    pass
                run.violation("expmint raised %r" % exn, {"case": key, "A": a, "h": h}, tg)
                continue
            evs = probes.take()
            pade = None
            if probes.ok:
                pe = [e for e in evs if e[0] == "pade"]
                ie = [e for e in evs if e[0] == "i2"]
                if pe:
                    pade = pe[0][1]
                    trace.append(probes.pade_line(pe[0], ie[0][1] if ie else "none"))
                    trace.append(probes.pade_line(pe[-1], "none"))
                    bk = "expmint pade%d%s" % (pade, ("/I2 " + ie[0][1]) if ie else "")
                    branch_count[bk] = branch_count.get(bk, 0) + 1
            run.case(("expmint", key), part="expmint vs series definition")
            t13 = dict(base_tags, fn="expmint", pade=pade)
            close("E", E, ex["E"], ex["sens"]["E"], key, "expmint", dict(t13, quantity="E"))
            close("I1", I1, ex["I1"], ex["sens"]["I1"], key, "expmint", dict(t13, quantity="I1"))
            close("I2", I2, ex["I2"], ex["sens"]["I2"], key, "expmint", dict(t13, quantity="I2"))
            if E_.tobytes() != E.tobytes() or I1_.tobytes() != I1.tobytes():
                run.violation("expmint(geti2=False) differs from expmint(geti2=True) in E or I1", {"case": key}, dict(t13, quantity="E"))
            # ---- power-series variant (documented as brute force; compared in its convergent, well-conditioned range)
            if nrm <= 2.1:
                try:
                    Ep, I1p, I2p = em.expmint_pow(a, h)
                    run.case(("expmint_pow", key), part="expmint vs series definition")
                    for nm, g in (("E", Ep), ("I1", I1p), ("I2", I2p)):
                        close(nm, g, ex[nm], 10 * ex["sens"][nm] + 10 * EPS * np.abs(ex[nm]).max(), key, "expmint_pow", dict(base_tags, fn="expmint_pow", quantity=nm))
                except Exception as exn:
                    run.violation("expmint_pow raised %r" % exn, {"case": key}, dict(base_tags, fn="expmint_pow"))
            # ---- getEPQ family
            for c, route in groups[key]:
                order, hasB, half = c["order"], c["hasB"], c["half"]
                if half and n % 2:
                    continue
                ncolB = 2
                Bm = rng.integers(-4, 5, (n, ncolB)).astype(float) / 4.0 if hasB else None
                if hasB:
                    Bm[0, 0] = 1.0
                Beff = Bm if hasB else np.eye(n)
                Pw = (ex["I1"] if order == 0 else ex["I2"] / h) @ Beff
                Qw = np.zeros_like(Pw) if order == 0 else (ex["I1"] - ex["I2"] / h) @ Beff
                sP = (ex["sens"]["I1"] if order == 0 else ex["sens"]["I2"] / h) * np.abs(Beff).sum(axis=0).max()
                sQ = 0.0 if order == 0 else (ex["sens"]["I1"] + ex["sens"]["I2"] / h) * np.abs(Beff).sum(axis=0).max()
                if half and not hasB:
                    Pw, Qw = Pw[:, : n // 2], Qw[:, : n // 2]
                y0 = rng.standard_normal(n)
                u0 = rng.standard_normal(Pw.shape[1])
                u1 = rng.standard_normal(Pw.shape[1])
                ywant = ex["E"] @ y0 + Pw @ u0 + Qw @ u1
                ysens = ex["sens"]["E"] * np.abs(y0).sum() + sP * np.abs(u0).sum() + sQ * np.abs(u1).sum()
                fns = [("getEPQ", em.getEPQ), ("getEPQ1", em.getEPQ1), ("getEPQ2", em.getEPQ2)]
                if nrm <= 2.1:
                    fns.append(("getEPQ_pow", em.getEPQ_pow))
                for fname, fn in fns:
                    probes.take()
                    try:
                        Eg, Pg, Qg = fn(a, h, order=order, B=Bm, half=half)
                    except Exception as exn:
                        tg = dict(base_tags, fn=fname)
                        if fname == "getEPQ1" and order == 1:
                            try:
                                probes.take()
                                fn(a, h, order=0, B=Bm, half=half)
                                pe = [e for e in probes.take() if e[0] == "pade"]
                                tg.update(quantity="I2", pade=pe[0][1] if pe else None)
                            except Exception:
                                pass
                        run.violation("%s raised %r" % (fname, exn), {"case": c, "A": a, "h": h}, tg)
                        continue
                    evs = probes.take()
                    run.case((fname, key, order, hasB, half), part="getEPQ variants vs definitions")
                    loose = 10.0 if fname == "getEPQ_pow" else 1.0
                    pade_g = next((e[1] for e in evs if e[0] == "pade"), None)
                    tg = dict(base_tags, fn=fname, order=order, pade=pade_g)
                    i2q = "I2" if (order == 1 and any(e[0] == "i2" for e in evs)) else None
                    close("E", Eg, ex["E"], loose * ex["sens"]["E"], key, fname, dict(tg, quantity="E"))
                    close("P", Pg, Pw, loose * (sP + (sQ if order else 0)), key, "%s(order=%d, B=%s, half=%s)" % (fname, order, hasB, half),
                          dict(tg, quantity=i2q or "P"))
                    if order == 0:
                        if not (np.isscalar(Qg) and Qg == 0.0):
                            run.violation("%s(order=0): Q is not 0." % fname, {"case": c}, dict(tg, quantity="Q"))
                    else:
                        close("Q", Qg, Qw, loose * (sQ + sP), key, "%s(order=1, B=%s, half=%s)" % (fname, hasB, half), dict(tg, quantity=i2q or "Q"))
                        if np.shape(Pg) == Pw.shape and np.shape(Qg) == Qw.shape:
                            close("one first-order-hold step", Eg @ y0 + Pg @ u0 + Qg @ u1, ywant, loose * ysens, key, fname, dict(tg, quantity=i2q or "step"))
                    if order == 0 and np.shape(Pg) == Pw.shape:
                        close("one zero-order-hold step", Eg @ y0 + Pg @ u0, ex["E"] @ y0 + Pw @ u0, loose * ysens, key, fname, dict(tg, quantity="step"))
                    if fname == "getEPQ" and probes.ok:
                        r = [e[1] for e in evs if e[0] == "route"]
                        le = bool(h * np.linalg.norm(a, 1) <= float(theta["switch"]))
                        trace.append({"kind": "route", "route": r[0] if r else "none", "le": le})
                        if (r[0] if r else None) != route:
                            # which algorithm getEPQ hands the problem to is its own business as long as E, P, Q are right (compared above)
                            run.deviation("ExpmInt (route)", "getEPQ took %s where the norm class ||Ah|| predicts %s" % (r, route), {"case": c})
                    if probes.ok and fname in ("getEPQ1", "getEPQ2"):
                        pe = [e for e in evs if e[0] == "pade"]
                        ie = [e for e in evs if e[0] == "i2"]
                        if pe:
                            trace.append(probes.pade_line(pe[0], ie[0][1] if ie else "none"))
                            bk = "%s pade%d%s" % (fname, pe[0][1], ("/I2 " + ie[0][1]) if ie else "")
                            branch_count[bk] = branch_count.get(bk, 0) + 1
                # half is ignored when B is given
                # half is ignored when B is given (documented), for every variant, odd and even numbers of input columns
                for ncol in (1, 2):
                    Bm2 = rng.standard_normal((n, ncol))
                    for fname, fn in (("getEPQ", em.getEPQ), ("getEPQ1", em.getEPQ1), ("getEPQ2", em.getEPQ2)):
                        try:
                            r1 = fn(a, h, order=1, B=Bm2, half=True)
                            r2 = fn(a, h, order=1, B=Bm2, half=False)
                        except Exception as exn:
                            run.violation("%s(B given, half=True) raised %r although `half` is documented as ignored when B is given" % (fname, exn),
                                          {"case": key}, dict(base_tags, fn=fname, clause="half-ignored"))
                            continue
                        if any(np.shape(x) != np.shape(y) or np.asarray(x).tobytes() != np.asarray(y).tobytes() for x, y in zip(r1, r2)):
                            run.violation("%s: `half` changes the result although B is given" % fname, {"case": key}, dict(base_tags, fn=fname, clause="half-ignored"))
    probes.restore()
    run.extra["largest error / tolerance on the unchanged tree"] = round(worst, 4)
    run.extra["branches executed"] = branch_count
    run.extra["comparisons skipped as ill-conditioned (sensitivity to %g ulp of A above 1e-9 relative)" % PERT] = graded[0]
    # ---- trace validation of the branch events
    if probes.ok and trace:
        fd, path = tempfile.mkstemp(suffix=".ndjson", prefix="c07trace_")
        with os.fdopen(fd, "w") as f:
            for t in trace:
                f.write(json.dumps(t) + "\n")
        try:
            tr = tlc.run("ExpmIntTrace", "MC_ExpmIntTrace.cfg", timeout=600, env={"TRACE_FILE": path}, workers=4)
        finally:
            os.unlink(path)
        run.add_tlc("MC_ExpmIntTrace.cfg", tr, "%d branch / route events recorded from the real code" % len(trace))
        rej = [q[0] for q in tr.tagged("REJECT")]
        if tr.violation or rej:
            for q in rej[:5]:
                # Pade order, scaling count, I2 formula, route: internal choices of the algorithm - the property is about the values
                run.deviation("ExpmIntTrace", "recorded branch event is not a behaviour of specs/ExpmInt.tla (PadeOf / ScaleOK / I2 formula / route): %r" % (trace[q - 1],))
            if not rej:
                run.deviation("ExpmIntTrace", "TLC: %s on the branch trace" % tr.violation)
        run.trace_validated(len(trace))
        need = {"pade3", "pade5", "pade7", "pade9", "pade13"}
        seen = {k.split()[1].split("/")[0] for k in branch_count}
        if not need <= seen:
            run.deviation("ExpmIntTrace", "the case lattice no longer reaches every Pade branch of the spec: %s not taken" % sorted(need - seen))
    else:
        run.assumptions.append("branch recording disabled: helper methods not found under their names (values still checked)")
    return defs


# ----------------------------------------------------------------------------------------------- part 2: SSModel
def make_sys(np, rng, cls):
    if cls == "oscillator":
        w, z = rng.uniform(2, 9), rng.uniform(0.01, 0.4)
        A = np.array([[0, 1.0], [-w * w, -2 * z * w]])
        B = np.array([[0.0], [1.0]])
        C = np.array([[1.0, 0.0], [0.0, 1.0]])
        D = np.array([[0.0], [rng.uniform(-1, 1)]])
        wmax = w
    elif cls == "realpoles":
        q = rng.standard_normal((3, 3)) + 3 * np.eye(3)
        p = -np.array([0.7, 2.2, 6.0]) * rng.uniform(0.8, 1.2)
        A = q @ np.diag(p) @ np.linalg.inv(q)
        B = rng.standard_normal((3, 2))
        C = rng.standard_normal((1, 3))
        D = rng.standard_normal((1, 2))
        wmax = 7.5
    elif cls == "mimo":
        w = np.array([3.0, 7.0]) * rng.uniform(0.8, 1.2, 2)
        z = np.array([0.02, 0.2])
        A = np.block([[np.zeros((2, 2)), np.eye(2)], [-np.diag(w ** 2), -np.diag(2 * z * w)]])
        A[2, 1] = A[3, 0] = 1.5
        B = np.vstack((np.zeros((2, 2)), rng.standard_normal((2, 2))))
        C = rng.standard_normal((3, 4))
        D = rng.standard_normal((3, 2))
        wmax = 9.0
    elif cls == "integrator":
        a = rng.uniform(0.5, 3)
        A = np.array([[0, 1.0], [0, -a]])
        B = np.array([[0.0], [1.0]])
        C = np.array([[1.0, 0.0]])
        D = np.array([[0.3]])
        wmax = 3.0
    h = rng.uniform(0.3, 0.9) / wmax
    return A, B, C, D, h, rng.uniform(0.3, 0.9) * wmax


def same_model(np, m1, m2, tol):
    for nm in "ABCD":
        x, y = getattr(m1, nm), getattr(m2, nm)
        if x.shape != y.shape:
            return "%s has shape %s vs %s" % (nm, x.shape, y.shape)
        sc = max(np.abs(y).max(), 1e-300)
        if not np.abs(x - y).max() <= tol * max(sc, np.abs(m2.A).max() if nm == "A" else sc):
            return "%s differs (relative %.3g)" % (nm, np.abs(x - y).max() / sc)
    if (m1.h is None) != (m2.h is None) or (m1.h is not None and m1.h != m2.h):
        return "h is %r vs %r" % (m1.h, m2.h)
    return None


def ss_part(run, np, SSModel, defs, quick):
    import mpmath as mp
    cfg = "MC_SSModel.cfg" if quick else "MC_SSModel_t.cfg"
    res = tlc.run("SSModel", cfg, timeout=600)
    run.add_tlc(cfg, res, "conversion histories (all methods x prewarp x already-in-domain calls), DomainParity, ReduceOK")
    if res.violation:
        run.violation("TLC: %s on the SSModel model" % res.violation, {"tlc": res.error_text()}, {"where": "model"})
        return
    hists = res.tagged("HIST")
    disc = {(m, pw): (d, sh, hold) for m, pw, d, sh, hold in res.tagged("DISC")}
    Hc, Hd, bil0, bil1 = res.tagged("TF")[0]
    rng = np.random.default_rng(run.seed + 11)
    systems = {}
    for cls in ("oscillator", "realpoles", "mimo", "integrator"):
        systems[cls] = [make_sys(np, rng, cls) for _ in range(1 if quick else 3)]

    def apply(model, hist, h, w):
        for op, m, pw in hist:
            pwv = {"none": None, "zero": 0, "w": w}[pw]
            kw = {} if pw == "none" else {"prewarp": pwv}
            model = model.c2d(h, method=m, **kw) if op == "c2d" else model.d2c(method=m, **kw)
        return model

    # ---- histories: final model = reduced history applied to a fresh model (identity when the reduction is empty)
    for sysc, hist, dom, red in hists:
        for (A, B, C, D, h, w) in systems[sysc]:
            run.case(("hist", sysc, hist), part="conversion histories")
            S = SSModel(A, B, C, D)
            tags = {"sys": sysc, "methods": sorted({e[1] for e in hist})}
            try:
                got = apply(S, [e[:3] for e in hist], h, w)
                # calls on a model already in the target domain return the very same object
                cur = S
                for e in hist:
                    nxt = apply(cur, [e[:3]], h, w)
                    if not e[3] and nxt is not cur:
                        run.violation("conversion of a model already in the target domain did not return it unchanged", {"hist": hist}, tags)
                    cur = nxt
                want = apply(SSModel(A, B, C, D), red, h, w)
            except Exception as exn:
                run.violation("conversion raised %r" % exn, {"sys": sysc, "hist": hist}, tags)
                continue
            bad = same_model(np, got, want, 2e-8)
            if bad is None and (got.h is None) != (dom == "c"):
                bad = "domain is %s, model.h = %r" % (dom, got.h)
            if bad:
                run.violation("history %s: final model is not the model of the reduced history %s (%s)" % (hist, red, bad),
                              {"sys": sysc, "hist": hist, "A": A, "h": h}, tags)
            run.trace_validated()
    # ---- each method's discrete matrices = the terms; sampled response; bilinear law
    mp.mp.dps = 40
    for sysc, lst in systems.items():
        for (A, B, C, D, h, w) in lst:
            env = {"A": mp.matrix(A.tolist()), "h": mp.mpf(h), "__kmin": 12}
            Em = terms.evm(defs["E"], env, mp)
            I1m = terms.evm(defs["I1"], env, mp)
            I2m = terms.evm(defs["I2"], env, mp)
            f = lambda M: np.array([[float(M[i, j]) for j in range(M.cols)] for i in range(M.rows)])  # noqa
            base = {"A": A, "B": B, "C": C, "D": D, "h": h, "w": w, "E": f(Em), "I1": f(I1m), "I2": f(I2m)}
            for (m, pw), (dterms, sh, hold) in sorted(disc.items()):
                tags = {"sys": sysc, "methods": [m], "prewarp": pw}
                run.case(("disc", sysc, m, pw, h), part="discrete matrices / sampled response / bilinear law")
                kw = {"prewarp": w} if pw else {}
                try:
                    Z = SSModel(A, B, C, D).c2d(h, method=m, **kw)
                except Exception as exn:
                    run.violation("c2d raised %r" % exn, {"sys": sysc, "m": m}, tags)
                    continue
                for nm in "ABCD":
                    want = np.asarray(terms.ev(dterms[nm], base), float)
                    got = getattr(Z, nm)
                    sc = max(np.abs(want).max(), 1e-300)
                    if got.shape != want.shape or not np.abs(got - want).max() <= 1e-11 * max(sc, 1.0 if nm in "AD" else sc):
                        run.violation("c2d(%s%s): %s is not the documented discrete matrix (relative %.3g)" % (
                            m, ", prewarp" if pw else "", nm, np.abs(got - want).max() / sc if got.shape == want.shape else np.inf),
                            {"sys": sysc, "A": A, "h": h}, tags)
                nin = B.shape[1]
                if m != "tustin":
                    # exactly sampled response under the method's hold, from the definitions (order 1 step covers all three)
                    x = rng.standard_normal(A.shape[0])
                    U = rng.standard_normal((nin, 7))
                    shift = np.asarray(terms.ev(sh, base), float)
                    wst = x - shift @ U[:, 0]
                    worst = 0.0
                    ysc = 1e-300
                    for k in range(6):
                        yc = C @ x + D @ U[:, k]
                        yd = Z.C @ wst + Z.D @ U[:, k]
                        worst = max(worst, np.abs(yc - yd).max())
                        ysc = max(ysc, np.abs(yc).max())
                        envs = dict(base, y0=x, u0=U[:, k], u1=U[:, k + 1])
                        ua, ub = terms.ev(hold[0], envs), terms.ev(hold[1], envs)
                        x = np.asarray(terms.ev(defs["step1"], dict(base, y0=x, u0=ua, u1=ub)), float)
                        wst = Z.A @ wst + Z.B @ U[:, k]
                    if worst > 1e-10 * ysc:
                        run.violation("c2d(%s): discrete model does not reproduce the exactly sampled response (relative %.3g)" % (m, worst / ysc),
                                      {"sys": sysc, "A": A, "h": h}, tags)
                else:
                    zs = [np.exp(1j * th) for th in (0.05, 0.6, 1.4, 2.4, 3.0)] + ([np.exp(1j * w * h)] if pw else [])
                    for z in zs:
                        s = terms.ev(bil1 if pw else bil0, {"z": z, "h": h, "w": w})
                        hc = terms.ev(Hc, dict(base, s=s))
                        hd = terms.ev(Hd, {"Ad": Z.A, "Bd": Z.B, "Cd": Z.C, "Dd": Z.D, "z": z})
                        sc = max(np.abs(hc).max(), 1e-300)
                        if not np.abs(hc - hd).max() <= 1e-9 * sc:
                            run.violation("c2d(tustin%s): transfer function differs from the bilinear transform of the continuous one at z = %r (relative %.3g)" % (
                                ", prewarp" if pw else "", z, np.abs(hc - hd).max() / sc), {"sys": sysc, "A": A, "h": h}, tags)
                    if pw:
                        # meaning of prewarp: exact match of the frequency response at w
                        hc = terms.ev(Hc, dict(base, s=1j * w))
                        hd = terms.ev(Hd, {"Ad": Z.A, "Bd": Z.B, "Cd": Z.C, "Dd": Z.D, "z": np.exp(1j * w * h)})
                        if not np.abs(hc - hd).max() <= 1e-9 * max(np.abs(hc).max(), 1e-300):
                            run.violation("c2d(tustin, prewarp): frequency response at the prewarp frequency is not matched", {"sys": sysc}, tags)
                run.trace_validated()


def ssobjects_part(run, np, SSModel, quick):
    """specs/SSObjects.tla: models as objects on a heap; every call history replayed on real SSModel objects; after EVERY call
    every object created so far is re-read (Immutable) and, at the end, compared with a fresh replay of its derivation"""
    cfg = "MC_SSObjects.cfg" if quick else "MC_SSObjects_t.cfg"
    res = tlc.run("SSObjects", cfg, timeout=900)
    run.add_tlc(cfg, res, "heap of model objects; Immutable, DomainIsParity, DerivationExtendsSource, CallsConsistent, Alternates")
    if res.violation:
        run.violation("TLC: %s on the SSObjects model" % res.violation, {"tlc": res.error_text()}, {"where": "model"})
        return
    rng = np.random.default_rng(run.seed + 23)
    systems = [(cls, make_sys(np, rng, cls)) for cls in ("oscillator", "realpoles", "mimo", "integrator")]
    # the same systems with column-major inputs: what a caller's arrays may look like
    systems += [(cls + "/F", tuple(np.asfortranarray(x) if isinstance(x, np.ndarray) else x for x in sy)) for cls, sy in systems[:3]]

    def snap(m):
        return {nm: getattr(m, nm).copy() for nm in "ABCD"}, m.h

    def same(m, sn):
        return all(np.array_equal(getattr(m, nm), sn[0][nm]) for nm in "ABCD") and m.h == sn[1]

    def conv(model, op, m, pw, h, w):
        kw = {"prewarp": w} if pw == "w" else {}
        return model.c2d(h, method=m, **kw) if op == "c2d" else model.d2c(method=m, **kw)

    hists = res.tagged("OBJS")
    keep_frac = 1.0 if not quick else min(1.0, 800.0 / max(1, len(hists)))
    for hi, (objs, calls) in enumerate(hists):
        # seeded random picks, not index strides: a stride can alias with the order in which TLC exports the histories
        if rng.random() > keep_frac:
            continue
        cls, (A, B, C, D, h, w) = systems[int(rng.integers(len(systems)))]
        if cls.startswith("integrator") and any((c["op"] == "d2c" and c["m"] == "zoh") or c["op"] == "lti" for c in calls):
            continue          # outside the documented formula's domain (singular continuous A)
        key = tuple((c["src"], c["op"], c["m"], c["pw"]) for c in calls)
        run.case(("objects", cls, key), nontrivial=len(objs) >= 2, part="model objects")
        tags = {"sys": cls, "methods": sorted({c["m"] for c in calls}), "part": "objects"}
        args = [x.copy(order="K") for x in (A, B, C, D)]
        keep = [x.copy(order="K") for x in args]
        try:
            heap = [SSModel(*args)]
            snaps = [snap(heap[0])]
            bad = None
            for k, c in enumerate(calls):
                if c["op"] == "lti":
                    # growth (query action of the spec): the continuous equivalent as a scipy lti object
                    src_ = heap[c["src"] - 1]
                    lt = src_.getlti()
                    ref_ = src_ if not src_.h else src_.d2c()
                    if not all(np.allclose(np.atleast_2d(getattr(lt, nm)), np.atleast_2d(getattr(ref_, nm)), rtol=1e-12, atol=1e-14) for nm in "ABCD"):
                        run.deviation("SSObjects.Query", "getlti() of object %d is not the continuous equivalent (the model itself, or its default d2c())" % c["src"],
                                      {"sys": cls, "calls": calls})
                    for j, (mj, sj) in enumerate(zip(heap, snaps)):
                        if not same(mj, sj):
                            run.deviation("SSObjects.Query", "getlti() on object %d changed object %d" % (c["src"], j + 1), {"sys": cls, "calls": calls})
                            snaps[j] = snap(mj)
                    continue
                r = conv(heap[c["src"] - 1], c["op"], c["m"], c["pw"], h, w)
                if c["res"] == c["src"]:
                    if r is not heap[c["src"] - 1]:
                        bad = "call %d: a model already in the target domain was not returned itself" % (k + 1)
                else:
                    heap.append(r)
                    snaps.append(snap(r))
                    if (r.h is None) != (objs[c["res"] - 1]["dom"] == "c"):
                        bad = "call %d: the new model's domain is not %s" % (k + 1, objs[c["res"] - 1]["dom"])
                for j, (mj, sj) in enumerate(zip(heap, snaps)):
                    if not same(mj, sj):
                        bad = "call %d (%s %s on object %d) changed object %d, which it should not touch" % (k + 1, c["op"], c["m"], c["src"], j + 1)
                        break
                if not all(np.array_equal(x, y) for x, y in zip(args, keep)):
                    bad = "call %d (%s %s) changed the arrays the first model was built from" % (k + 1, c["op"], c["m"])
                if bad:
                    break
            if bad is None:
                for j, o in enumerate(objs):
                    fresh = SSModel(*[x.copy(order="K") for x in keep])
                    for (op, m, pw) in o["deriv"]:
                        fresh = conv(fresh, op, m, pw, h, w)
                    d = same_model(np, heap[j], fresh, 1e-12)
                    if d:
                        bad = "object %d is not what a fresh replay of its derivation %s gives (%s)" % (j + 1, list(o["deriv"]), d)
                        break
        except Exception as exn:
            run.violation("conversion raised %r" % exn, {"sys": cls, "calls": calls}, tags)
            continue
        if bad:
            run.violation("SSModel objects: " + bad, {"sys": cls, "calls": calls, "h": h}, tags)
        run.trace_validated()


def body(run: Run, replay):
    import numpy as np
    warnings.simplefilter("ignore")
    from pyyeti import expmint as em
    from pyyeti.ssmodel import SSModel
    quick = run.tier == "quick"
    run.rule = ("expmint/getEPQ: 9 structures (generic, singular, nilpotent index 2/3, Jordan, upper triangular, stiff, oscillator state matrix, exactly diagonal) x 12 "
                "norm classes 1e-6..1e3 incl. both sides of the getEPQ switch x order x B x half x {getEPQ, getEPQ1, getEPQ2, getEPQ_pow} "
                "against the series definitions evaluated at 40+0.9||Ah|| digits; branch/route events validated by TLC; SSModel: every "
                "conversion history of length %d over 4 methods x prewarp on 4 system classes, discrete matrices vs terms, sampled "
                "response, bilinear law; model objects on a heap (SSObjects): every history of %d calls on any earlier object, every object re-read "
                "after every call. distinct non-trivial = lattice points / histories" % (2 if quick else 3, 3 if quick else 4))
    run.assumptions = ["tolerance = %g x (measured change of the exact result under a %g-ulp relative perturbation of A + 40 ulp of its size): "
                       "a loss of 1-2 digits beyond that is not detected" % (SAFETY, PERT),
                       "results that overflow binary64 are skipped; expmint_pow / getEPQ_pow are compared for ||Ah|| <= 2.1 only "
                       "(documented as a brute-force power series)",
                       "d2c(zoh) of a model whose continuous A is singular is outside the documented formula's domain",
                       "trusted: TLC, mpmath, the generic term evaluator"]
    defs = expm_part(run, np, em, quick)
    if defs is not None:
        ss_part(run, np, SSModel, defs, quick)
        ssobjects_part(run, np, SSModel, quick)


if __name__ == "__main__":
    main("C07", "exploration", body)
