CONSTANTS
  Part = "outtimes"
  Export = TRUE
  MaxLen = 5
INIT Init
NEXT Next
INVARIANT OutLaws
INVARIANT ExportOut
