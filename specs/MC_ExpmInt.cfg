CONSTANTS
  Export = TRUE
  MaxS = 3
SPECIFICATION FairSpec
INVARIANT SpanLaw
INVARIANT DoneOK
INVARIANT I2PadeUnless13
INVARIANT ExportCases
PROPERTY Terminates
