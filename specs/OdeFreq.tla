------------------------------ MODULE OdeFreq ------------------------------
(***************************************************************************)
(* C02.  Frequency-domain solution of  M q'' + B q' + K q = F e^{iWt}.     *)
(* A configuration = block layout (rigid-body / elastic / residual-         *)
(* flexibility equations) x incrb (which of d, v, a are kept for the        *)
(* rigid-body equations; the deprecated integers 0/1/2 map to "", "av",     *)
(* "dva") x rf_disp_only x solver x representation.                         *)
(* Predict = the EXACT-ZERO pattern: entry (block, quantity, 0 Hz or not)   *)
(* must be exactly 0 iff                                                    *)
(*    rb and quantity not in incrb                                          *)
(* or rb and quantity in {d, v} at 0 Hz        (SolveUnc; FreqDirect has    *)
(*                                              no 0 Hz with rb modes)      *)
(* or rf and quantity in {v, a} and rf_disp_only.                           *)
(* Sol = the response as terms per modal equation at circular frequency W.  *)
(***************************************************************************)
EXTENDS Integers, Sequences, FiniteSets, TLC

CONSTANT Export

V(n) == <<"var", n>>
Num(n) == <<"num", n>>
Add(a, b) == <<"add", a, b>>
Sub(a, b) == <<"sub", a, b>>
Mul(a, b) == <<"mul", a, b>>
Div(a, b) == <<"div", a, b>>
Neg(a) == <<"neg", a>>
I == <<"I">>
m == V("m") b == V("b") k == V("k") W == V("W") F == V("F")

\* dynamic stiffness of one modal equation
Z == Add(Sub(k, Mul(Mul(W, W), m)), Mul(I, Mul(W, b)))
ElD == Div(F, Z)
ElV == Mul(Mul(I, W), ElD)
ElA == Neg(Mul(Mul(W, W), ElD))
\* rigid body (k = b = 0): a = F/m, v = a/(iW), d = -a/W^2
RbA == Div(F, m)
RbV == Div(RbA, Mul(I, W))
RbD == Neg(Div(RbA, Mul(W, W)))
\* residual flexibility: static displacement; v, a from it unless rf_disp_only
RfD == Div(F, k)
RfV == Mul(Mul(I, W), RfD)
RfA == Neg(Mul(Mul(W, W), RfD))

\* full-matrix definition (no modal decoupling assumed): d = (K - W^2 M + i W B)^-1 F
Mm == V("M") Bm == V("B") Km == V("K")
MatD == <<"solve", Add(Sub(Km, Mul(Mul(W, W), Mm)), Mul(Mul(I, W), Bm)), F>>
MatV == Mul(Mul(I, W), MatD)
MatA == Neg(Mul(Mul(W, W), MatD))
Quant == {"d", "v", "a"}
IncrbStrings == SUBSET Quant
IncrbInts == {0, 1, 2}
IncrbOfInt(n) == CASE n = 0 -> {} [] n = 1 -> {"a", "v"} [] n = 2 -> {"d", "v", "a"}

Layouts == {<<nrb, nel, nrf>> : nrb \in 0..1, nel \in 1..2, nrf \in 0..1}
\* stress dimensions that do not change the mathematical problem:
\*   hgiven  the SolveUnc object is built WITH a time step (it then starts with one of each complex-conjugate pair deleted and must
\*           add them back for the frequency domain)
\*   damp    "mixed": one elastic equation over-damped, the other under-damped (real and complex eigenvalues side by side)
\*   forder  position of the frequencies in the vector: ascending, 0 Hz last, shuffled - a column's answer does not depend on it
\*   order   "interleaved": TWO rigid-body equations separated by an elastic one (index arrays instead of slices inside the solver)
\*   gyro    a skew-symmetric part in the damping of a coupled system without rigid-body / rf equations: M, K stay symmetric, B does
\*           not - the response is then defined by the full dynamic-stiffness solve (MatSol), not by modal equations
\*   lmul    the equations of the elastic block of a coupled system combined by a well-conditioned L: M, B, K full and NOT symmetric, same
\*           response (general matrices are in the solvers' domain; a transposed solve is then visible)
Stress == {<<FALSE, "under", "asc", "contig", FALSE, FALSE>>, <<TRUE, "mixed", "asc", "contig", FALSE, FALSE>>, <<TRUE, "under", "zerolast", "contig", FALSE, FALSE>>,
           <<FALSE, "mixed", "shuffled", "contig", FALSE, FALSE>>, <<TRUE, "mixed", "shuffled", "contig", FALSE, FALSE>>,
           <<FALSE, "under", "asc", "interleaved", FALSE, FALSE>>, <<TRUE, "under", "shuffled", "interleaved", FALSE, FALSE>>,
           <<FALSE, "under", "asc", "contig", TRUE, FALSE>>, <<FALSE, "under", "zerolast", "contig", TRUE, FALSE>>,
           <<FALSE, "under", "asc", "contig", FALSE, TRUE>>, <<FALSE, "mixed", "shuffled", "contig", FALSE, TRUE>>}
Cfgs == {[lay |-> l, incrb |-> ib, intform |-> it, rfdo |-> rd, solver |-> s, coupling |-> c, mform |-> mf, pre_eig |-> pe, cplxk |-> ck,
          hgiven |-> st[1], damp |-> st[2], forder |-> st[3], order |-> st[4], gyro |-> st[5], lmul |-> st[6]] :
            l \in Layouts, ib \in IncrbStrings, it \in BOOLEAN, rd \in BOOLEAN, s \in {"SolveUnc", "FreqDirect"},
            c \in {"diag", "coupled"}, mf \in {"none", "vec", "mat"}, pe \in BOOLEAN, ck \in BOOLEAN, st \in Stress}
Legal(c) ==
  /\ (c.intform => c.incrb \in {IncrbOfInt(n) : n \in IncrbInts})
  /\ (c.coupling = "coupled" => (c.lay[2] = 2 /\ c.mform # "vec"))
  /\ (c.mform = "vec" => c.coupling = "diag")
  /\ (c.pre_eig => (c.solver = "SolveUnc" /\ c.coupling = "coupled" /\ c.mform = "mat" /\ c.lay[3] = 0 /\ ~c.cplxk))
  /\ (c.cplxk => c.coupling = "diag")          \* complex stiffness exercised on the uncoupled path
  /\ (c.hgiven => c.solver = "SolveUnc")       \* FreqDirect has no time step
  /\ (c.damp = "mixed" => (c.lay[2] = 2 /\ ~c.cplxk))
  \* the stress combinations are explored on the options that matter for them (full rigid-body output kept or dropped)
  /\ (<<c.hgiven, c.damp, c.forder, c.order, c.gyro, c.lmul>> # <<FALSE, "under", "asc", "contig", FALSE, FALSE>>
         => (c.incrb \in {{"d", "v", "a"}, {"a"}, {}} /\ ~c.intform /\ ~c.rfdo))
  \* interleaved: the layout <<1, nel, nrf>> is instantiated with a SECOND rigid-body equation placed after the first elastic one
  /\ (c.order = "interleaved" => (c.lay[1] = 1 /\ ~c.pre_eig /\ ~c.cplxk))
  /\ (c.lmul => (c.coupling = "coupled" /\ c.mform = "mat" /\ ~c.pre_eig /\ ~c.cplxk))
  /\ (c.gyro => (c.coupling = "coupled" /\ c.lay = <<0, 2, 0>> /\ c.mform = "mat" /\ ~c.pre_eig /\ ~c.cplxk /\ ~c.hgiven))

\* zero pattern: TRUE = must be exactly zero
ZeroAt(c, block, quant, zerohz) ==
  \/ (block = "rb" /\ quant \notin c.incrb)
  \/ (block = "rb" /\ quant \in {"d", "v"} /\ zerohz /\ c.solver = "SolveUnc")
  \/ (block = "rf" /\ quant \in {"v", "a"} /\ c.rfdo)
\* 0 Hz is in FreqDirect's domain only when there are no rigid-body equations
ZeroHzAllowed(c) == c.solver = "SolveUnc" \/ c.lay[1] = 0

VARIABLE q
Init == q \in {c \in Cfgs : Legal(c)}
Next == UNCHANGED q

\* the pattern is a function of (incrb, rf_disp_only, solver) only: representation options never change it
PatternWellDefined == \A c2 \in {c \in Cfgs : Legal(c) /\ c.incrb = q.incrb /\ c.rfdo = q.rfdo /\ c.solver = q.solver /\ c.lay = q.lay} :
    \A bl \in {"rb", "el", "rf"}, qu \in Quant, z \in BOOLEAN : ZeroAt(c2, bl, qu, z) = ZeroAt(q, bl, qu, z)
ElNeverForcedZero == \A qu \in Quant, z \in BOOLEAN : ~ZeroAt(q, "el", qu, z)

ExportCfg == Export => PrintT(<<"CFG", q, ZeroHzAllowed(q),
     [bl \in {"rb", "el", "rf"} |-> [qu \in Quant |-> <<ZeroAt(q, bl, qu, FALSE), ZeroAt(q, bl, qu, TRUE)>>]]>>)
ExportTerms == (Export /\ q.incrb = {} /\ q.lay = <<0, 1, 0>> /\ ~q.rfdo /\ q.solver = "SolveUnc" /\ q.mform = "none" /\ ~q.intform /\ ~q.cplxk
                /\ ~q.hgiven /\ q.damp = "under" /\ q.forder = "asc" /\ q.order = "contig" /\ ~q.gyro /\ ~q.lmul) =>
   PrintT(<<"FTERMS", [el |-> <<ElD, ElV, ElA>>, rb |-> <<RbD, RbV, RbA>>, rf |-> <<RfD, RfV, RfA>>, mat |-> <<MatD, MatV, MatA>>]>>)
=============================================================================
