CONSTANTS
  Export = TRUE
INIT Init
NEXT Next
INVARIANT IndexLaws
INVARIANT UpLaws
INVARIANT ExportPoint
