"""Cross-cutting growth: purity of the public functions behind each property (specs/Purity.tla).

purity_part(run, pid) builds representative calls for the functions of property pid, records the call patterns A A and A B A with
fingerprints of all arguments (before / after) and of the result, and has TLC validate the trace against the memo-table machine of
specs/Purity.tla: a call leaves its arguments untouched and the same call gives the same answer whatever was called in between."""
import copy
import hashlib
import json
import os
import tempfile
import types

from . import tlc


def _fp(h, x, np, pd, approx):
    """feed a fingerprint of x into hash h"""
    if isinstance(x, np.ndarray):
        if x.dtype.byteorder not in ("=", "|") and not x.dtype.isnative:
            x = x.astype(x.dtype.newbyteorder("="))          # the logical value: byte order is a matter of representation
        h.update(b"nd" + str(x.shape).encode() + str(x.dtype).encode())
        if approx and x.dtype.kind in "fc" and x.size:
            sc = float(np.nanmax(np.abs(x))) if np.isfinite(x).any() else 1.0
            q = np.round(np.nan_to_num(x) / (sc if sc else 1.0), 6) + 0.0
            h.update(np.ascontiguousarray(q).tobytes())
            h.update(("%.5e" % sc).encode())
        elif x.dtype == object:
            for v in x.ravel():
                _fp(h, v, np, pd, approx)
        else:
            h.update(np.ascontiguousarray(x).tobytes())
    elif pd is not None and isinstance(x, (pd.DataFrame, pd.Series)):
        h.update(b"df")
        _fp(h, x.values, np, pd, approx)
        h.update(repr(list(x.index)).encode())
    elif isinstance(x, (list, tuple)):
        h.update(b"seq%d" % len(x))
        for v in x:
            _fp(h, v, np, pd, approx)
    elif isinstance(x, dict):
        h.update(b"dict")
        for k in sorted(x, key=repr):
            h.update(repr(k).encode())
            _fp(h, x[k], np, pd, approx)
    elif isinstance(x, types.SimpleNamespace):
        _fp(h, vars(x), np, pd, approx)
    elif hasattr(x, "tocoo") and hasattr(x, "shape"):
        c = x.tocoo()
        h.update(b"sp" + str(c.shape).encode())
        _fp(h, np.asarray(c.row), np, pd, approx)
        _fp(h, np.asarray(c.col), np, pd, approx)
        _fp(h, np.asarray(c.data), np, pd, approx)
    elif isinstance(x, (float, np.floating)) and approx:
        h.update(b"0" if abs(x) < 1e-9 else ("%.5e" % x).encode())       # round-off residues are all "zero"
    elif isinstance(x, (int, float, complex, str, bytes, bool)) or x is None or isinstance(x, np.generic):
        h.update(repr(x).encode())
    elif callable(x):
        h.update(b"callable")
    else:
        h.update(("obj:" + type(x).__name__).encode())


def fingerprint(x, np, pd, approx=False):
    h = hashlib.blake2b(digest_size=8)
    _fp(h, x, np, pd, approx)
    return h.hexdigest()


_BUILT = []


def _ref_job(k):
    """reference fingerprint of entry k, computed in a FRESH child process (forked before the parent made any call)"""
    import numpy as np
    try:
        import pandas as pd
    except Exception:
        pd = None
    name, fn, args, kwargs, approx = _BUILT[k]
    try:
        return fingerprint(fn(*args, **kwargs), np, pd, True)
    except Exception as ex:
        return "raised:" + type(ex).__name__


def purity_part(run, pid, calls):
    """calls: list of (name, builder) ; builder() -> (fn, args list, kwargs dict[, approx bool]).  The SAME argument objects are used
    for every call of an entry (that is the point: a call must not modify them)."""
    import numpy as np
    try:
        import pandas as pd
    except Exception:
        pd = None
    built = []
    for name, builder in calls:
        b = builder()
        fn, args, kwargs = b[0], b[1], b[2]
        approx = b[3] if len(b) > 3 else False
        built.append((name, fn, args, kwargs, approx))
    ids = {}

    def num(s):
        return ids.setdefault(s, len(ids) + 1)

    # references from fresh processes: what each call returns when NOTHING else was called before it in the process
    import multiprocessing as mpc
    global _BUILT
    _BUILT = built
    with mpc.get_context("fork").Pool(processes=4, maxtasksperchild=1) as pool:
        refs = pool.map(_ref_job, range(len(built)), chunksize=1)

    trace = []
    meta = []
    raised = {}

    def call(k):
        name, fn, args, kwargs, approx = built[k]
        ain = fingerprint([args, kwargs], np, pd)
        try:
            res = fn(*args, **kwargs)
            rfp = fingerprint(res, np, pd, approx)
            rfa = fingerprint(res, np, pd, True)
        except Exception as ex:
            rfp = rfa = "raised:" + type(ex).__name__
            raised.setdefault(name, repr(ex)[:160])
        aout = fingerprint([args, kwargs], np, pd)
        trace.append({"fn": k + 1, "ain": num(ain), "aout": num(aout), "res": num(name + rfp)})
        meta.append(name)
        # the same event against the fresh-process answer (fingerprints rounded to 6 digits: bit patterns may differ across processes)
        trace.append({"fn": len(built) + k + 1, "ain": num(ain), "aout": num(aout), "res": num(name + "~" + rfa)})
        meta.append(name + " [vs fresh process]")

    n = len(built)
    for k in range(n):
        name_k = built[k][0]
        a0 = fingerprint([built[k][2], built[k][3]], np, pd)
        trace.append({"fn": len(built) + k + 1, "ain": num(a0), "aout": num(a0), "res": num(name_k + "~" + refs[k])})     # the fresh-process event
        meta.append(name_k + " [fresh process]")
    for k in range(n):
        call(k)
        call(k)                       # A A
        other = (k + 1) % n
        if other != k:
            call(other)               # A B A
            call(k)
    # the same LOGICAL arguments in another memory representation (column-major copies of 2-D arrays; non-contiguous views of a larger
    # buffer): the fingerprint of an array is taken from its logical content, so these events share the memo-table key of the
    # original call and must give the same answer (compared with the rounded fingerprints: summation order may legitimately differ)
    def variant(args, kwargs, kind):
        changed = [False]

        def tr(x):
            if isinstance(x, np.ndarray) and x.dtype.kind in "fciu" and x.size > 1 and x.ndim in (1, 2):
                if kind == "F" and x.ndim == 2 and min(x.shape) > 1:
                    changed[0] = True
                    return np.asfortranarray(x.copy())
                if kind == "swapped":
                    if x.dtype.kind in "fc" and x.dtype.itemsize >= 8:
                        changed[0] = True
                        return x.astype(x.dtype.newbyteorder())      # non-native byte order (data read from a big-endian file)
                    return x.copy()
                if kind == "strided":
                    big = np.full((2 * x.shape[0],) + x.shape[1:], 7 if x.dtype.kind in "iu" else np.nan, x.dtype)
                    big[::2] = x
                    changed[0] = True
                    return big[::2]
                return x.copy()
            if isinstance(x, dict):
                return {k_: tr(v_) for k_, v_ in x.items()}
            if isinstance(x, (list, tuple)) and any(isinstance(v_, (np.ndarray, dict, list, tuple)) for v_ in x):
                return type(x)(tr(v_) for v_ in x)
            return copy.deepcopy(x)
        a2 = [tr(x) for x in args]
        k2 = {k_: tr(v) for k_, v in kwargs.items()}
        return (a2, k2) if changed[0] else None

    nvar = 0
    for k in range(n):
        name, fn, args, kwargs, approx = built[k]
        if name in raised:
            continue
        for kind in ("F", "strided", "swapped"):
            try:
                v = variant(args, kwargs, kind)
            except Exception:
                v = None
            if v is None:
                continue
            a2, k2 = v
            ain = fingerprint([a2, k2], np, pd)
            if ain != fingerprint([args, kwargs], np, pd):
                continue          # not the same logical arguments after all (e.g. an object the fingerprint cannot see through)
            try:
                rfa = fingerprint(fn(*a2, **k2), np, pd, True)
            except Exception as ex:
                rfa = "raised:" + type(ex).__name__
            aout = fingerprint([a2, k2], np, pd)
            trace.append({"fn": len(built) + k + 1, "ain": num(ain), "aout": num(aout), "res": num(name + "~" + rfa)})
            meta.append(name + {"F": " [arguments as column-major copies]", "strided": " [arguments as non-contiguous views]",
                                "swapped": " [arguments with non-native byte order]"}[kind])
            nvar += 1
    run.extra["purity_representation_variants"] = nvar
    fd, path = tempfile.mkstemp(suffix=".ndjson", prefix="purity_")
    with os.fdopen(fd, "w") as f:
        for t in trace:
            f.write(json.dumps(t) + "\n")
    try:
        res = tlc.run("Purity", "MC_Purity.cfg", timeout=600, env={"TRACE_FILE": path}, workers=1)
    finally:
        os.unlink(path)
    run.add_tlc("MC_Purity.cfg", res, "%d call events of %d functions (patterns A A, A B A) validated against the memo-table machine" % (len(trace), n))
    out = res.tagged("PURITY")
    if res.violation or not out:
        run.violation("TLC: purity trace not processed (%s)" % res.violation, {"tlc": res.error_text()}, {"where": "trace", "part": "purity"})
        return
    ntr, bad = out[0]
    for ln in sorted(bad)[:6]:
        e = trace[ln - 1]
        what = "modified one of its arguments" if e["aout"] != e["ain"] else (
            "returned a different result for the same logical arguments given in another memory representation" if "[arguments" in meta[ln - 1]
            else "returned a different result for the same arguments (hidden state)")
        run.violation("purity: call %d of the recorded trace, %s, %s" % (ln, meta[ln - 1], what), {"line": ln, "event": e, "function": meta[ln - 1]},
                      {"part": "purity", "function": meta[ln - 1]})
    for nm_, ex_ in sorted(raised.items()):
        # every representative call succeeds on the unchanged tree (checked when the table was written): a raise is a crash on valid input
        run.violation("purity: the representative call of %s raised %s" % (nm_, ex_), {"function": nm_}, {"part": "purity", "function": nm_, "raised": True})
    for name in meta:
        run.case(("purity", name), part="purity (arguments untouched, same call same answer)")
    run.trace_validated(len(trace))
