CONSTANTS
  Export = TRUE
INIT Init
NEXT Next
INVARIANT ElNeverForcedZero
INVARIANT ExportCfg
INVARIANT ExportTerms
