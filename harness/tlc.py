"""Run TLC / SANY on the specs in /verif/specs and parse what they print.  No pyYeti knowledge."""
import os
import re
import shutil
import subprocess
import tempfile
import time

from . import tlaval

VERIF = os.path.dirname(os.path.dirname(os.path.abspath(__file__)))
SPECS = os.path.join(VERIF, "specs")
JAR = "/opt/veriftools/tla/tla2tools.jar"
DEPS = "/opt/veriftools/tla/CommunityModules-deps.jar"


class TlcError(Exception):
    """Machinery failure (exit 2), never a property violation."""


class TlcResult:
    def __init__(self, out, rc, wall, cmd):
        self.out = out
        self.rc = rc
        self.wall = wall
        self.cmd = cmd
        m = re.search(r"(\d+) states generated, (\d+) distinct states found", out)
        self.generated = int(m.group(1)) if m else 0
        self.distinct = int(m.group(2)) if m else 0
        m = re.search(r"The depth of the complete state graph search is (\d+)", out)
        self.depth = int(m.group(1)) if m else 0
        self.violation = None
        m = re.search(r"Error: Invariant (\S+) is violated", out)
        if m:
            self.violation = "invariant " + m.group(1)
        m = re.search(r"Error: Action property (\S+) is violated", out)
        if m:
            self.violation = "action property " + m.group(1)
        if "Error: Temporal properties were violated" in out:
            self.violation = "temporal property"
        if re.search(r"Error: Deadlock reached", out):
            self.violation = "deadlock"
        m = re.search(r"Assumption .* is false", out)
        if m:
            self.violation = m.group(0)
        if "Error: The postcondition" in out or re.search(r"Error:.*[Pp]ost.?condition", out):
            self.violation = self.violation or "postcondition"
        self.completed = "Model checking completed. No error has been found." in out or (
            "Finished in" in out and self.violation is None and "Error:" not in out
        )

    def coverage(self):
        """per-action counts from -coverage output:  <Action line ...>: distinct:total"""
        cov = {}
        for m in re.finditer(r"^<(\w+) line \d+, col \d+ to line \d+, col \d+ of module (\w+)>: (\d+):(\d+)", self.out, re.M):
            cov[m.group(1)] = cov.get(m.group(1), 0) + int(m.group(4))
        return cov

    def tagged(self, tag):
        return tlaval.extract_tagged(self.out, tag)

    def error_text(self):
        i = self.out.find("Error:")
        return self.out[i : i + 3000] if i >= 0 else self.out[-3000:]


def run(module, cfg=None, workers=16, timeout=600, extra=(), env=None, simulate=None,
        depth=None, seed=None, coverage=False, deadlock_off=True, dump=None, jvm=(), heap="4g"):
    """Run TLC on specs/<module>.tla with specs/<cfg>. Returns TlcResult.
    Raises TlcError for parse errors, timeouts, crashes."""
    meta = tempfile.mkdtemp(prefix="tlcmeta_")
    # TLC leaves an empty tlc-<nanos> directory in java.io.tmpdir per run: keep it inside the metadir that is removed afterwards
    cmd = ["java", "-XX:+UseParallelGC", "-Xmx" + heap, "-Djava.io.tmpdir=" + meta] + list(jvm) + [
        "-cp", JAR + ":" + DEPS, "tlc2.TLC",
        "-workers", str(workers), "-metadir", meta, "-noGenerateSpecTE",
    ]
    if cfg:
        cmd += ["-config", cfg]
    if deadlock_off:
        cmd += ["-deadlock"]
    if coverage:
        cmd += ["-coverage", "1"]
    if simulate:
        cmd += ["-simulate", simulate]
    if depth is not None:
        cmd += ["-depth", str(depth)]
    if seed is not None:
        cmd += ["-seed", str(seed)]
    if dump:
        cmd += ["-dump", dump]
    cmd += list(extra) + [module]
    e = dict(os.environ)
    if env:
        e.update(env)
    t0 = time.time()
    try:
        p = subprocess.run(cmd, cwd=SPECS, env=e, stdout=subprocess.PIPE, stderr=subprocess.STDOUT,
                           timeout=timeout, text=True)
    except subprocess.TimeoutExpired as ex:
        subprocess.run(["pkill", "-f", meta], check=False)
        shutil.rmtree(meta, ignore_errors=True)
        raise TlcError("TLC timeout after %ss: %s" % (timeout, " ".join(cmd)))
    finally:
        pass
    shutil.rmtree(meta, ignore_errors=True)
    wall = time.time() - t0
    out = p.stdout
    r = TlcResult(out, p.returncode, wall, " ".join(cmd[cmd.index("tlc2.TLC"):]))
    if re.search(r"(Parsing or semantic analysis failed|Semantic errors|Lexical error|Was expecting|"
                 r"java\.lang\.\w*Error|OutOfMemory|Unknown operator|TLC threw an unexpected exception|"
                 r"The exception was a java|evaluating the expression|Attempted to|was not enabled|"
                 r"Error: In evaluation|Error: Evaluating|Error: TLC)", out) and r.violation is None:
        raise TlcError("TLC failed on %s/%s:\n%s" % (module, cfg, r.error_text()))
    if not r.completed and r.violation is None and not simulate:
        raise TlcError("TLC did not complete on %s/%s (rc=%s):\n%s" % (module, cfg, p.returncode, out[-3000:]))
    return r


def sany(module):
    p = subprocess.run(["java", "-cp", JAR + ":" + DEPS, "tla2sany.SANY", module + ".tla"], cwd=SPECS,
                       stdout=subprocess.PIPE, stderr=subprocess.STDOUT, text=True)
    ok = p.returncode == 0 and "Semantic errors" not in p.stdout and "Parse Error" not in p.stdout \
        and "Could not" not in p.stdout and "Fatal" not in p.stdout
    return ok, p.stdout
