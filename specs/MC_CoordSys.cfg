CONSTANTS
  K = 3
  Export = TRUE
INIT Init
NEXT Next
INVARIANT WellFounded
INVARIANT ExportTopo
INVARIANT ExportGeneric
INVARIANT UmLaws
INVARIANT ExportUm
INVARIANT ScanLaws
INVARIANT ExportScan
