CONSTANTS
  Export = TRUE
  MaxOps = 2
  Ns = {4, 5}
SPECIFICATION Spec
INVARIANT BoundaryIsPermutation
INVARIANT MassSplits
INVARIANT TotalMassInvariant
INVARIANT ParallelAxis
INVARIANT UnitsBounded
INVARIANT ExportDesc
INVARIANT ExportHist
PROPERTY DefectSticky
