-------------------------------- MODULE Uset --------------------------------
(***************************************************************************)
(* C18 (set part).  Nastran DOF sets.  A USET table = an assignment of one *)
(* base set to every DOF slot.  Supersets are defined by the Nastran set   *)
(* diagram.  For every assignment TLC checks the lattice identities and    *)
(* computes, for every (major, minor) set expression, the partition vector *)
(* mksetpv must return, or <<2>> (refuse) when some DOF is in minor but not  *)
(* in major.                                                               *)
(***************************************************************************)
EXTENDS Integers, Sequences, FiniteSets, TLC

CONSTANTS K, Export

Base == {"m", "s", "o", "q", "r", "c", "b", "e"}
Slots == 1..K

\* members of a named set, as a set of base sets (the diagram of mkusetmask / mksetpv)
L == {"c", "b"}
T == L \cup {"r"}
A == T \cup {"q"}
D == A \cup {"e"}
F == A \cup {"o"}
FE == F \cup {"e"}
N == F \cup {"s"}
NE == N \cup {"e"}
G == N \cup {"m"}
P == G \cup {"e"}

Members(name) ==
  CASE name \in Base -> {name}
    [] name = "l" -> L [] name = "t" -> T [] name = "a" -> A [] name = "d" -> D [] name = "f" -> F
    [] name = "fe" -> FE [] name = "n" -> N [] name = "ne" -> NE [] name = "g" -> G [] name = "p" -> P
    [] name = "a+o+m" -> A \cup {"o", "m"}
    [] name = "q+b" -> {"q", "b"}
    [] name = "b+c" -> {"b", "c"}
    [] name = "s+e" -> {"s", "e"}
    \* '+' is UNION: expressions whose terms overlap (a superset and one of its members, nested supersets, a repeated term)
    [] name = "a+b" -> A \cup {"b"}
    [] name = "l+t" -> L \cup T
    [] name = "b+b" -> {"b"}
    [] name = "fe+ne" -> FE \cup NE

Names == <<"m", "s", "o", "q", "r", "c", "b", "e", "l", "t", "a", "d", "f", "fe", "n", "ne", "g", "p",
           "a+o+m", "q+b", "b+c", "s+e", "a+b", "l+t", "b+b", "fe+ne">>

VARIABLE assign
Init == assign \in [Slots -> Base]
Next == UNCHANGED assign

In(name) == {i \in Slots : assign[i] \in Members(name)}

\* every DOF belongs to exactly one base set; each superset is the DISJOINT union of its documented members
OneBase == \A i \in Slots : Cardinality({b \in Base : i \in In(b)}) = 1
DisjointUnion(whole, p1, p2) == In(whole) = In(p1) \cup In(p2) /\ In(p1) \cap In(p2) = {}
Lattice == /\ DisjointUnion("l", "c", "b") /\ DisjointUnion("t", "l", "r") /\ DisjointUnion("a", "t", "q")
           /\ DisjointUnion("d", "a", "e") /\ DisjointUnion("f", "a", "o") /\ DisjointUnion("fe", "f", "e")
           /\ DisjointUnion("n", "f", "s") /\ DisjointUnion("ne", "n", "e") /\ DisjointUnion("g", "n", "m")
           /\ DisjointUnion("p", "g", "e") /\ In("p") = Slots

\* partition vector of minor out of major: table order, length |major|; refused if minor is not inside major
SeqOfSet(S) == LET RECURSIVE H(_, _) H(i, acc) == IF i > K THEN acc ELSE H(i + 1, IF i \in S THEN Append(acc, i) ELSE acc)
               IN H(1, <<>>)
SetPV(major, minor) ==
  IF In(minor) \ In(major) # {} THEN <<2>>
  ELSE LET ms == SeqOfSet(In(major)) IN [k \in 1..Len(ms) |-> IF ms[k] \in In(minor) THEN 1 ELSE 0]

PVLaws == \A a \in 1..Len(Names), b \in 1..Len(Names) :
   LET pv == SetPV(Names[a], Names[b]) IN
   pv # <<2>> => /\ Len(pv) = Cardinality(In(Names[a]))
                   /\ Cardinality({k \in 1..Len(pv) : pv[k] = 1}) = Cardinality(In(Names[b]))

ExportOK == Export => PrintT(<<"USET", assign, [a \in 1..Len(Names) |-> [b \in 1..Len(Names) |-> SetPV(Names[a], Names[b])]]>>)

\* membership table of base sets in named sets (binds mkusetmask's bit table)
ExportMembers == Export => (assign = [i \in Slots |-> "m"] =>
                   PrintT(<<"MEMB", Names, [a \in 1..Len(Names) |-> Members(Names[a])]>>))
=============================================================================
