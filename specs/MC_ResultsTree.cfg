CONSTANTS
  MaxOps = 2
  Export = TRUE
  ShapeSet = {"flat", "mixed", "twins"}
  ValSet = "three"
  DataMod = 5
  Track = TRUE
SPECIFICATION Spec
INVARIANT Bounded
INVARIANT FreshAfterForm
INVARIANT CleanAfterDelete
INVARIANT ExportHist
CHECK_DEADLOCK FALSE
