CONSTANTS
  Export = TRUE
  MaxOps = 3
SPECIFICATION Spec
INVARIANT DomainParity
INVARIANT ReduceOK
INVARIANT ExportHist
INVARIANT ExportTerms
