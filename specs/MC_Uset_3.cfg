CONSTANTS
  K = 3
  Export = TRUE
INIT Init
NEXT Next
INVARIANT OneBase
INVARIANT Lattice
INVARIANT PVLaws
INVARIANT ExportOK
INVARIANT ExportMembers
