CONSTANTS
  K = 2
  Export = TRUE
INIT Init
NEXT Next
INVARIANT OneBase
INVARIANT Lattice
INVARIANT PVLaws
INVARIANT ExportOK
INVARIANT ExportMembers
