------------------------------ MODULE Newmark ------------------------------
(***************************************************************************)
(* C17.  SolveNewmark follows its documented recurrence (Nastran Theoretical*)
(* Manual 11.4) including the start-up step, the extrapolated last step and *)
(* the optional nonlinear force terms; SolveCDF / cd_as_force follows the   *)
(* "coupled damping as a force" recurrence.                                 *)
(*                                                                          *)
(* The run is a small state machine: Start, Step (nt - 2 times), Finish;    *)
(* each action appends one RULE application (rule name + sample indices).   *)
(* The rules are terms over matrices M B K, the step h, force samples and   *)
(* earlier displacements; the nonlinear term N(j) is an uninterpreted       *)
(* symbol that the driver instantiates with the same callables it hands to  *)
(* def_nonlin, evaluated on the EXPECTED history.                           *)
(***************************************************************************)
EXTENDS Integers, Sequences, TLC

CONSTANTS NTs, Export

V(n) == <<"var", n>>
Num(n) == <<"num", n>>
Add(a, b) == <<"add", a, b>>
Add3(a, b, c) == <<"add", a, b, c>>
Sub(a, b) == <<"sub", a, b>>
Mul(a, b) == <<"mul", a, b>>
Div(a, b) == <<"div", a, b>>
MatMul(a, x) == <<"matmul", a, x>>
Solve(a, x) == <<"solve", a, x>>

M == V("M") B == V("B") K == V("K") h == V("h")
\* A = M/h^2 + B/(2h) + K/3 ;  A1 = 2M/h^2 - K/3 ;  A0 = -M/h^2 + B/(2h) - K/3
hh == Mul(h, h)
Amat == Add3(Div(M, hh), Div(B, Mul(Num(2), h)), Div(K, Num(3)))
A1mat == Sub(Div(Mul(Num(2), M), hh), Div(K, Num(3)))
A0mat == Sub(Sub(Div(B, Mul(Num(2), h)), Div(M, hh)), Div(K, Num(3)))

\* rule bodies; symbols: u2 u1 (previous two displacements), f3 f2 f1 (three force samples), N (nonlinear force), u0 v0
Rule ==
  [ um1   |-> Sub(V("u0"), Mul(V("v0"), h)),                                   \* u_{-1} = u_0 - h v_0
    fm1   |-> Add(MatMul(K, V("um1")), MatMul(B, V("v0"))),                     \* F_{-1} = K u_{-1} + B v_0
    f0rep |-> Add(MatMul(K, V("u0")), MatMul(B, V("v0"))),                      \* F_0 := K u_0 + B v_0
    step  |-> Solve(V("A"), Add3(Div(Add3(V("f3"), V("f2"), V("f1")), Num(3)), V("N"),
                                 Add(MatMul(V("A1"), V("u2")), MatMul(V("A0"), V("u1"))))),
    fext  |-> Sub(Mul(Num(2), V("f3")), V("f2")),                               \* linearly extrapolated force
    vel   |-> Div(Sub(V("up"), V("um")), Mul(Num(2), h)),                       \* central differences
    acc   |-> Div(Add(Sub(V("up"), Mul(Num(2), V("uc"))), V("um")), hh),
    rf    |-> Solve(V("Krf"), V("f")) ]

VARIABLES nt, n, sched
Init == nt \in NTs /\ n = 0 /\ sched = <<>>
\* Start: u_1 from u_0, u_{-1}, forces F_1, F_0(replaced), F_{-1}, nonlinear term N_0
Start == /\ n = 0 /\ n' = 1
         /\ sched' = <<<<"start", 1>>>>
         /\ UNCHANGED nt
\* Step: u_{n+1} from u_n, u_{n-1}, F_{n+1}, F_n, F_{n-1} (F_0 replaced), N_n
Step == /\ n >= 1 /\ n + 1 <= nt - 1 /\ n' = n + 1
        /\ sched' = Append(sched, <<"step", n + 1>>)
        /\ UNCHANGED nt
\* Finish: one extra step with the extrapolated force, then velocities / accelerations for all samples
Finish == /\ n = nt - 1 /\ n' = nt
          /\ sched' = Append(sched, <<"finish", nt>>)
          /\ UNCHANGED nt
Next == Start \/ Step \/ Finish
Spec == Init /\ [][Next]_<<nt, n, sched>>

\* every sample 1..nt-1 is produced exactly once, in order, then the extra sample nt
ScheduleOK == n = nt => /\ Len(sched) = nt
                        /\ \A i \in 1..(nt - 1) : sched[i][2] = i
                        /\ sched[1][1] = "start" /\ sched[nt][1] = "finish"
                        /\ \A i \in 2..(nt - 1) : sched[i][1] = "step"
ExportOK == (Export /\ n = nt) => PrintT(<<"SCHED", nt, sched>>)
ExportRules == (Export /\ n = 0 /\ nt = 2) => PrintT(<<"RULES", Rule, [A |-> Amat, A1 |-> A1mat, A0 |-> A0mat]>>)
=============================================================================
