CONSTANTS
  MaxCalls = 3
  Export = TRUE
  HasF = TRUE
  HasG = FALSE
  HasX = FALSE
SPECIFICATION Spec
INVARIANT NoStaleRead
INVARIANT CoefImmutable
INVARIANT ExportHist
