------------------------------- MODULE Stats -------------------------------
(***************************************************************************)
(* C20.  Order statistics and tolerance-limit k-factors.                   *)
(*                                                                          *)
(* 1. ORDER STATISTICS in exact integer arithmetic.  With coverage p = a/b  *)
(*    and n samples, the r-th largest sample bounds the proportion p with   *)
(*    confidence                                                            *)
(*       Conf(p, n, r) = P( Bin(n, 1 - p) >= r )                            *)
(*                     = sum_{k >= r} C(n,k) (b-a)^k a^(n-k)  /  b^n .      *)
(*    TLC evaluates ConfNum for every (a, n, r) of the grid and decides     *)
(*    the monotonicity facts the "extreme integer" definitions rest on,     *)
(*    and computes for every query the admissible answers:                  *)
(*      rank:  the largest r with Conf >= c  (0 if none); on an exact tie   *)
(*             Conf = c binary64 cannot tell, so [largest r with Conf > c,  *)
(*             largest r with Conf >= c] is exported                        *)
(*      size:  the smallest n with Conf >= c, tie interval likewise         *)
(*      conf:  the exact rational ConfNum / b^n                             *)
(*      cover: the root of Conf(., n, r) = c, bracketed on the grid         *)
(* 2. k-FACTOR definitions as terms (quadrature / root constructors of the  *)
(*    generic evaluator): the one-sided factor k satisfies                  *)
(*       P( T_{n-1}(sqrt(n) z_p) <= sqrt(n) k ) = c                         *)
(*    written as the integral of Phi(t sqrt(v/nu) - delta) against the      *)
(*    chi-square density; the two-sided factor satisfies the documented     *)
(*    Wald-Wolfowitz equations  Phi(1/sqrt n + R) - Phi(1/sqrt n - R) = p,  *)
(*    P(chi2_{n-1} <= x) = 1 - c,  k = R sqrt((n-1)/x).                     *)
(* 3. The LAW grid: ordered pairs for monotonicity in p and c, the limit    *)
(*    n -> infinity (k -> z_p, from above when c >= 1/2).                   *)
(***************************************************************************)
EXTENDS Integers, Sequences, FiniteSets, TLC

CONSTANTS Export, Den, MaxN       \* p = a/Den, c = cc/Den;  Den^(MaxN) * Den must stay below 2^31

RECURSIVE Pow(_, _), Choose(_, _)
Pow(x, k) == IF k = 0 THEN 1 ELSE x * Pow(x, k - 1)
Choose(n, k) == IF k = 0 THEN 1 ELSE (Choose(n, k - 1) * (n - k + 1)) \div k
RECURSIVE SumFrom(_, _, _)
\* sum_{k = lo..n} C(n,k) (Den-a)^k a^(n-k)
SumFrom(a, n, lo) == IF lo > n THEN 0 ELSE Choose(n, lo) * Pow(Den - a, lo) * Pow(a, n - lo) + SumFrom(a, n, lo + 1)
ConfNum(a, n, r) == SumFrom(a, n, r)                   \* / Den^n
\* Conf >= c  and  Conf > c   with c = cc/Den, cross-multiplied
Meets(a, n, r, cc) == Den * ConfNum(a, n, r) >= cc * Pow(Den, n)
MeetsStrict(a, n, r, cc) == Den * ConfNum(a, n, r) > cc * Pow(Den, n)

As == 1..(Den - 1)
Ns == 1..MaxN

\* --- facts decided by TLC on the whole grid ---
MonotoneInR == \A a \in As, n \in Ns : \A r \in 1..n : ConfNum(a, n, r) >= ConfNum(a, n, r + 1)
\* exact form: Conf(n+1) >= Conf(n)  <=>  ConfNum(n+1) >= Den * ConfNum(n)
MonotoneInNExact == \A a \in As, n \in 1..(MaxN - 1) : \A r \in 1..n : ConfNum(a, n + 1, r) >= Den * ConfNum(a, n, r)
MonotoneInP == \A a \in 1..(Den - 2), n \in Ns : \A r \in 1..n : ConfNum(a, n, r) >= ConfNum(a + 1, n, r)
TotalMass == \A a \in As, n \in Ns : ConfNum(a, n, 0) = Pow(Den, n)
ASSUME MonotoneInR /\ MonotoneInNExact /\ MonotoneInP /\ TotalMass

\* --- answers ---
MaxOf(S) == CHOOSE x \in S : \A y \in S : y <= x
MinOf(S) == CHOOSE x \in S : \A y \in S : x <= y
RankWeak(a, cc, n) == MaxOf({0} \cup {r \in 1..n : Meets(a, n, r, cc)})
RankStrict(a, cc, n) == MaxOf({0} \cup {r \in 1..n : MeetsStrict(a, n, r, cc)})
SizeSet(a, cc, r) == {n \in r..MaxN : Meets(a, n, r, cc)}
SizeSetStrict(a, cc, r) == {n \in r..MaxN : MeetsStrict(a, n, r, cc)}
\* 0 = "more than MaxN samples needed"
SizeWeak(a, cc, r) == IF SizeSet(a, cc, r) = {} THEN 0 ELSE MinOf(SizeSet(a, cc, r))
SizeStrict(a, cc, r) == IF SizeSetStrict(a, cc, r) = {} THEN 0 ELSE MinOf(SizeSetStrict(a, cc, r))

\* the definitions are mutually consistent (decided by TLC for every grid point):
\*   the rank answer meets c and rank + 1 does not meet it strictly; the size answer meets c and size - 1 does not, strictly;
\*   feeding the size answer back into the rank question returns at least r
Consistent == \A a \in As, cc \in As :
   /\ \A n \in Ns : LET r == RankWeak(a, cc, n) IN
         /\ (r > 0 => Meets(a, n, r, cc)) /\ (r < n => ~MeetsStrict(a, n, r + 1, cc))
         /\ RankStrict(a, cc, n) <= r
   /\ \A r \in 1..MaxN : LET n == SizeWeak(a, cc, r) IN
         n > 0 => /\ Meets(a, n, r, cc) /\ (n > r => ~MeetsStrict(a, n - 1, r, cc))
                  /\ RankWeak(a, cc, n) >= r
                  /\ SizeStrict(a, cc, r) \in {0} \cup (n..MaxN)
ASSUME Consistent

VARIABLE q
Init == q \in (As \X As)
Next == UNCHANGED q

ExportGrid == Export =>
   LET a == q[1] cc == q[2] IN
   /\ PrintT(<<"RANK", Den, a, cc, [n \in Ns |-> <<RankStrict(a, cc, n), RankWeak(a, cc, n)>>]>>)
   /\ PrintT(<<"SIZE", Den, a, cc, [r \in 1..MaxN |-> <<SizeWeak(a, cc, r), SizeStrict(a, cc, r)>>]>>)
   /\ (cc = 1 => PrintT(<<"CONF", Den, a, [n \in Ns |-> [r \in 1..n |-> ConfNum(a, n, r)]]>>))

---------------------------------------------------------------------------
(* terms                                                                   *)
V(n) == <<"var", n>>
Num(n) == <<"num", n>>
Add(a, b) == <<"add", a, b>>
Sub(a, b) == <<"sub", a, b>>
Mul(a, b) == <<"mul", a, b>>
Div(a, b) == <<"div", a, b>>
Sqrt(a) == <<"sqrt", a>>
PowT(a, b) == <<"pow", a, b>>
Idx(n) == <<"idx", n>>
\* Conf for arbitrary rational p and integer n, r:  sum_{k=r}^{n} binom(n,k) (1-p)^k p^(n-k)   (exact in rationals)
ConfTerm == <<"sum", "k", V("r"), V("n"),
              Mul(<<"binom", V("n"), Idx("k")>>, Mul(PowT(Sub(Num(1), V("p")), Idx("k")), PowT(V("p"), Sub(V("n"), Idx("k")))))>>
\* the same through the complement (TotalMass, decided above on the grid): 1 - sum_{k=0}^{r-1}
ConfTermLow == Sub(Num(1), <<"sum", "k", Num(0), Sub(V("r"), Num(1)),
              Mul(<<"binom", V("n"), Idx("k")>>, Mul(PowT(Sub(Num(1), V("p")), Idx("k")), PowT(V("p"), Sub(V("n"), Idx("k")))))>>)
\* standard normal and chi-square through the evaluator's special functions
Phi(x) == Div(Add(Num(1), <<"erf", Div(x, Sqrt(Num(2)))>>), Num(2))
Zp == <<"root", "z", Sub(Phi(Idx("z")), V("p")), Num(0 - 12), Num(12)>>                \* z_p : Phi(z) = p   (bracketed)
Nu == Sub(V("n"), Num(1))
ChiPdf(v) == Div(Mul(PowT(v, Sub(Div(Nu, Num(2)), Num(1))), <<"exp", <<"neg", Div(v, Num(2))>>>>),
                 Mul(PowT(Num(2), Div(Nu, Num(2))), <<"gamma", Div(Nu, Num(2))>>))
\* one-sided:  P( x_bar + k s >= mu + z_p sigma ) = int_0^inf Phi( sqrt(n) k sqrt(v/nu) - sqrt(n) z_p ) chi2pdf(v) dv
OneSidedProb == <<"quad", "v", Num(0), <<"inf">>,
                   Mul(Phi(Sub(Mul(Mul(Sqrt(V("n")), V("k")), Sqrt(Div(Idx("v"), Nu))), Mul(Sqrt(V("n")), V("zp")))), ChiPdf(Idx("v")))>>
\* two-sided (Wald-Wolfowitz): x solves P(chi2_nu <= x) = 1 - c ; R = k / sqrt(nu / x) ; coverage(R) = p
Chi2Cdf(x) == <<"gammaincP", Div(Nu, Num(2)), Div(x, Num(2))>>
ChiRoot == <<"root", "x", Sub(Chi2Cdf(Idx("x")), Sub(Num(1), V("c"))), Div(Num(1), Num(1000000)), Add(Mul(Num(20), Nu), Num(400))>>
Rfromk == Div(V("k"), Sqrt(Div(Nu, V("chi"))))
Coverage(R) == Sub(Phi(Add(Div(Num(1), Sqrt(V("n"))), R)), Phi(Sub(Div(Num(1), Sqrt(V("n"))), R)))
ExportTerms == (Export /\ q = <<1, 1>>) =>
   PrintT(<<"TERMS", [conf |-> ConfTerm, conflow |-> ConfTermLow, zp |-> Zp, onesided |-> OneSidedProb, chiroot |-> ChiRoot, rfromk |-> Rfromk,
                      coverage |-> Coverage(V("R"))]>>)

\* law grid: ordered pairs (lo, hi) of percent values for monotonicity, sample sizes, and the large-n limit
Percents == {10, 25, 50, 75, 90, 95, 99}
Pairs == {<<x, y>> \in Percents \X Percents : x < y}
Sizes == {2, 3, 5, 10, 30, 100, 1000, 3000000}
ExportLaws == (Export /\ q = <<1, 1>>) => PrintT(<<"LAWS", Pairs, Sizes, Percents>>)
=============================================================================
