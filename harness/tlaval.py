"""Parser for TLA+ values as printed by TLC (PrintT, -dump, -simulate file=, error traces).

Maps:  <<a, b>> -> tuple (list), {a, b} -> frozenset-like list tagged ('set', [...]),
       [f |-> v, ...] -> dict, (k :> v @@ ...) -> dict, "s" -> str, 12 / -3 -> int,
       TRUE/FALSE -> bool, model values / identifiers -> str (prefixed '@').
No knowledge of pyYeti.
"""
import re

_tok = re.compile(
    r'\s*(<<|>>|\|->|:>|@@|\[|\]|\{|\}|\(|\)|,|"(?:[^"\\]|\\.)*"|-?\d+|[A-Za-z_][A-Za-z0-9_!]*|\.\.)'
)


class TlaSet(list):
    """A TLA+ set, kept as a list in TLC's printed order."""


def tokenize(s):
    pos = 0
    out = []
    n = len(s)
    while pos < n:
        m = _tok.match(s, pos)
        if not m:
            if s[pos:].strip() == "":
                break
            raise ValueError("cannot tokenize at %r" % s[pos : pos + 40])
        out.append(m.group(1))
        pos = m.end()
    return out


def _unescape(t):
    return (
        t[1:-1]
        .replace('\\"', '"')
        .replace("\\\\", "\\")
        .replace("\\n", "\n")
        .replace("\\t", "\t")
    )


def _parse(toks, i):
    t = toks[i]
    if t == "<<":
        i += 1
        items = []
        if toks[i] == ">>":
            return items, i + 1
        while True:
            v, i = _parse(toks, i)
            items.append(v)
            if toks[i] == ",":
                i += 1
                continue
            if toks[i] == ">>":
                return items, i + 1
            raise ValueError("bad tuple at token %d: %r" % (i, toks[i]))
    if t == "{":
        i += 1
        items = TlaSet()
        if toks[i] == "}":
            return items, i + 1
        while True:
            v, i = _parse(toks, i)
            items.append(v)
            if toks[i] == ",":
                i += 1
                continue
            if toks[i] == "}":
                return items, i + 1
            raise ValueError("bad set at token %d: %r" % (i, toks[i]))
    if t == "[":
        i += 1
        d = {}
        if toks[i] == "]":
            return d, i + 1
        while True:
            k = toks[i]
            if toks[i + 1] != "|->":
                raise ValueError("bad record at token %d" % i)
            v, i = _parse(toks, i + 2)
            d[k] = v
            if toks[i] == ",":
                i += 1
                continue
            if toks[i] == "]":
                return d, i + 1
            raise ValueError("bad record end at token %d: %r" % (i, toks[i]))
    if t == "(":
        # function  (k :> v @@ k :> v)
        i += 1
        d = {}
        while True:
            k, i = _parse(toks, i)
            if toks[i] != ":>":
                raise ValueError("bad function at token %d" % i)
            v, i = _parse(toks, i + 1)
            if isinstance(k, list):
                k = tuple(_freeze(x) for x in k)
            d[k] = v
            if toks[i] == "@@":
                i += 1
                continue
            if toks[i] == ")":
                return d, i + 1
            raise ValueError("bad function end at token %d: %r" % (i, toks[i]))
    if t[0] == '"':
        return _unescape(t), i + 1
    if t == "TRUE":
        return True, i + 1
    if t == "FALSE":
        return False, i + 1
    if re.fullmatch(r"-?\d+", t):
        # a..b ranges
        if i + 2 < len(toks) and toks[i + 1] == "..":
            hi = int(toks[i + 2])
            return TlaSet(range(int(t), hi + 1)), i + 3
        return int(t), i + 1
    if re.fullmatch(r"[A-Za-z_][A-Za-z0-9_!]*", t):
        return "@" + t, i + 1
    raise ValueError("unexpected token %r at %d" % (t, i))


def _freeze(x):
    if isinstance(x, list):
        return tuple(_freeze(y) for y in x)
    return x


def parse(s):
    toks = tokenize(s)
    v, i = _parse(toks, 0)
    if i != len(toks):
        raise ValueError("trailing tokens after value: %r" % toks[i : i + 5])
    return v


def extract_tagged(text, tag):
    """Find every  <<"tag", ...>>  in TLC output (PrintT), by bracket matching,
    robust to line wrapping. Returns the parsed tuples without the tag."""
    out = []
    key = re.compile(r'<<\s*"%s"' % re.escape(tag))
    pos = 0
    while True:
        m = key.search(text, pos)
        if not m:
            break
        j = m.start()
        depth = 0
        k = j
        n = len(text)
        instr = False
        while k < n:
            c = text[k]
            if instr:
                if c == "\\":
                    k += 2
                    continue
                if c == '"':
                    instr = False
            else:
                if c == '"':
                    instr = True
                elif text.startswith("<<", k):
                    depth += 1
                    k += 2
                    continue
                elif text.startswith(">>", k):
                    depth -= 1
                    k += 2
                    if depth == 0:
                        break
                    continue
            k += 1
        out.append(parse(text[j:k])[1:])
        pos = k
    return out


def parse_dump(path):
    """Parse a `tlc -dump file` state list:  'State N:' blocks of '/\\ var = value'."""
    states = []
    cur = None
    buf = None
    name = None

    def flush():
        nonlocal buf, name
        if name is not None:
            cur[name] = parse(" ".join(buf))
        buf = None
        name = None

    with open(path) as f:
        for line in f:
            if line.startswith("State "):
                if cur is not None:
                    flush()
                    states.append(cur)
                cur = {}
                continue
            if cur is None:
                continue
            m = re.match(r"^/\\ ([A-Za-z_][A-Za-z0-9_]*) = (.*)$", line.rstrip("\n"))
            if m:
                flush()
                name = m.group(1)
                buf = [m.group(2)]
            elif re.match(r"^([A-Za-z_][A-Za-z0-9_]*) = (.*)$", line.rstrip("\n")) and name is None and not cur:
                m = re.match(r"^([A-Za-z_][A-Za-z0-9_]*) = (.*)$", line.rstrip("\n"))
                name = m.group(1)
                buf = [m.group(2)]
            elif line.strip() and buf is not None:
                buf.append(line.strip())
    if cur is not None:
        flush()
        states.append(cur)
    return states


if __name__ == "__main__":
    print(parse('<<"a", [x |-> 1, y |-> <<1, -2>>], {1, 2}, (1 :> "q" @@ 2 :> TRUE), m1>>'))
    print(extract_tagged('junk <<"EX", 1, <<2, 3>>,\n "s>>">> more <<"EX", 4>>', "EX"))
