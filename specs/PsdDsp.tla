------------------------------ MODULE PsdDsp ------------------------------
(***************************************************************************)
(* C19.  PSD and signal utilities conserve what they claim to conserve.    *)
(* Four parts, selected by the constant Part (one TLC configuration each): *)
(*                                                                          *)
(* "rescale"  psd.rescale on LINEAR band layouts, on an integer tick grid: *)
(*            the input is piecewise constant over its bands, an output    *)
(*            band's mean square is  sum_j P_j |band /\ inband_j|  (integer *)
(*            interval overlap), output bands that do not reach the data   *)
(*            are trimmed, and with extendends the first/last band's        *)
(*            density is the density of its covered part.  TLC computes ms, *)
(*            psd (as a fraction) and msv for every layout and checks       *)
(*            conservation when the output bands tile the input exactly.    *)
(* "resample" dsp.resample index model: reduced p/q, output length          *)
(*            ceil(n p / q), FIR length, which upsampled index each output  *)
(*            sample is, original samples kept when q = 1; the FIR          *)
(*            coefficient (Kaiser-windowed sinc) as a term.                 *)
(* "fixtime"  dsp.fixtime on a tick grid (dt = 8 ticks): length, turning    *)
(*            points, longest good run, alignment shift (a fraction of a    *)
(*            tick), nearest-sample map with ties to the earlier time, and  *)
(*            the previous-value map with tolerance, for every jitter /     *)
(*            gap / repeat pattern up to MaxLen samples.                    *)
(* "terms"    psd.area / psd.interp definitions as terms.                   *)
(***************************************************************************)
EXTENDS Integers, Sequences, FiniteSets, TLC

CONSTANTS Part, Export, MaxLen

V(n) == <<"var", n>>
Num(n) == <<"num", n>>
Add(a, b) == <<"add", a, b>>
Sub(a, b) == <<"sub", a, b>>
Mul(a, b) == <<"mul", a, b>>
Div(a, b) == <<"div", a, b>>
Idx(n) == <<"idx", n>>
Log(a) == <<"log", a>>
PowT(a, b) == <<"pow", a, b>>

Max2(a, b) == IF a >= b THEN a ELSE b
Min2(a, b) == IF a <= b THEN a ELSE b
Abs(a) == IF a >= 0 THEN a ELSE 0 - a
RECURSIVE SumSeq(_)
SumSeq(s) == IF s = <<>> THEN 0 ELSE Head(s) + SumSeq(Tail(s))
RECURSIVE Gcd(_, _)
Gcd(a, b) == IF b = 0 THEN a ELSE Gcd(b, a % b)
CeilDiv(a, b) == (a + b - 1) \div b

VARIABLE q

---------------------------------------------------------------------------
(* rescale, linear layouts.  Ticks: input centres F0 + j*DF, half width DF/2; output centres G0 + i*DG.            *)
(* A layout: [nin, f0, df, nout, g0, dg, ext] ; PSD values P_j = Pvals[j].                                          *)
Pvals == <<3, 1, 4, 2>>
RescaleCases == {[nin |-> nin, f0 |-> 20, df |-> 8, nout |-> nout, g0 |-> g0, dg |-> dg, ext |-> ext] :
                   nin \in 2..4, nout \in 2..4, g0 \in {8, 14, 16, 20, 23, 28, 36, 44}, dg \in {4, 8, 12, 16}, ext \in BOOLEAN}
InLo(c, j) == c.f0 + (j - 1) * c.df - c.df \div 2
InHi(c, j) == InLo(c, j) + c.df
OutLo(c, i) == c.g0 + (i - 1) * c.dg - c.dg \div 2
OutHi(c, i) == OutLo(c, i) + c.dg
LastCentre(c) == c.f0 + (c.nin - 1) * c.df
\* trimming rule (documented: "trimmed further if needed by the first and last values of F" - the CENTRE frequencies)
Kept(c) == {i \in 1..c.nout : OutLo(c, i) <= LastCentre(c) /\ OutHi(c, i) >= c.f0}
Contig(S) == S = {} \/ \A i \in S : \A k \in S : \A m \in 1..4 : (i < m /\ m < k) => m \in S
Overlap(lo1, hi1, lo2, hi2) == Max2(0, Min2(hi1, hi2) - Max2(lo1, lo2))
MsCovered(c, i) == SumSeq([j \in 1..c.nin |-> Pvals[j] * Overlap(OutLo(c, i), OutHi(c, i), InLo(c, j), InHi(c, j))])
Covered(c, i) == Overlap(OutLo(c, i), OutHi(c, i), InLo(c, 1), InHi(c, c.nin))
\* results per kept band: density as <<num, den>>, mean square as <<num, den>>
IsEnd(c, i) == i = CHOOSE m \in Kept(c) : \A k \in Kept(c) : m <= k
IsLast(c, i) == i = CHOOSE m \in Kept(c) : \A k \in Kept(c) : m >= k
Extended(c, i) == c.ext /\ ((IsEnd(c, i) /\ OutLo(c, i) < InLo(c, 1)) \/ (IsLast(c, i) /\ OutHi(c, i) > InHi(c, c.nin)))
\* the code clips only the first band's lower edge and the last band's upper edge
ClipLo(c, i) == IF c.ext /\ IsEnd(c, i) THEN Max2(OutLo(c, i), InLo(c, 1)) ELSE OutLo(c, i)
ClipHi(c, i) == IF c.ext /\ IsLast(c, i) THEN Min2(OutHi(c, i), InHi(c, c.nin)) ELSE OutHi(c, i)
Density(c, i) == <<MsCovered(c, i), ClipHi(c, i) - ClipLo(c, i)>>
Ms(c, i) == IF c.ext THEN <<MsCovered(c, i) * c.dg, ClipHi(c, i) - ClipLo(c, i)>> ELSE <<MsCovered(c, i), 1>>
RescaleLegal(c) == Kept(c) # {} /\ \A i \in Kept(c) : ClipHi(c, i) > ClipLo(c, i)
\* conservation: when the kept output bands tile the input range exactly, the total mean square is the input's
Tiles(c) == LET K == Kept(c) IN K # {} /\ OutLo(c, CHOOSE m \in K : \A k \in K : m <= k) = InLo(c, 1)
                                       /\ OutHi(c, CHOOSE m \in K : \A k \in K : m >= k) = InHi(c, c.nin)
TotalIn(c) == SumSeq([j \in 1..c.nin |-> Pvals[j] * c.df])
Conservation == (Part = "rescale" /\ RescaleLegal(q) /\ Tiles(q)) =>
                   SumSeq([i \in 1..q.nout |-> IF i \in Kept(q) THEN MsCovered(q, i) ELSE 0]) = TotalIn(q)
KeptContiguous == Part = "rescale" => Contig(Kept(q))
\* never more than the input holds, unless an end band is extended
NoCreation == (Part = "rescale" /\ RescaleLegal(q) /\ ~q.ext) =>
                   SumSeq([i \in 1..q.nout |-> IF i \in Kept(q) THEN MsCovered(q, i) ELSE 0]) <= TotalIn(q)
ExportRescale == (Part = "rescale" /\ Export /\ RescaleLegal(q)) =>
   PrintT(<<"RESCALE", q, Pvals, [i \in 1..q.nout |-> IF i \in Kept(q) THEN <<TRUE, Density(q, i), Ms(q, i)>> ELSE <<FALSE, <<0, 1>>, <<0, 1>>>>]>>)

---------------------------------------------------------------------------
(* resample index model                                                    *)
ResampleCases == {[n |-> n, p |-> p, qq |-> qq, pts |-> pts] : n \in 1..12, p \in 1..6, qq \in 1..6, pts \in {2, 10}}
Pr(c) == c.p \div Gcd(c.p, c.qq)
Qr(c) == c.qq \div Gcd(c.p, c.qq)
OutLen(c) == CeilDiv(c.n * Pr(c), Qr(c))
FirLen(c) == 2 * c.pts * Max2(Pr(c), Qr(c)) + 1
\* output sample k (0-based) is sample k * Qr of the p-fold zero-stuffed, filtered signal; it coincides with original
\* sample j exactly when k * Qr = j * Pr
Original(c, k) == IF (k * Qr(c)) % Pr(c) = 0 /\ (k * Qr(c)) \div Pr(c) < c.n THEN (k * Qr(c)) \div Pr(c) ELSE 0 - 1
LengthLaw == Part = "resample" => /\ (OutLen(q) - 1) * Qr(q) < q.n * Pr(q) /\ OutLen(q) * Qr(q) >= q.n * Pr(q)
                                   /\ (Qr(q) = 1 => \A j \in 0..(q.n - 1) : Original(q, j * Pr(q)) = j)
ExportResample == (Part = "resample" /\ Export) =>
   PrintT(<<"RESAMPLE", q, Pr(q), Qr(q), OutLen(q), FirLen(q), [k \in 1..OutLen(q) |-> Original(q, k - 1)]>>)
\* FIR coefficient n (0..M), M = 2 pts max(p, q):  p * kaiser(n; M, beta) * 2c sinc(2c (n - M/2)),  c = min(1/p, 1/q)/2
Cut == Div(<<"min", Div(Num(1), V("p")), Div(Num(1), V("q"))>>, Num(2))
Xs == Mul(Mul(Num(2), Cut), Sub(V("n"), Div(V("M"), Num(2))))
Sinc(x) == <<"sinc", x>>
Kaiser == Div(<<"besseli0", Mul(V("beta"), <<"sqrt", Sub(Num(1), PowT(Sub(Div(Mul(Num(2), V("n")), V("M")), Num(1)), Num(2)))>>)>>,
              <<"besseli0", V("beta")>>)
FirTerm == Mul(V("p"), Mul(Kaiser, Mul(Mul(Num(2), Cut), Sinc(Xs))))

---------------------------------------------------------------------------
(* fixtime on a tick grid, dt = Dt ticks                                   *)
Dt == 8
Steps == {8, 7, 9, 10, 16, 0, 4, 20}
FixCases == UNION {[1..n -> Steps] : n \in 1..(MaxLen - 1)}
RECURSIVE Cum(_, _)
Cum(st, k) == IF k = 0 THEN 0 ELSE Cum(st, k - 1) + st[k]
Told(st) == [k \in 1..(Len(st) + 1) |-> Cum(st, k - 1)]
\* round half to even (numpy / Python rounding), a >= 0
RoundHE(a, b) == LET f == a \div b  r == a % b IN
                 IF 2 * r < b THEN f ELSE IF 2 * r > b THEN f + 1 ELSE IF f % 2 = 0 THEN f ELSE f + 1
NewLen(t) == RoundHE(t[Len(t)] - t[1], Dt) + 1
Tnew0(t, i) == t[1] + (i - 1) * Dt                                   \* i = 1..NewLen
\* turning points: both ends of every step that is off by more than dt/4, plus the two ends of the record
BadStep(t, k) == 4 * Abs((t[k + 1] - t[k]) - Dt) > Dt             \* step k -> k+1
TP(t) == {1, Len(t)} \cup {k \in 1..Len(t) : (k < Len(t) /\ BadStep(t, k)) \/ (k > 1 /\ BadStep(t, k - 1))}
SortedSeq(S) == LET RECURSIVE Srt(_) Srt(R) == IF R = {} THEN <<>> ELSE LET m == CHOOSE x \in R : \A y \in R : x <= y IN <<m>> \o Srt(R \ {m}) IN Srt(S)
Align(t) == Cardinality(TP(t)) - 2 <= Len(t) \div 2
\* longest run between consecutive turning points (first one on ties)
GoodRun(t) == LET tp == SortedSeq(TP(t))
                  best == CHOOSE j \in 1..(Len(tp) - 1) : /\ \A k \in 1..(Len(tp) - 1) : tp[k + 1] - tp[k] <= tp[j + 1] - tp[j]
                                                          /\ \A k \in 1..(j - 1) : tp[k + 1] - tp[k] < tp[j + 1] - tp[j]
              IN <<tp[best], tp[best + 1]>>
\* number of new times strictly below x, minus one, floored at 0 (0-based index of the last new time below x)
PrevIdx(t, x) == Max2(0, Cardinality({i \in 1..NewLen(t) : Tnew0(t, i) < x}) - 1)
\* alignment shift as a fraction <<num, den>> of a tick
Shift(t) == IF ~Align(t) THEN <<0, 1>> ELSE
   LET g == GoodRun(t)  lold == g[2] - g[1] + 1
       p == PrevIdx(t, t[g[1]] + Dt \div 2)  n == PrevIdx(t, t[g[2]] + Dt \div 2)
       lnew == n - p + 1 IN
   IF lnew # lold THEN <<t[g[1]] - Tnew0(t, p + 1), 1>>
   ELSE <<SumSeq([k \in 1..lold |-> t[g[1] + k - 1] - Tnew0(t, p + k)]), lold>>
\* new time i, scaled by the shift's denominator (sh = Shift(t), passed explicitly: TLC does not cache operator values)
TnewS(t, sh, i) == Tnew0(t, i) * sh[2] + sh[1]
Dist(t, sh, k, i) == Abs(t[k] * sh[2] - TnewS(t, sh, i))
\* nearest old TIME to new time i, ties to the earlier time; the admissible samples are those recorded at that time
NearestTime(t, sh, i) == LET d == [k \in 1..Len(t) |-> Dist(t, sh, k, i)]
                             k == CHOOSE k \in 1..Len(t) : \A m \in 1..Len(t) : d[k] < d[m] \/ (d[k] = d[m] /\ t[k] <= t[m])
                         IN t[k]
\* previous value with tolerance tol = <<tn, td>> of a step: the latest old time <= new time + tol*dt (first sample if none)
PrevTime(t, sh, i, tol) == LET den == sh[2]
                               ok == {k \in 1..Len(t) : t[k] * den * tol[2] <= TnewS(t, sh, i) * tol[2] + tol[1] * Dt * den}
                           IN IF ok = {} THEN t[1] ELSE t[CHOOSE k \in ok : \A m \in ok : t[m] <= t[k]]
Tols == << <<0, 1>>, <<1, 1000>>, <<1, 4>> >>
\* already-uniform input: every step equals dt  =>  no shift, same length, identity map
Uniform(t) == \A k \in 1..(Len(t) - 1) : t[k + 1] - t[k] = Dt
UniformUnchanged == (Part = "fixtime" /\ Uniform(Told(q))) =>
    LET t == Told(q) sh == Shift(t) IN
        /\ NewLen(t) = Len(t) /\ sh[1] = 0
        /\ \A i \in 1..Len(t) : NearestTime(t, sh, i) = t[i] /\ \A z \in 1..3 : PrevTime(t, sh, i, Tols[z]) = t[i]
\* the nearest-sample rule is exact: no other old time is strictly closer (restated from the definition, evaluated by TLC)
ExportFix == (Part = "fixtime" /\ Export) =>
   LET t == Told(q) sh == Shift(t) L == NewLen(t) IN
   PrintT(<<"FIX", t, L, sh, SortedSeq(TP(t)), Align(t),
            [i \in 1..L |-> NearestTime(t, sh, i)],
            [z \in 1..3 |-> [i \in 1..L |-> PrevTime(t, sh, i, Tols[z])]]>>)

---------------------------------------------------------------------------
(* area / interp terms: one segment (f1, p1) - (f2, p2) of a constant dB/octave specification                       *)
Slope == Div(Log(Div(V("p2"), V("p1"))), Log(Div(V("f2"), V("f1"))))
\* the log-log interpolation and its integral (definition: quadrature of the interpolant)
Interp(f) == Mul(V("p1"), PowT(Div(f, V("f1")), Slope))
AreaDef == <<"quad", "f", V("f1"), V("f2"), Interp(Idx("f"))>>
\* the two closed forms (what the segment integral evaluates to)
AreaGeneral == Div(Sub(Mul(V("f2"), V("p2")), Mul(V("f1"), V("p1"))), Add(Slope, Num(1)))
AreaMinus1 == Mul(Mul(V("p1"), V("f1")), Log(Div(V("f2"), V("f1"))))
LinInterp(f) == Add(V("p1"), Mul(Sub(V("p2"), V("p1")), Div(Sub(f, V("f1")), Sub(V("f2"), V("f1")))))
\* logarithmic band layouts: band edges between centres fa < fb are geometric means; the outermost edges mirror them
EdgeMid == <<"sqrt", Mul(V("fa"), V("fb"))>>
EdgeFirst == Mul(V("fa"), <<"sqrt", Div(V("fa"), V("fb"))>>)            \* below the first centre fa (fb = second centre)
EdgeLast == Mul(V("fb"), <<"sqrt", Div(V("fb"), V("fa"))>>)             \* above the last centre fb (fa = the one before)
OverlapT == <<"max", Num(0), Sub(<<"min", V("hi1"), V("hi2")>>, <<"max", V("lo1"), V("lo2")>>)>>
ExportTerms == (Part = "terms" /\ Export) =>
   PrintT(<<"TERMS", [slope |-> Slope, interp |-> Interp(V("f")), lininterp |-> LinInterp(V("f")), areadef |-> AreaDef,
                      areageneral |-> AreaGeneral, areaminus1 |-> AreaMinus1, fir |-> FirTerm,
                      edgemid |-> EdgeMid, edgefirst |-> EdgeFirst, edgelast |-> EdgeLast, overlap |-> OverlapT]>>)

\* ---- fixtime: outlier times (growth; the documented heuristic "times more than 3 sigma away from the mean are deleted") -------------
\* a record of n samples one unit apart with ONE time stamp displaced to `at` (a corrupted clock word).  The rule in integers:
\* |t_i - mean| > 3 std (ddof 1)   <=>   (n t_i - S)^2 (n - 1) > 9 n (n Q - S^2)   with S = sum t, Q = sum t^2
OutCases == {<<n, pos, at>> : n \in 11..14, pos \in {1, 5, 11}, at \in {-300, -40, -20, 8, 30, 45, 60, 400}}
OutTimesOf(c) == [i \in 1..c[1] |-> IF i = c[2] THEN c[3] ELSE i - 1]
RECURSIVE SumTo(_, _)
SumTo(f, i) == IF i = 0 THEN 0 ELSE f[i] + SumTo(f, i - 1)
IsOutlier(t, i) == LET n == Len(t) S == SumTo(t, n) Q == SumTo([k \in 1..n |-> t[k] * t[k]], n) IN
                   (n * t[i] - S) * (n * t[i] - S) * (n - 1) > 9 * n * (n * Q - S * S)
Outliers(t) == {i \in 1..Len(t) : IsOutlier(t, i)}
\* at most the displaced sample is an outlier (the others are within one record length of the mean), a far displacement always is, and
\* a displacement that stays inside the record never is
OutLaws == Part = "outtimes" =>
   LET t == OutTimesOf(q) o == Outliers(t) IN
   /\ o \subseteq {q[2]}
   /\ (q[3] >= 400 \/ q[3] <= -300) => o = {q[2]}
   /\ (q[3] \in 0..(q[1] - 1)) => o = {}
ExportOut == (Part = "outtimes" /\ Export) => PrintT(<<"OUTT", q[1], q[2], q[3], OutTimesOf(q), Outliers(OutTimesOf(q))>>)

Init == q \in CASE Part = "rescale" -> RescaleCases [] Part = "resample" -> ResampleCases
                [] Part = "fixtime" -> FixCases [] Part = "outtimes" -> OutCases [] Part = "terms" -> {0}
Next == UNCHANGED q
=============================================================================
