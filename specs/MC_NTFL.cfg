CONSTANTS
  Export = TRUE
INIT Init
NEXT Next
INVARIANT ClassNonTrivial
INVARIANT RoutesCovered
INVARIANT ExportCfg
INVARIANT ExportTerms
