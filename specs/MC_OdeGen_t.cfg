CONSTANTS
  NT = 5
  MaxActs = 9
  Export = TRUE
SPECIFICATION Spec
INVARIANT TypeOK
INVARIANT Valid
INVARIANT FinalIsBatch
INVARIANT CacheCoherent
INVARIANT Col0Fixed
INVARIANT IcLaws
INVARIANT ExportIc
INVARIANT ExportOK
PROPERTY OnlyCurrentColumn
