"""C03: shock response spectrum = peaks of the exact single-DOF response.

specs/Srs.tla: option lattice (6 stype x 4 ic x 3 time x 6 peak x eqsine), the index model (appended cycle, window
start, history shape) with its laws checked by TLC, and the response quantity / steady-state offset of every stype as
terms over (z, z', a).  The oscillator history comes from the exact step terms of specs/OdeModel.tla (m = 1, b = w/Q,
k = w^2, f = -a; w = 0: rigid-body step), started from rest one sample before the record.  For every option point the
driver compares resp['hist'], resp['t'], shapes and the spectrum (= stated statistic of the RETURNED history over the
stated window, exact) on signals of length 1, 2, 7 in 1-D / Nx1 / NxH packaging; then the algebraic laws."""
import json

from . import tlc, terms
from .runner import main, Run

PEAK = {
    "abs": lambda r, np: np.abs(r).max(axis=0), "pos": lambda r, np: np.abs(r.max(axis=0)), "neg": lambda r, np: np.abs(r.min(axis=0)),
    "poss": lambda r, np: r.max(axis=0), "negs": lambda r, np: r.min(axis=0), "rms": lambda r, np: np.sqrt((r ** 2).mean(axis=0)),
}


def oracle_hist(np, step_terms, sig, sr, freq, Q, point, quantity, offset, win):
    """sig: (M, H).  returns hist (N - S, H, LF) per the spec"""
    M, H = sig.shape
    h = 1.0 / sr
    s1 = sig[0].copy()
    ic = point["ic"]
    if ic in ("shift", "steady"):
        a = sig - s1
    elif ic == "mshift":
        a = sig - sig.mean(axis=0)
    else:
        a = sig.copy()
    N, S = win["N"], win["S"]
    if N > M:
        pad = np.zeros((N - M, H)) - (s1 if ic == "steady" else 0.0)
        a = np.vstack((a, pad))
    hist = np.zeros((N, H, len(freq)))
    for k, f in enumerate(freq):
        w = 2 * np.pi * f
        kind = "rb0" if w == 0 else "und"
        tD, tV = step_terms[(kind, 1)][:2]
        z = np.zeros(H) + 0j
        zd = np.zeros(H) + 0j
        aprev = np.zeros(H)
        for j in range(N):
            env = dict(m=1.0, b=w / Q, k=w * w + 0j, h=h, d0=z, v0=zd, f0=-aprev + 0j, f1=-a[j] + 0j)
            with np.errstate(all="ignore"):
                z1 = terms.ev(tD, env)
                zd1 = terms.ev(tV, env)
            z, zd = np.real(z1) + 0j, np.real(zd1) + 0j
            aprev = a[j]
            val = terms.ev(quantity, dict(w=w, z=z.real, zd=zd.real, a=a[j], Q=Q))
            if ic == "steady":
                with np.errstate(all="ignore"):
                    off = terms.ev(offset, dict(w=w, s1=s1))
                if w == 0:
                    off = np.where(np.isfinite(off), off, 0.0) if point["stype"] == "absacce" else None
                if off is not None:
                    val = val + off
            hist[j, :, k] = np.real(val) * np.ones(H)
    if point["eqsine"]:
        hist = hist / Q
    return hist[S:]


def body(run: Run, replay):
    import numpy as np
    import warnings
    warnings.simplefilter("ignore")
    from pyyeti import srs

    res = tlc.run("Srs", "MC_Srs.cfg", timeout=600)
    res2 = tlc.run("OdeModel", "MC_OdeModel.cfg", timeout=600)
    for r_, nm in ((res, "MC_Srs.cfg"), (res2, "MC_OdeModel.cfg")):
        if r_.violation:
            run.add_tlc(nm, r_)
            run.violation("TLC: %s (%s)" % (r_.violation, nm), {"tlc": r_.error_text()}, {"where": "model"})
            return
    run.add_tlc("MC_Srs.cfg", res, "864 option points; invariants IndexLaws over 24 index cases and UpLaws over 600 rolloff cases")
    run.add_tlc("MC_OdeModel.cfg", res2, "exact oscillator step terms (und, rb0) reused as the history oracle")
    step_terms = {(k, o): v for (k, o, *v) in res2.tagged("STEP")}
    run.rule = ("every option point stype x ic x time x peak x eqsine (864) on index cases M in {1,2,7} x sr in {100,128} x lowest frequency in "
                "{0,3,7,50}: history vs the exact oscillator terms (1e-9 of the history scale), spectrum = stated statistic of the returned "
                "history (exact), shapes, resp['t']; packaging 1-D / Nx1 / NxH; algebraic laws. distinct non-trivial = (point, index case)")
    run.assumptions = ["rolloff='none' for the exactness clause (resampling accuracy belongs to C19); with a resampling rolloff the history is compared with "
                       "the exact response to the record as resampled by the public srs.linroll/lanroll/fftroll", "rolloff='prefilter' needs more than 12 samples (scipy filtfilt)", "sr/fn <= 2000; Q = 8",
                       "the digital filter starts from rest one sample before the record (zero state of the ramp-invariant filter)",
                       "ic='steady' at exactly 0 Hz is not compared for reldisp/pvelo/pacce (the static offset s1/w^2 is singular there)"]
    rng = np.random.default_rng(run.seed)
    Q = 8.0
    npt = 0
    for pi, (point, quantity, offset, windows, upwindows) in enumerate(res.tagged("POINT")):
        cases = sorted(windows.items()) if isinstance(windows, dict) else list(enumerate(windows))
        for ci, (ck, win) in enumerate(cases):
            M, sr, fmin = ck
            if run.tier == "quick" and (pi + ci) % 8:
                continue
            H = [1, 1, 3][ci % 3]
            sig = np.round(rng.standard_normal((M, H)) * 4) / 2 + 0.5
            freq = np.array(sorted(set([float(fmin), 11.0 if fmin <= 11 else 50.0, 0.0 if ci % 2 else float(fmin), 23.5])))
            freq = freq[freq >= (fmin if fmin > 0 else 0)]
            if fmin == 0:
                freq = np.array([0.0]) if ci % 2 else np.array([0.0, 0.0])
            else:
                freq = np.array(sorted(set([float(fmin), float(fmin) * 3.5] + ([0.0] if ci % 2 else []))))
            if ((pi + ci) // 8 + ci) % 2 and len(freq) > 1:
                freq = freq[::-1].copy()       # the appended cycle is one period of the LOWEST non-zero frequency wherever it stands in the vector
            pack = ["1d", "Nx1", "NxH"][ci % 3]
            arg = sig[:, 0] if pack == "1d" else sig
            case = {"point": point, "M": M, "sr": sr, "freq": freq.tolist(), "packaging": pack, "signal": sig.tolist()}
            npt += 1
            run.case((json.dumps(point, sort_keys=True), ck), part="option lattice")
            try:
                sh, resp = srs.srs(arg, float(sr), freq, Q, ic=point["ic"], stype=point["stype"], peak=point["peak"], eqsine=point["eqsine"],
                                   time=point["time"], getresp=True, rolloff="none", parallel="no")
                sh0 = srs.srs(arg, float(sr), freq, Q, ic=point["ic"], stype=point["stype"], peak=point["peak"], eqsine=point["eqsine"],
                              time=point["time"], getresp=False, rolloff="none", parallel="no")
            except Exception as ex:
                if win["N"] - win["S"] == 0:
                    continue          # residual window is empty when every frequency is 0 Hz: nothing to report
                run.violation("srs raised %r" % ex, case, {"stype": point["stype"]})
                continue
            exp = oracle_hist(np, step_terms, sig, float(sr), freq, Q, point, quantity, offset, win)
            hist = resp["hist"]
            bad = None
            skip_vals = point["ic"] == "steady" and (freq == 0).any() and point["stype"] in ("reldisp", "pvelo", "pacce")
            if hist.shape != exp.shape:
                bad = "resp['hist'] has shape %r, index model says %r" % (hist.shape, exp.shape)
            elif not skip_vals and exp.size:
                sc = max(np.abs(exp).max(), 1e-300)
                err = np.abs(hist - exp).max() / sc
                if not err <= 1e-9:
                    bad = "response history differs from the exact oscillator response (relative %.3g)" % err
            if bad is None:
                tt = np.arange(win["S"], win["N"]) / float(sr)
                if not np.array_equal(resp["t"], tt) or resp["sr"] != float(sr):
                    bad = "resp['t'] / resp['sr'] differ from the index model"
            if bad is None and not skip_vals and hist.shape[0] > 0:
                stat = np.array([PEAK[point["peak"]](hist[:, :, k], np) for k in range(len(freq))])
                want = stat[:, 0] if pack == "1d" else stat
                if np.shape(sh) != np.shape(want) or not np.array_equal(np.asarray(sh), want):
                    bad = "spectrum is not the '%s' statistic of the returned history over the '%s' window" % (point["peak"], point["time"])
                elif not np.array_equal(np.asarray(sh0), np.asarray(sh)):
                    bad = "spectrum differs with and without getresp"
            if bad:
                run.violation("srs: " + bad, case, {"stype": point["stype"], "ic": point["ic"], "time": point["time"]})
                if len([v for v in run.violations if v]) > 15:
                    return
            run.trace_validated()
        if pi < 2:
            run.sample({"point": point, "quantity": quantity})
        if not upsampled(run, np, srs, rng, step_terms, pi, point, quantity, offset, upwindows, Q):
            return
    laws(run, np, srs, rng)


def upsampled(run, np, srs, rng, step_terms, pi, point, quantity, offset, upwindows, Q):
    """rolloff index model (spec UpWindow): rate, resampled length, appended cycle and window start of the RESAMPLED record"""
    rollfn = {"linear": srs.linroll, "lanczos": srs.lanroll, "fft": srs.fftroll}
    ucases = sorted(upwindows.items())
    stride = 48 if run.tier == "quick" else 6
    for ui, (ck, u) in enumerate(ucases):
        if (pi * 7 + ui) % stride:
            continue
        roll, M, sr, fmin, fmax, ppc = ck
        if fmax < fmin or (roll == "prefilter" and M <= 12):
            continue          # scipy's filtfilt (the prefilter) refuses records of 12 samples or fewer with a ValueError
        H = 1 + ui % 2
        sig = np.round(rng.standard_normal((M, H)) * 4) / 2 + 0.5
        freq = np.array(sorted({float(fmin), float(fmax)}))
        case = {"point": point, "rolloff": roll, "M": M, "sr": sr, "freq": freq.tolist(), "ppc": ppc, "signal": sig.tolist()}
        run.case((json.dumps(point, sort_keys=True), ck), part="rolloff index model")
        kw = dict(ic=point["ic"], stype=point["stype"], peak=point["peak"], eqsine=point["eqsine"], time=point["time"], parallel="no")
        try:
            sh, resp = srs.srs(sig, float(sr), freq, Q, rolloff=roll, ppc=ppc, getresp=True, **kw)
        except Exception as ex:
            run.violation("srs raised %r" % ex, case, {"stype": point["stype"], "rolloff": roll})
            continue
        hist = resp["hist"]
        bad = None
        if roll in rollfn and u["k"] > 1:
            # the length a resampling method returns (kM, k(M - M mod 2), kM - 1) is the method's own business: the property speaks of
            # the rate and of the window of the RESAMPLED record.  Take the observed length from the public resampler; a
            # length other than the spec's UpLen is a deviation from the growth spec, the window laws are checked on what was returned
            up_, sr_ = rollfn[roll](sig, float(sr), ppc, float(fmax))
            if up_.shape[0] != u["M"]:
                run.deviation("Srs.UpLen", "%s returns %d samples for a record of %d at factor %d, the spec's length rule says %d" % (
                    rollfn[roll].__name__, up_.shape[0], M, u["k"], u["M"]), {"rolloff": roll, "M": M, "k": u["k"]})
                tail = u["N"] - u["M"]
                u = dict(u, M=up_.shape[0], N=up_.shape[0] + tail, S=(up_.shape[0] if u["S"] else 0))
        if resp["sr"] != float(u["sr"]):
            bad = "resp['sr'] = %r, the index model says %r (factor %d)" % (resp["sr"], u["sr"], u["k"])
        elif hist.shape != (u["N"] - u["S"], H, len(freq)):
            bad = "resp['hist'] has shape %r, the index model of the resampled record says %r" % (hist.shape, (u["N"] - u["S"], H, len(freq)))
        elif not np.array_equal(resp["t"], np.arange(u["S"], u["N"]) / float(u["sr"])):
            bad = "resp['t'] is not (S .. N-1)/sr of the resampled record (S = %d, N = %d, sr = %d)" % (u["S"], u["N"], u["sr"])
        if bad is None and hist.shape[0] > 0:
            stat = np.array([PEAK[point["peak"]](hist[:, :, k], np) for k in range(len(freq))])
            if np.shape(sh) != stat.shape or not np.array_equal(np.asarray(sh), stat):
                bad = "spectrum is not the '%s' statistic of the returned history over the '%s' window" % (point["peak"], point["time"])
        if bad is None and point["ic"] == "zero" and roll in rollfn and u["k"] > 1:
            # the resampled record itself is public (srs.linroll / lanroll / fftroll): the history must be the exact oscillator
            # response to it at the new rate, over the window of the resampled record
            up, sr2 = rollfn[roll](sig, float(sr), ppc, float(fmax))
            if up.shape[0] != u["M"] or sr2 != float(u["sr"]):
                bad = "%s: resampled record has %d samples at %r Hz, the index model says %d at %d" % (rollfn[roll].__name__, up.shape[0], sr2, u["M"], u["sr"])
            else:
                sh2, resp2 = srs.srs(up, sr2, freq, Q, rolloff="none", getresp=True, **kw)
                sc = max(np.abs(resp2["hist"]).max(), 1e-300)
                if resp2["hist"].shape != hist.shape or not np.abs(resp2["hist"] - hist).max() <= 1e-12 * sc:
                    bad = "history differs from the one of the hand-resampled record at the new rate with rolloff='none'"
                elif (pi + ui) % (6 * stride) == 0:
                    exp = oracle_hist(np, step_terms, up, sr2, freq, Q, point, quantity, offset, {"N": u["N"], "S": u["S"]})
                    if not np.abs(exp - hist).max() <= 1e-9 * max(np.abs(exp).max(), 1e-300):
                        bad = "history differs from the exact oscillator response to the resampled record"
        if bad:
            run.violation("srs with rolloff: " + bad, case, {"stype": point["stype"], "ic": point["ic"], "time": point["time"], "rolloff": roll})
            if len(run.violations) > 15:
                return False
        run.trace_validated()
    return True


def laws(run, np, srs, rng):
    Q = 12.0
    sr = 200.0
    for trial in range(10 if run.tier == "quick" else 120):
        n = int(rng.integers(20, 60))
        sig = rng.standard_normal((n, 3))
        freq = np.array([3.0, 9.5, 22.0, 41.0])
        w = 2 * np.pi * freq
        ic = ["zero", "shift", "mshift", "steady"][trial % 4]
        kw = dict(ic=ic, rolloff="none", parallel="no")
        run.case(("laws", trial), part="laws")
        g = lambda **k: srs.srs(sig, sr, freq, Q, **dict(kw, **k))  # noqa
        a, p, ng = g(peak="abs"), g(peak="pos"), g(peak="neg")
        if not np.array_equal(a, np.maximum(p, ng)):
            run.violation("srs law: abs = max(pos, neg)", {"trial": trial, "ic": ic}, {"law": "abs"})
        # 'pos' / 'neg' are magnitudes of the signed extreme: when every response value is negative, |max over total| is the SMALLER
        # of the two magnitudes, so the law is stated on the signed statistics ('poss': largest, 'negs': smallest) and on 'abs'
        for pk, comb in (("abs", np.maximum), ("poss", np.maximum), ("negs", np.minimum)):
            t_, pr, rs = g(peak=pk, time="total"), g(peak=pk, time="primary"), g(peak=pk, time="residual")
            if not np.array_equal(t_, comb(pr, rs)):
                run.violation("srs law: total = max(primary, residual) for peak=%s" % pk, {"trial": trial, "ic": ic}, {"law": "total"})
        rd = g(stype="reldisp")
        if not np.allclose(g(stype="pvelo"), rd * w[:, None], rtol=1e-12, atol=0) or not np.allclose(g(stype="pacce"), rd * (w ** 2)[:, None], rtol=1e-12, atol=0):
            run.violation("srs law: pvelo = w*reldisp, pacce = w^2*reldisp", {"trial": trial, "ic": ic}, {"law": "pseudo"})
        if not np.allclose(g(eqsine=True), a / Q, rtol=1e-14, atol=0):
            run.violation("srs law: eqsine = srs/Q", {"trial": trial}, {"law": "eqsine"})
        if not np.allclose(srs.srs(2.5 * sig, sr, freq, Q, **kw), 2.5 * a, rtol=1e-12, atol=0):
            run.violation("srs law: linear in the input", {"trial": trial}, {"law": "linear"})
        perm = [2, 0, 1]
        if not np.allclose(srs.srs(sig[:, perm], sr, freq, Q, **kw), a[:, perm], rtol=1e-12, atol=0):
            run.violation("srs law: column permutation", {"trial": trial}, {"law": "perm"})
        if not np.allclose(srs.srs(sig[:, 1], sr, freq, Q, **kw), a[:, 1], rtol=1e-12, atol=0) or \
                not np.allclose(srs.srs(sig[:, 1:2], sr, freq, Q, **kw)[:, 0], a[:, 1], rtol=1e-12, atol=0):
            run.violation("srs law: 1-D / 2-D packaging", {"trial": trial}, {"law": "packaging"})
        # resampling contract: prefilter never changes sr; upsampling factor only when sr/fmax < ppc
        for roll in ("lanczos", "fft", "linear", "prefilter"):
            sh, resp = srs.srs(sig, sr, np.array([5.0, 40.0]), Q, rolloff=roll, ppc=10, getresp=True, parallel="no")
            fac = int(np.ceil(10 * 40.0 / sr))
            want = sr if roll == "prefilter" else sr * fac
            if resp["sr"] != want:
                run.violation("srs resampling contract: rolloff=%s returned sr=%r, expected %r" % (roll, resp["sr"], want), {"trial": trial}, {"law": "rolloff"})
    # frequency-domain variants against their closed forms
    fd_variants(run, np, srs, rng)


def fd_variants(run, np, srs, rng):
    for trial in range(6 if run.tier == "quick" else 60):
        Q = float(rng.choice([5.0, 10.0, 25.0]))
        F = np.linspace(2.0, 200.0, 400)
        psd = rng.uniform(0.01, 0.2, F.size)
        fn = np.array([10.0, 35.0, 90.0])
        run.case(("vrs", trial), part="frequency-domain variants")
        v, miles = srs.vrs((F, psd), F, Q, linear=True, Fn=fn, getmiles=True)
        G = np.unique(np.hstack((F, fn)))
        pG = np.interp(G, F, psd)
        exp = []
        for f in fn:
            p = G / f
            t = (1 + (p / Q) ** 2) / ((1 - p ** 2) ** 2 + (p / Q) ** 2)
            y = t * pG
            exp.append(np.sqrt(np.sum((y[:-1] + y[1:]) / 2 * np.diff(G))))
        # documented: sqrt(sum_i T_i PSD_i dfreq_i); the band widths at the two ends are a quadrature detail: 1%
        if not np.allclose(v, exp, rtol=0.01):
            run.violation("vrs differs from sqrt(integral |T|^2 PSD df)", {"trial": trial, "got": np.asarray(v).tolist(), "exp": exp}, {"law": "vrs"})
        mexp = np.sqrt(np.pi / 2 * fn * Q * np.interp(fn, F, psd))
        if not np.allclose(miles, mexp, rtol=1e-9):
            run.violation("Miles estimate differs from sqrt(pi/2 fn Q PSD(fn))", {"trial": trial}, {"law": "miles"})
        # the oscillator frequencies may come in any order, on or off the PSD grid: row i belongs to Fn[i]
        for fn2 in (fn[::-1].copy(), np.array([90.0, 10.0, 35.0]), np.array([61.37, 7.77, 150.1, 33.3])):
            try:
                v2, m2 = srs.vrs((F, psd), F, Q, linear=True, Fn=fn2, getmiles=True)
            except Exception as ex:
                run.violation("vrs raised %r for unsorted Fn" % ex, {"trial": trial}, {"law": "vrs"})
                continue
            for k, f in enumerate(fn2):
                v1, m1 = srs.vrs((F, psd), F, Q, linear=True, Fn=np.array([f]), getmiles=True)
                # (the quadrature grid is the PSD grid merged with ALL of Fn, so the vrs value itself moves within the documented 1 %)
                if not (np.allclose(np.ravel(v2)[k], np.ravel(v1)[0], rtol=1e-2) and np.allclose(np.ravel(m2)[k], np.ravel(m1)[0], rtol=1e-9)):
                    run.violation("vrs / Miles row %d does not belong to Fn[%d] = %g when Fn is not ascending" % (k, k, f), {"trial": trial, "Fn": fn2.tolist()},
                                  {"law": "miles", "order": "unsorted"})
                    break
            if not np.allclose(m2, np.sqrt(np.pi / 2 * fn2 * Q * np.interp(fn2, F, psd)), rtol=1e-9):
                run.violation("Miles estimate differs from sqrt(pi/2 fn Q PSD(fn)) for unsorted / off-grid Fn", {"trial": trial, "Fn": fn2.tolist()}, {"law": "miles"})
        # srs_frf: peak response of an oscillator to a base FRF = |T(f)| * |frf| maximised over f
        frf = rng.standard_normal(F.size) + 1j * rng.standard_normal(F.size)
        sh, resp = srs.srs_frf(frf, F, fn, Q, getresp=True)
        G2 = np.asarray(resp["freq"])
        Ag = np.interp(G2, F, np.abs(frf))         # documented: |frf| interpolated to a grid that includes the system frequencies
        bad = None
        for k, f in enumerate(fn):
            p = G2 / f
            T = (1 + 1j * p / Q) / (1 - p ** 2 + 1j * p / Q)
            got = np.abs(resp["frfs"][:, 0, k])
            if not np.allclose(got, np.abs(T) * Ag, rtol=1e-9, atol=0):
                bad = "response FRF differs from H(p) |frf| with H = (1 + j p/Q)/(1 - p^2 + j p/Q)"
            if not np.isclose(np.ravel(sh)[k], got.max(), rtol=1e-12):
                bad = "srs_frf value is not the peak of |response FRF|"
        if bad:
            run.violation("srs_frf: " + bad, {"trial": trial}, {"law": "srs_frf"})

if __name__ == "__main__":
    main("C03", "exploration", body)
