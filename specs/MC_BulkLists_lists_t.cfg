CONSTANTS
  MaxN = 13
  Mode = "lists"
  Export = TRUE
  Big = TRUE
INIT Init
NEXT Next
INVARIANT ListLaws
INVARIANT DmigLaws
INVARIANT ExportLists
INVARIANT ExportDmig
