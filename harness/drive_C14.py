"""C14: coordinate systems and rigid-body geometry are mutually consistent.

specs/CoordSys.tla: every chain topology of K = 3 coordinate systems (type rectangular / cylindrical / spherical, reference
= basic or an earlier system: 162 topologies) with T(k), O(k) exported as terms over the A, B, C point symbols, and the
type-generic definitions Rect / Basic / Frame (displacement frame from geometry alone) / rigid-body rows.  The driver
instantiates every topology with seeded points, builds the systems in pyYeti three ways (build_coords, nested 4x3 cards
through addgrid, by id from a USET table) and checks, for grids entered in every system and output in every system:
coordinfo = (O, T); basic location; getcoordinates in EVERY system maps back to the same basic point; rbgeom_uset rows =
the rigid-body rows of the spec; blockdiag(G) rb = rbgeom; rbmove; rbcoords; formrbe3 reproduces rigid motion;
replace_basic_cs moves the model rigidly; scalar points and q-set grids stay zero."""
import json
import warnings

from . import tlc, terms
from .runner import main, Run


def scan_part(run, np, n2p, scans, rng):
    """growth: find_xyz_triples on every layout word of the spec (T = translation rows of a grid in its own frame and scale, R = rotation
    rows, Z = a row of no grid): marked rows, locations, scales, transforms and transformed matrices"""
    spec = "CoordSys.ScanLaws"
    for w, rows, marked in scans:
        w = list(w)
        marked = sorted(int(j) - 1 for j in marked)
        grids = {}
        M = np.zeros((len(rows), 6))
        for ri, (k, idx) in enumerate(rows):
            k, idx = int(k), int(idx)
            if k not in grids:
                Q, _ = np.linalg.qr(rng.standard_normal((3, 3)))
                grids[k] = dict(x=np.round(rng.uniform(-20, 20, 3), 2), G=Q, s=float(rng.choice([1.0, 0.00259, 10.0, 386.1])),
                                z=rng.standard_normal(6) * (ri % 2))
            g = grids[k]
            x, y, z = g["x"]
            if w[k - 1] == "T":
                M[ri] = (g["s"] * g["G"] @ np.array([[1, 0, 0, 0, z, -y], [0, 1, 0, -z, 0, x], [0, 0, 1, y, -x, 0.0]]))[idx - 1]
            elif w[k - 1] == "R":
                M[ri] = np.hstack((np.zeros(3), g["G"][idx - 1]))
            else:
                M[ri] = g["z"]                       # a zero row or an arbitrary row
        case = {"word": "".join(w), "matrix": M.tolist()}
        run.case(("scan", "".join(w)), nontrivial="T" in w and len(set(w)) > 1, part="find_xyz_triples (growth)")
        try:
            tr = n2p.find_xyz_triples(M.copy(), get_trans=True, mats={"m": M.copy()})
            got = [int(i) for i in np.nonzero(tr.pv)[0]]
            if got != marked:
                run.deviation(spec, "find_xyz_triples marks rows %r, the layout has its translation rows at %r" % (got, marked), case)
                continue
            ok = True
            tks = [k for k in sorted(grids) if w[k - 1] == "T"]
            for ti_, k in enumerate(tks):
                g = grids[k]
                rws = [ri for ri, (kk, _i) in enumerate(rows) if int(kk) == k]
                x, y, z = g["x"]
                unit = np.array([[1, 0, 0, 0, z, -y], [0, 1, 0, -z, 0, x], [0, 0, 1, y, -x, 0.0]])
                ok = ok and np.allclose(tr.coords[rws], g["x"], atol=1e-9 * 20) and np.allclose(tr.scales[rws], g["s"], rtol=1e-12) \
                    and np.allclose(tr.Ts[ti_], g["G"].T / g["s"], atol=1e-12 / g["s"]) and np.allclose(tr.outmats["m"][rws], unit, atol=1e-9 * 20)
            rest = [ri for ri in range(len(rows)) if ri not in marked]
            ok = ok and len(tr.Ts) == len(tks) and np.isnan(tr.coords[rest]).all() and np.isnan(tr.scales[rest]).all() \
                and np.array_equal(tr.outmats["m"][rest], M[rest])
            if not ok:
                run.deviation(spec, "find_xyz_triples: locations / scales / transforms / transformed rows differ from the grids the matrix was made of", case)
        except Exception as ex:
            run.deviation(spec, "find_xyz_triples raised %r" % ex, case)
        run.trace_validated()


def body(run: Run, replay):
    import numpy as np
    import pandas as pd
    import mpmath as mp
    warnings.simplefilter("ignore")
    from pyyeti.nastran import n2p
    mp.mp.dps = 30
    quick = run.tier == "quick"
    run.rule = ("all 162 chain topologies of 3 coordinate systems x (input system, output system) pairs of a grid (quick: 5 grids per "
                "topology covering every system as input and output; thorough: all 16 pairs x 2 point sets): coordinfo, basic location, "
                "getcoordinates round trip through every system, rigid-body rows (reference = xyz and = grid id), rbgeom / rbmove / "
                "rbcoords / formrbe3 / replace_basic_cs laws, scalar points and q-set grids. distinct non-trivial = (topology, grid) cases")
    run.assumptions = ["locations away from the polar singularities (r > 0, 20 < theta < 160 deg for spherical), as the statement says",
                       "terms evaluated with mpmath at 30 digits; tolerance 1e-9 of the model size",
                       "trusted: TLC, mpmath, the generic term evaluator"]
    res = tlc.run("CoordSys", "MC_CoordSys.cfg", timeout=600)
    run.add_tlc("MC_CoordSys.cfg", res, "162 topologies, WellFounded, term export")
    if res.violation:
        run.violation("TLC: %s on the CoordSys model" % res.violation, {"tlc": res.error_text()}, {"where": "model"})
        return
    gen, rbt = res.tagged("GENERIC")[0]
    gen = {int(k): v for k, v in gen.items()} if isinstance(gen, dict) else {i + 1: v for i, v in enumerate(gen)}
    topos = res.tagged("TOPO")
    um_choices = sorted((tuple(tuple(b_) for b_ in m_), tuple(tuple(b_) for b_ in r_)) for m_, r_ in (res.tagged("UM")[0][0] if res.tagged("UM") else []))
    if res.tagged("SCAN"):
        scan_part(run, np, n2p, sorted((tuple(w_), tuple(tuple(r_) for r_ in rows_), tuple(sorted(m_))) for w_, rows_, m_ in res.tagged("SCAN")[0][0]),
                  np.random.default_rng(run.seed + 77))
    rng = np.random.default_rng(run.seed + 14)
    K = 3

    def f2n(M):
        return np.array([[float(M[i, j]) for j in range(M.cols)] for i in range(M.rows)])

    def randpoint(ctype, scale=10.0):
        """a point in coordinates of a system of the type, away from the singular lines"""
        if ctype == 1:
            return rng.uniform(-scale, scale, 3)
        if ctype == 2:
            return np.array([rng.uniform(0.3, 1.0) * scale, rng.uniform(-175, 175), rng.uniform(-scale, scale)])
        return np.array([rng.uniform(0.3, 1.0) * scale, rng.uniform(20, 160), rng.uniform(-175, 175)])

    def close(a, b, tol=1e-9, scale=1.0):
        a = np.asarray(a, float)
        b = np.asarray(b, float)
        return a.shape == b.shape and np.abs(a - b).max() <= tol * max(scale, 1.0)

    for ti, (types, refs, chain, pairs) in enumerate(topos):
        typ = {0: 1}
        ref = {}
        for k in range(1, K + 1):
            typ[k] = types[k - 1]
            ref[k] = refs[k - 1]
        # seeded A, B, C points (in the coordinates of the reference system)
        env = {}
        cards = {}
        for k in range(1, K + 1):
            while True:
                A, B, C = (randpoint(typ[ref[k]]) for _ in range(3))
                env.update({"A%d" % k: mp.matrix(A.tolist()), "B%d" % k: mp.matrix(B.tolist()), "C%d" % k: mp.matrix(C.tolist())})
                # well-posed axes: B - A and C - A not (nearly) parallel, in rectangular components of the reference system
                a_, b_, c_ = (f2n(terms.evm(gen[typ[ref[k]]]["rect"], {"p": mp.matrix(P.tolist())}, mp)).ravel() for P in (A, B, C))
                cr = np.cross(b_ - a_, c_ - a_)
                if np.linalg.norm(cr) > 0.2 * np.linalg.norm(b_ - a_) * np.linalg.norm(c_ - a_) and np.linalg.norm(b_ - a_) > 1.0:
                    break
            cards[k] = np.array([[10 * k, typ[k], 10 * ref[k]], A, B, C])
        # spec side
        Tm = {0: np.eye(3)}
        Og = {0: np.zeros(3)}
        Tmp = {0: mp.eye(3)}
        Ogp = {0: mp.matrix([0, 0, 0])}
        memo = {}
        for k in range(1, K + 1):
            Tmp[k] = terms.evm(chain[k - 1][0], env, mp, memo)
            Ogp[k] = terms.evm(chain[k - 1][1], env, mp, memo)
            Tm[k] = f2n(Tmp[k])
            Og[k] = f2n(Ogp[k]).ravel()
        tags0 = {"types": types, "refs": refs}
        scale = 40.0
        # ---- build the systems three ways
        try:
            cr_tab = n2p.build_coords(np.array([np.r_[cards[k][0], cards[k][1], cards[k][2], cards[k][3]] for k in (3, 1, 2)]))
        except Exception as ex:
            run.violation("build_coords raised %r" % ex, {"types": types, "refs": refs}, dict(tags0, fn="build_coords"))
            continue
        for k in range(1, K + 1):
            run.case(("coordinfo", ti, k), part="coordinate systems = (O, T) of the definition")
            ci = cr_tab[10 * k]
            if not (ci[0, 0] == 10 * k and ci[0, 1] == typ[k] and close(ci[1], Og[k], 1e-9, scale) and close(ci[2:], Tm[k], 1e-10)):
                run.violation("build_coords: system %d (type %d, reference %d) differs from the A-B-C definition through its reference chain (origin %s vs %s)" % (
                    k, typ[k], ref[k], ci[1].tolist(), Og[k].tolist()), {"types": types, "refs": refs, "cards": {str(j): cards[j] for j in cards}}, dict(tags0, fn="build_coords"))
            if not close(ci[2:] @ ci[2:].T, np.eye(3), 1e-12):
                run.violation("coordinate transform of system %d is not orthonormal" % k, {"types": types}, dict(tags0, fn="build_coords"))
        # grid cases
        allpairs = [tuple(p) for p in pairs]
        if quick:
            sel = [(0, 0)] + [(k, (k + ti) % (K + 1)) for k in range(1, K + 1)] + [((2 * ti) % (K + 1), 3 - (ti % 3))]
            allpairs = sorted(set(sel))
        gids, cins, couts, pts = [], [], [], []
        for n_, (ci_, co_) in enumerate(allpairs * (1 if quick else 5)):
            cins.append(ci_)
            couts.append(co_)
            pts.append(randpoint(typ[ci_], 8.0))
        # grids ON the coordinate planes of their own cylindrical / spherical output system (theta or phi = 0, +-90, +-180 exactly):
        # the rotation by the grid's own angles has its sign changes there
        special = {2: [(5.0, 180.0, 1.5), (3.0, -180.0, -2.0), (4.0, 0.0, 1.0), (2.5, 90.0, 0.0), (6.0, -90.0, 2.0)],
                   3: [(5.0, 90.0, 180.0), (3.0, 60.0, -180.0), (4.0, 90.0, 0.0), (2.5, 30.0, 90.0), (6.0, 120.0, -90.0)]}
        for k in range(1, K + 1):
            if typ[k] in special:
                for j_ in range(2 if quick else 5):
                    cins.append(k)
                    couts.append(k)
                    pts.append(np.array(special[typ[k]][(ti + j_ + k) % 5]))
        # grid ids are NOT in ascending order in the table (tables assembled from several sources)
        idpool = list(rng.permutation(np.arange(101, 101 + 3 * len(cins)))[: len(cins)])
        gids = [int(x) for x in idpool]
        cid = lambda k: 10 * k  # noqa
        try:
            uset = n2p.addgrid(None, gids, "b", [cid(k) for k in cins], pts, [cid(k) for k in couts], cr_tab)
            # the same model through nested 4x3 cards, one grid per call, no prebuilt table (systems found in the growing USET table)
            uset2 = None
            for k in range(1, K + 1):  # a carrier grid per system: later cards find their reference system by id in the table
                uset2 = n2p.addgrid(uset2, 900 + k, "b", 0, [0.0, 0.0, 0.0], cards[k])
            for g, ci_, p_, co_ in zip(gids, cins, pts, couts):
                uset2 = n2p.addgrid(uset2, g, "b", cid(ci_), p_, cid(co_))
        except Exception as ex:
            run.violation("addgrid raised %r" % ex, {"types": types, "refs": refs}, dict(tags0, fn="addgrid"))
            continue
        sub2 = uset2.loc[gids]
        if not np.allclose(sub2.values, uset.values, rtol=0, atol=1e-9 * scale):
            run.violation("addgrid: building the systems from nested cards found in the USET table gives a different table than build_coords",
                          {"types": types, "refs": refs}, dict(tags0, fn="addgrid"))
        # scalar point and a q-set grid in the table
        sp = n2p.make_uset([[5001, 0]], "q")
        qg = n2p.addgrid(None, 6001, "q", 0, [1.0, 2.0, 3.0], 0)
        full = pd.concat([uset, sp, qg], axis=0)
        x0 = rng.uniform(-5, 5, 3)
        if ti % 3 == 1:
            x0[ti % 2] = 0.0                 # reference points ON a coordinate plane / axis of basic
        elif ti % 3 == 2:
            x0[:2] = 0.0
        try:
            rb = n2p.rbgeom_uset(full, x0)
            rb_g = n2p.rbgeom_uset(full, gids[0])
        except Exception as ex:
            run.violation("rbgeom_uset raised %r" % ex, {"types": types, "refs": refs}, dict(tags0, fn="rbgeom_uset"))
            continue
        if np.abs(rb[6 * len(gids):]).max() != 0:
            run.violation("rbgeom_uset: scalar point / q-set grid rows are not zero", {"types": types}, dict(tags0, fn="rbgeom_uset"))
        xb = []
        Gs = []
        for n_, (g, ci_, p_, co_) in enumerate(zip(gids, cins, pts, couts)):
            run.case(("grid", ti, ci_, co_, n_), part="grid location / round trip / rigid-body rows")
            tags = dict(tags0, cin=typ[ci_], cout=typ[co_], fn="grid")
            e = {"O": Ogp[ci_], "T": Tmp[ci_], "p": mp.matrix(p_.tolist())}
            xw = terms.evm(gen[typ[ci_]]["basic"], e, mp)
            xwn = f2n(xw).ravel()
            rows = uset.loc[g].values[:, 1:]
            xb.append(xwn)
            if not close(rows[0], xwn, 1e-9, scale):
                run.violation("addgrid: basic location of a grid entered in a type-%d system (chain depth %d) is %s, definition gives %s" % (
                    typ[ci_], chain[ci_ - 1][2] if ci_ else 0, rows[0].tolist(), xwn.tolist()), {"types": types, "refs": refs, "p": p_}, tags)
                Gs.append(None)
                continue
            if not (rows[1, 0] == cid(co_) and rows[1, 1] == typ[co_] and close(rows[2], Og[co_], 1e-9, scale) and close(rows[3:], Tm[co_], 1e-10)):
                run.violation("addgrid: output coordinate system rows of the grid are not (id, type, O, T) of system %d" % co_, {"types": types}, tags)
            # query back in EVERY system: same geometric point
            for kq in range(0, K + 1):
                try:
                    pq = np.asarray(n2p.getcoordinates(uset, g, cid(kq), cr_tab), float)
                    pq_loc = np.asarray(n2p.getcoordinates(uset, np.array([rows[0]]), cid(kq), cr_tab), float)
                except Exception as ex:
                    run.violation("getcoordinates raised %r" % ex, {"types": types, "sys": kq}, dict(tags, fn="getcoordinates"))
                    continue
                back = f2n(terms.evm(gen[typ[kq]]["basic"], {"O": Ogp[kq], "T": Tmp[kq], "p": mp.matrix(pq.tolist())}, mp)).ravel()
                if not close(back, xwn, 1e-9, scale):
                    run.violation("getcoordinates: coordinates %s in the type-%d system %d are not the grid's point (maps to %s, grid at %s)" % (
                        pq.tolist(), typ[kq], kq, back.tolist(), xwn.tolist()), {"types": types, "refs": refs}, dict(tags, fn="getcoordinates", qtype=typ[kq]))
                if not close(pq_loc, pq, 1e-9, scale):
                    run.violation("getcoordinates: [x, y, z] location input differs from the grid-id input", {"types": types}, dict(tags, fn="getcoordinates"))
                if kq == ci_:
                    d = pq - p_
                    if typ[kq] >= 2:
                        d[1:] = (d[1:] + 180.0) % 360.0 - 180.0 if typ[kq] == 3 else np.r_[(d[1] + 180.0) % 360.0 - 180.0, d[2]]
                    if np.abs(d).max() > 1e-8 * scale:
                        run.violation("getcoordinates in the definition system returns %s, entered %s" % (pq.tolist(), p_.tolist()), {"types": types}, dict(tags, fn="getcoordinates"))
            # rigid-body rows
            G = terms.evm(gen[typ[co_]]["frame"], {"O": Ogp[co_], "T": Tmp[co_], "x": xw}, mp)
            Gs.append(f2n(G))
            for refname, rbm, x0p in (("xyz", rb, mp.matrix(x0.tolist())), ("grid id", rb_g, None)):
                if x0p is None:
                    x0p = terms.evm(gen[typ[cins[0]]]["basic"], {"O": Ogp[cins[0]], "T": Tmp[cins[0]], "p": mp.matrix(pts[0].tolist())}, mp)
                e2 = {"G": G, "x": xw, "x0": x0p}
                TT = f2n(terms.evm(rbt["tt"], e2, mp))
                TR = f2n(terms.evm(rbt["tr"], e2, mp))
                want = np.block([[TT, TR], [np.zeros((3, 3)), TT]])
                got = rbm[6 * n_: 6 * n_ + 6]
                if not close(got, want, 1e-9, scale):
                    run.violation("rbgeom_uset (reference = %s): rows of a grid output in a type-%d system are not a rigid motion expressed in the grid's own displacement frame (max dev %.3g)" % (
                        refname, typ[co_], np.abs(got - want).max()), {"types": types, "refs": refs, "p": p_, "cin": ci_, "cout": co_}, dict(tags, fn="rbgeom_uset"))
            run.trace_validated()
        if any(g is None for g in Gs):
            continue
        # ---- laws on the whole table
        ng = len(gids)
        xb = np.array(xb)
        run.case(("laws", ti), part="rbgeom / rbmove / rbcoords / formrbe3 / replace_basic_cs laws")
        big = np.zeros((6 * ng, 6 * ng))
        for n_, G in enumerate(Gs):
            big[6 * n_: 6 * n_ + 3, 6 * n_: 6 * n_ + 3] = G
            big[6 * n_ + 3: 6 * n_ + 6, 6 * n_ + 3: 6 * n_ + 6] = G
        rbu = rb[: 6 * ng]
        if not close(big @ rbu, n2p.rbgeom(xb, x0), 1e-9, scale):
            run.violation("rbgeom_uset transformed to basic differs from geometry-only rbgeom", {"types": types}, dict(tags0, fn="rbgeom"))
        x1 = rng.uniform(-5, 5, 3)
        if not close(n2p.rbmove(rbu, x0, x1), n2p.rbgeom_uset(uset, x1), 1e-9, scale):
            run.violation("rbmove(rb, a, b) differs from rigid-body modes recomputed about b", {"types": types}, dict(tags0, fn="rbmove"))
        # rbcoords: locations (relative to the reference, in the reference's = basic frame)
        co, mxdev, mxerr = n2p.rbcoords(rbu, verbose=0)
        if not close(co, xb - x0, 1e-8, scale) or mxdev > 1e-8 * scale:
            run.violation("rbcoords does not recover the grid locations from rigid-body modes in local frames (max dev %.3g)" % np.abs(co - (xb - x0)).max(),
                          {"types": types}, dict(tags0, fn="rbcoords"))
        # formrbe3: dependent grid = last, independents = the others (translations of all; rotations of one; weights)
        if ng >= 4:
            dep = gids[-1]
            ind = gids[:-1]
            w1, w2 = float(rng.uniform(0.5, 3.0)), float(rng.uniform(0.5, 3.0))
            for il in ([123, ind], [[123, w1], ind[:2], [123456, w2], ind[2:]], [123456, ind[:1], 12, ind[1:]]):
                try:
                    R = n2p.formrbe3(full, dep, 123456, il)
                except Exception as ex:
                    run.violation("formrbe3 raised %r" % ex, {"types": types, "ind": str(il)}, dict(tags0, fn="formrbe3"))
                    continue
                # rows = dependent DOF (uset order), columns = independent DOF (uset order)
                idof = []
                for j in range(0, len(il), 2):
                    dd = np.atleast_1d(il[j])[0]
                    for gi in np.atleast_1d(il[j + 1]):
                        idof += [(int(gi), int(ch)) for ch in str(int(dd))]
                idof = sorted(set(idof), key=lambda t_: (gids.index(t_[0]), t_[1]))
                rows_ = [6 * gids.index(g_) + d_ - 1 for g_, d_ in idof]
                rbd = n2p.rbgeom_uset(uset, dep)
                lhs = R @ rbd[rows_]
                rhs = rbd[6 * (ng - 1): 6 * ng]
                # statically determinate or over-determined selections only
                if np.linalg.matrix_rank(rbd[rows_], tol=1e-8) == 6 and not close(lhs, rhs, 1e-8, scale):
                    run.violation("formrbe3: rigid-body motion of the independent grids is not reproduced at the dependent grid (max dev %.3g)" % np.abs(lhs - rhs).max(),
                                  {"types": types, "ind": str(il)}, dict(tags0, fn="formrbe3"))
        # growth: formrbe3 with a re-assigned m-set (UM option).  The spec enumerates every m-set of two DOF blocks among the dependent
        # grid's translations / rotations and the translations of three independent grids; the matrix must state the same constraint
        if ng >= 4 and um_choices:
            import warnings as _w
            dep, ind3 = gids[-1], gids[:3]
            gmap = {0: dep, 1: ind3[0], 2: ind3[1], 3: ind3[2]}
            try:
                il_um = [123456, ind3[:1], 123, ind3[1:]]
                R0 = n2p.formrbe3(full, dep, 123456, il_um)
            except Exception:
                R0 = None
            dof_of = lambda blk: [(gmap[blk[0]], d_) for d_ in ((1, 2, 3) if blk[1] == "t" else (4, 5, 6))]
            for Mseq, Rseq in (um_choices if R0 is not None else []):
                mdof = [x for blk in Mseq for x in dof_of(blk)]
                rdof = [x for blk in Rseq for x in dof_of(blk)]
                ddof = [(dep, d_) for d_ in range(1, 7)]
                idof_ = [(ind3[0], d_) for d_ in range(1, 7)] + [(g_, d_) for g_ in ind3[1:] for d_ in (1, 2, 3)]
                # constraint [I, -R0] on [u_dep; u_ind]: the m-set columns must be invertible (documented: choose a non-singular m-set)
                Cfull = np.hstack((np.eye(6), -R0))
                alld = ddof + idof_
                Cm = Cfull[:, [alld.index(x) for x in mdof]]
                if np.linalg.cond(Cm) > 1e4:
                    continue
                um = []
                for blk in Mseq:
                    if um and um[-2] == gmap[blk[0]]:
                        um[-1] = 123456
                    else:
                        um += [gmap[blk[0]], 123 if blk[1] == "t" else 456]
                ucase = {"types": types, "m_set": str(um)}
                run.case(("um", ti, str(um)), part="formrbe3 UM (growth)")
                try:
                    with _w.catch_warnings():
                        _w.simplefilter("ignore")
                        Rm = n2p.formrbe3(full, dep, 123456, il_um, um)
                    ui = rng.standard_normal((12, 4))
                    val = dict(zip(idof_, ui))
                    val.update(zip(ddof, R0 @ ui))
                    lhs = np.array([val[x] for x in mdof])
                    rhs = Rm @ np.array([val[x] for x in rdof])
                    if Rm.shape != (6, 12) or not close(lhs, rhs, 1e-7 * np.linalg.cond(Cm), max(1.0, np.abs(lhs).max())):
                        run.deviation("CoordSys.UmLaws", "formrbe3 with UM_List does not state the constraint of the plain element (rows = m-set, columns = the other DOF, table order)", ucase)
                except Exception as ex:
                    run.deviation("CoordSys.UmLaws", "formrbe3 with UM_List raised %r on an invertible m-set" % ex, ucase)
        # replace_basic_cs: the model moves rigidly
        newcs = np.array([[77, 1, 0], rng.uniform(-5, 5, 3), rng.uniform(-5, 5, 3) + 8, rng.uniform(-5, 5, 3) - 8])
        try:
            un = n2p.replace_basic_cs(uset, newcs)
        except Exception as ex:
            run.violation("replace_basic_cs raised %r" % ex, {"types": types}, dict(tags0, fn="replace_basic_cs"))
            continue
        xn = un.values[::6, 1:]
        Tn = [un.values[6 * n_ + 3: 6 * n_ + 6, 1:] for n_ in range(ng)]
        To = [uset.values[6 * n_ + 3: 6 * n_ + 6, 1:] for n_ in range(ng)]
        dist_o = np.linalg.norm(xb[:, None, :] - xb[None, :, :], axis=2)
        dist_n = np.linalg.norm(xn[:, None, :] - xn[None, :, :], axis=2)
        ok = close(dist_n, dist_o, 1e-9, scale) and all(close(Tn[0].T @ Tn[j], To[0].T @ To[j], 1e-10) for j in range(ng))
        # handedness and the new origin: the old basic origin maps to point A
        un0 = n2p.replace_basic_cs(n2p.addgrid(None, 1, "b", 0, [0.0, 0.0, 0.0], 0), newcs)
        ok = ok and close(un0.values[0, 1:], newcs[1], 1e-12, scale) and abs(np.linalg.det(un0.values[3:6, 1:]) - 1) < 1e-10
        # rigid-body modes of the moved model are the old ones seen from the moved reference point
        Tnew = un0.values[3:6, 1:]
        x0n = Tnew @ x0 + newcs[1]
        rbn = n2p.rbgeom_uset(un, x0n)
        rot = np.zeros((6, 6))
        rot[:3, :3] = Tnew
        rot[3:, 3:] = Tnew
        ok2 = close(rbn @ rot, rbu, 1e-9, scale)
        # the new system IS the old basic system: coordinates in it are the old basic locations, for every grid, and grids that were
        # output in the old basic now carry (id, rectangular, origin A, T) of the new system
        ok3 = True
        if any(co_ == 0 for co_ in couts):
            try:
                for n_, g in enumerate(gids):
                    if not close(n2p.getcoordinates(un, g, 77), xb[n_], 1e-9, scale):
                        ok3 = False
            except Exception as ex:
                run.violation("getcoordinates in the inserted system raised %r after replace_basic_cs" % ex, {"types": types}, dict(tags0, fn="replace_basic_cs"))
            for n_, co_ in enumerate(couts):
                if co_ == 0:
                    rows = un.values[6 * n_ + 1: 6 * n_ + 6, 1:]
                    if not (rows[0, 0] == 77 and rows[0, 1] == 1 and close(rows[1], newcs[1], 1e-12, scale) and close(rows[2:], Tnew, 1e-12)):
                        ok3 = False
        if not ok3:
            run.violation("replace_basic_cs: the inserted system does not describe the old basic system (coordinates in it / its rows in the table)",
                          {"types": types, "refs": refs, "newcs": newcs}, dict(tags0, fn="replace_basic_cs", clause="inserted-system"))
        if not ok or not ok2:
            run.violation("replace_basic_cs does not move the model rigidly (distances / relative orientations / rigid-body modes about the moved point)",
                          {"types": types, "refs": refs, "newcs": newcs}, dict(tags0, fn="replace_basic_cs"))
        run.trace_validated()


if __name__ == "__main__":
    main("C14", "exploration", body)
