"""Build / load artefacts from the working tree under VERIF_REPO (never from installed copies)."""
import importlib.util
import os
import re
import shutil
import subprocess
import sys
import sysconfig
import tempfile
import atexit

from .runner import REPO

_tmpdirs = []


def _cleanup():
    for d in _tmpdirs:
        shutil.rmtree(d, ignore_errors=True)


atexit.register(_cleanup)


def build_c_rain(two_pass=False):
    """Compile pyyeti/rainflow/c_rain.c from the working tree; returns the loaded module.
    two_pass=True drops the USE_FASTER_RAINFLOW_ROUTINE define (the variant behind the macro)."""
    import numpy

    src = os.path.join(REPO, "pyyeti", "rainflow", "c_rain.c")
    d = tempfile.mkdtemp(prefix="crain_")
    _tmpdirs.append(d)
    name = "c_rain"
    text = open(src).read()
    if two_pass:
        text2 = re.sub(r"^#define USE_FASTER_RAINFLOW_ROUTINE\s*$", "", text, flags=re.M)
        if text2 == text:
            return None       # the source no longer has a second variant behind this macro
        text = text2
    csrc = os.path.join(d, "c_rain.c")
    with open(csrc, "w") as f:
        f.write(text)
    so = os.path.join(d, "c_rain" + sysconfig.get_config_var("EXT_SUFFIX"))
    cmd = ["gcc", "-O2", "-shared", "-fPIC", "-I", sysconfig.get_paths()["include"], "-I", numpy.get_include(),
           csrc, "-o", so, "-lm"]
    p = subprocess.run(cmd, stdout=subprocess.PIPE, stderr=subprocess.STDOUT, text=True)
    if p.returncode != 0:
        raise RuntimeError("c_rain.c failed to compile:\n" + p.stdout)
    spec = importlib.util.spec_from_file_location(name, so)
    mod = importlib.util.module_from_spec(spec)
    spec.loader.exec_module(mod)
    return mod


def install_c_rain():
    """Compile c_rain from the working tree and make it THE pyyeti.rainflow.c_rain for this process
    (so pyyeti.cyclecount / fdepsd use the working-tree C code rather than a stale .so)."""
    mod = build_c_rain()
    import pyyeti.rainflow  # noqa

    sys.modules["pyyeti.rainflow.c_rain"] = mod
    import pyyeti.rainflow as pr

    pr.c_rain = mod
    return mod
