CONSTANTS
  Export = TRUE
  MaxCalls = 3
SPECIFICATION Spec
PROPERTY Immutable
INVARIANT DomainIsParity
INVARIANT DerivationExtendsSource
INVARIANT CallsConsistent
INVARIANT Alternates
INVARIANT ExportHist
CHECK_DEADLOCK FALSE
