CONSTANTS
  NR = 2
  NC = 1
  NV = 1
  WPV = 1
  CPLX = 2
  Ascii = FALSE
  PerLine = 3
  RowOffset = 65534
  WriterOnly = FALSE
  Export = TRUE
INIT Init
NEXT Next
INVARIANT DecodeIsIdentity
INVARIANT LayoutRecognised
INVARIANT SkipExact
INVARIANT FieldRanges
INVARIANT ExportOK
