CONSTANTS
  MaxCalls = 3
  Export = TRUE
  HasF = TRUE
  HasG = TRUE
  HasX = TRUE
SPECIFICATION Spec
INVARIANT NoStaleRead
INVARIANT CoefImmutable
INVARIANT ExportHist
