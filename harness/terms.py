"""Generic evaluator for the symbolic terms exported by TLC (binding S).

A term is a nested list  [op, arg, ...]  exactly as TLC prints a tuple <<op, arg, ...>>.
This module knows nothing about pyYeti and contains no formula of any property: it only gives
meaning to the constructors.  Two back ends: numpy (float64 / complex128) and mpmath (50 digits).

constructors
  ["var", name]            environment lookup
  ["one"] ["num", n] ["rat", n, d]   constants
  ["add", a, b, ...] ["sub", a, b] ["neg", a] ["mul", a, b, ...] ["div", a, b]
  ["matmul", A, x]  ["solve", A, b]  ["zero", x] (zeros shaped like x)
  ["exp", a] ["sqrt", a] ["sin", a] ["cos", a] ["sinh", a] ["cosh", a] ["pow", a, n] ["abs", a]
  ["re", a] ["im", a] ["conj", a] ["I"]
"""
import numpy as np


def _as(x):
    return x


def ev(t, env, memo=None):
    """numpy evaluation"""
    if memo is None:
        memo = {}
    key = id(t)
    if key in memo:
        return memo[key]
    op = t[0]
    if op == "var":
        r = env[t[1]]
    elif op == "one":
        r = 1.0
    elif op == "num":
        r = float(t[1])
    elif op == "rat":
        r = t[1] / t[2]
    elif op == "I":
        r = 1j
    elif op == "add":
        r = ev(t[1], env, memo)
        for u in t[2:]:
            r = r + ev(u, env, memo)
    elif op == "sub":
        r = ev(t[1], env, memo) - ev(t[2], env, memo)
    elif op == "neg":
        r = -ev(t[1], env, memo)
    elif op == "mul":
        r = ev(t[1], env, memo)
        for u in t[2:]:
            r = r * ev(u, env, memo)
    elif op == "div":
        r = ev(t[1], env, memo) / ev(t[2], env, memo)
    elif op == "matmul":
        A = ev(t[1], env, memo)
        x = ev(t[2], env, memo)
        r = (A[:, None] * x if x.ndim == 2 else A * x) if getattr(A, "ndim", 2) == 1 else A @ x
    elif op == "solve":
        A = ev(t[1], env, memo)
        b = ev(t[2], env, memo)
        if getattr(A, "ndim", 2) == 1:
            r = b / (A[:, None] if b.ndim == 2 else A)
        else:
            r = np.linalg.solve(A, b)
    elif op == "zero":
        r = np.zeros_like(ev(t[1], env, memo))
    elif op == "eye":
        r = np.eye(ev(t[1], env, memo).shape[0])
    elif op == "tr":
        r = np.asarray(ev(t[1], env, memo)).T
    elif op == "blk":                             # ["blk", nrows, ncols, t11, t12, ...] block matrix, row major
        nr, nc = int(t[1]), int(t[2])
        bl = [np.atleast_2d(ev(u, env, memo)) for u in t[3:]]
        r = np.block([[bl[i * nc + j] for j in range(nc)] for i in range(nr)])
    elif op == "min":
        r = ev(t[1], env, memo)
        for u in t[2:]:
            r = np.minimum(r, ev(u, env, memo))
    elif op == "max":
        r = ev(t[1], env, memo)
        for u in t[2:]:
            r = np.maximum(r, ev(u, env, memo))
    elif op == "log":
        r = np.log(ev(t[1], env, memo))
    elif op == "tan":
        r = np.tan(ev(t[1], env, memo))
    elif op == "exp":
        r = np.exp(ev(t[1], env, memo))
    elif op == "sqrt":
        r = np.sqrt(ev(t[1], env, memo))
    elif op == "sin":
        r = np.sin(ev(t[1], env, memo))
    elif op == "cos":
        r = np.cos(ev(t[1], env, memo))
    elif op == "sinh":
        r = np.sinh(ev(t[1], env, memo))
    elif op == "cosh":
        r = np.cosh(ev(t[1], env, memo))
    elif op == "pow":
        r = ev(t[1], env, memo) ** ev(t[2], env, memo)
    elif op == "abs":
        r = np.abs(ev(t[1], env, memo))
    elif op == "re":
        r = np.real(ev(t[1], env, memo))
    elif op == "im":
        r = np.imag(ev(t[1], env, memo))
    elif op == "conj":
        r = np.conj(ev(t[1], env, memo))
    else:
        raise ValueError("unknown term constructor %r" % (op,))
    memo[key] = r
    return r


def evmp(t, env, mp, memo=None):
    """mpmath scalar evaluation (env values are mp numbers)"""
    if memo is None:
        memo = {}
    key = id(t)
    if key in memo:
        return memo[key]
    op = t[0]
    f = lambda u: evmp(u, env, mp, memo)  # noqa
    if op == "var":
        r = env[t[1]]
    elif op == "one":
        r = mp.mpf(1)
    elif op == "num":
        r = mp.mpf(t[1])
    elif op == "rat":
        r = mp.mpf(t[1]) / mp.mpf(t[2])
    elif op == "I":
        r = mp.mpc(0, 1)
    elif op == "add":
        r = f(t[1])
        for u in t[2:]:
            r = r + f(u)
    elif op == "sub":
        r = f(t[1]) - f(t[2])
    elif op == "neg":
        r = -f(t[1])
    elif op == "mul":
        r = f(t[1])
        for u in t[2:]:
            r = r * f(u)
    elif op == "div":
        r = f(t[1]) / f(t[2])
    elif op == "exp":
        r = mp.exp(f(t[1]))
    elif op == "sqrt":
        r = mp.sqrt(f(t[1]))
    elif op == "sin":
        r = mp.sin(f(t[1]))
    elif op == "cos":
        r = mp.cos(f(t[1]))
    elif op == "sinh":
        r = mp.sinh(f(t[1]))
    elif op == "cosh":
        r = mp.cosh(f(t[1]))
    elif op == "pow":
        r = f(t[1]) ** f(t[2])
    elif op == "abs":
        r = abs(f(t[1]))
    elif op == "re":
        r = mp.re(f(t[1]))
    elif op == "im":
        r = mp.im(f(t[1]))
    elif op == "conj":
        r = mp.conj(f(t[1]))
    else:
        raise ValueError("unknown term constructor %r" % (op,))
    memo[key] = r
    return r


def evm(t, env, mp, memo=None, idx=None):
    """mpmath evaluation with matrix values (mp.matrix) and scalars; adds the constructors
      ["eye", X] identity shaped like X          ["lefthalf", X] first half of the columns
      ["series", "k", body]  sum over k = 0, 1, 2, ... of body   (stops when three consecutive terms are below
                              10^-(dps-8) of the partial sum and k exceeds env["__kmin"]; env["__kmax"] is a hard cap)
      ["idx", "k"] the running index        ["mpow", X, k] matrix power (k a non-negative integer term)
      ["fact", k] factorial                  ["tan", a]"""
    if memo is None:
        memo = {}
    if idx is None:
        idx = {}
    op = t[0]
    if idx:
        uk = ("uses", id(t))
        if uk not in memo:
            memo[uk] = _uses_idx(t)       # the memo lives only as long as the top-level call: ids are stable within it
        dep = memo[uk] or op in ("series", "sum", "quad", "root")
    else:
        dep = op in ("idx", "series", "sum", "quad", "root")
    key = id(t)
    if not dep and key in memo:
        return memo[key]
    f = lambda u: evm(u, env, mp, memo, idx)  # noqa
    ismat = lambda x: isinstance(x, mp.matrix)  # noqa
    if op == "var":
        r = env[t[1]]
    elif op == "num":
        r = mp.mpf(t[1])
    elif op == "one":
        r = mp.mpf(1)
    elif op == "rat":
        r = mp.mpf(t[1]) / mp.mpf(t[2])
    elif op == "I":
        r = mp.mpc(0, 1)
    elif op == "idx":
        r = idx[t[1]]
    elif op in ("add", "sub"):
        r = f(t[1])
        for u in t[2:]:
            r = (r + f(u)) if op == "add" else (r - f(u))
    elif op == "neg":
        r = -f(t[1])
    elif op == "mul":
        r = f(t[1])
        for u in t[2:]:
            v = f(u)
            if ismat(r) and ismat(v):
                raise ValueError("mul of two matrices: use matmul")
            r = r * v
    elif op == "div":
        r = f(t[1]) / f(t[2])
    elif op == "matmul":
        r = f(t[1]) * f(t[2])
    elif op == "solve":
        r = mp.lu_solve(f(t[1]), f(t[2]))
    elif op == "zero":
        x = f(t[1])
        r = mp.zeros(x.rows, x.cols) if ismat(x) else mp.mpf(0)
    elif op == "eye":
        r = mp.eye(f(t[1]).rows)
    elif op == "lefthalf":
        x = f(t[1])
        r = x[:, : x.cols // 2]
    elif op == "fact":
        k = int(f(t[1]))
        last = memo.get("fact")
        if last is not None and 0 <= k - last[0] <= 4:
            kk, r = last
            while kk < k:
                kk += 1
                r = r * kk
        else:
            import math
            r = mp.mpf(math.factorial(k))
        memo["fact"] = (k, r)
    elif op == "mpow":
        k = int(f(t[2]))
        ck = ("mpow", repr(t[1]))
        pw = memo.setdefault(ck, {})
        if k in pw:
            r = pw[k]
        elif k - 1 in pw:
            r = pw[k - 1] * f(t[1])
        else:
            r = f(t[1]) ** k
        pw[k] = r
        pw.pop(k - 3, None)
    elif op == "series":
        name = t[1]
        kmin = env.get("__kmin", 10)
        kmax = env.get("__kmax", 100000)
        tol = mp.mpf(10) ** (-(mp.mp.dps - 8))
        total = None
        small = 0
        k = 0
        while True:
            idx2 = dict(idx)
            idx2[name] = mp.mpf(k)
            term = evm(t[2], env, mp, memo, idx2)
            total = term if total is None else total + term
            nt = mp.mnorm(term, 1) if ismat(term) else abs(term)
            ns = mp.mnorm(total, 1) if ismat(total) else abs(total)
            small = small + 1 if nt <= tol * ns else 0
            if (small >= 3 and k >= kmin) or nt == 0 and small >= 3:
                break
            k += 1
            if k > kmax:
                raise ArithmeticError("series did not converge in %d terms" % kmax)
        r = total
    elif op in ("exp", "sqrt", "sin", "cos", "tan", "sinh", "cosh", "erf", "gamma", "log", "atan", "acos", "asin"):
        r = getattr(mp, op)(f(t[1]))
    elif op == "atan2":
        r = mp.atan2(f(t[1]), f(t[2]))
    elif op == "pi":
        r = mp.pi
    elif op == "eye3":
        r = mp.eye(3)
    elif op == "vec":
        r = mp.matrix([f(u) for u in t[1:]])
    elif op == "el":
        r = f(t[1])[int(t[2]), int(t[3])]
    elif op == "colof":
        r = f(t[1])[:, int(t[2])]
    elif op == "cols":
        cs = [f(u) for u in t[1:]]
        r = mp.matrix(cs[0].rows, len(cs))
        for j_, c_ in enumerate(cs):
            r[:, j_] = c_
    elif op == "tr":
        r = f(t[1]).T
    elif op == "cross":
        a_, b_ = f(t[1]), f(t[2])
        r = mp.matrix([a_[1] * b_[2] - a_[2] * b_[1], a_[2] * b_[0] - a_[0] * b_[2], a_[0] * b_[1] - a_[1] * b_[0]])
    elif op == "dot":
        a_, b_ = f(t[1]), f(t[2])
        r = sum(a_[i_] * b_[i_] for i_ in range(a_.rows))
    elif op == "norm":
        a_ = f(t[1])
        r = mp.sqrt(sum(a_[i_] ** 2 for i_ in range(a_.rows)))
    elif op == "skew":
        a_ = f(t[1])
        r = mp.matrix([[0, -a_[2], a_[1]], [a_[2], 0, -a_[0]], [-a_[1], a_[0], 0]])
    elif op == "min":
        r = min(f(u) for u in t[1:])
    elif op == "max":
        r = max(f(u) for u in t[1:])
    elif op == "sinc":                            # normalised: sin(pi x)/(pi x)
        r = mp.sincpi(f(t[1]))
    elif op == "besseli0":
        r = mp.besseli(0, f(t[1]))
    elif op == "pow":
        r = f(t[1]) ** f(t[2])
    elif op == "inf":
        r = mp.inf
    elif op == "gammaincP":                       # regularised lower incomplete gamma P(a, x)
        r = mp.gammainc(f(t[1]), 0, f(t[2]), regularized=True)
    elif op == "binom":
        r = mp.binomial(f(t[1]), f(t[2]))
    elif op == "sum":                             # ["sum", name, lo, hi, body]  finite sum, integer bounds
        lo, hi = int(f(t[2])), int(f(t[3]))
        r = mp.mpf(0)
        for k in range(lo, hi + 1):
            idx2 = dict(idx)
            idx2[t[1]] = mp.mpf(k)
            r = r + evm(t[4], env, mp, memo, idx2)
    elif op == "quad":                            # ["quad", name, lo, hi, body]  integral (mpmath tanh-sinh / Gauss-Legendre)
        lo, hi = f(t[2]), f(t[3])

        def g(x, _t=t):
            idx2 = dict(idx)
            idx2[_t[1]] = x
            return evm(_t[4], env, mp, memo, idx2)
        pts = [lo, hi] if "__quadpts" not in env else [lo] + list(env["__quadpts"]) + [hi]
        r = mp.quad(g, pts)
    elif op == "root":                            # ["root", name, expr, lo, hi]  zero of expr; lo = hi: unbracketed, start lo
        lo, hi = f(t[3]), f(t[4])

        def g(x, _t=t):
            idx2 = dict(idx)
            idx2[_t[1]] = x
            return evm(_t[2], env, mp, memo, idx2)
        r = mp.findroot(g, lo) if lo == hi else mp.findroot(g, (lo, hi), solver="illinois", maxsteps=400)
    elif op == "abs":
        r = abs(f(t[1]))
    elif op == "re":
        r = mp.re(f(t[1]))
    elif op == "im":
        r = mp.im(f(t[1]))
    else:
        raise ValueError("unknown term constructor %r" % (op,))
    if not dep:
        memo[key] = r
    return r


def evq(t, env, idx=None):
    """exact rational evaluation (fractions.Fraction): var num rat add sub neg mul div pow(integer exponent) idx sum binom"""
    from fractions import Fraction
    from math import comb
    idx = idx or {}
    op = t[0]
    f = lambda u: evq(u, env, idx)  # noqa
    if op == "var":
        return Fraction(env[t[1]])
    if op == "num":
        return Fraction(t[1])
    if op == "rat":
        return Fraction(t[1], t[2])
    if op == "idx":
        return Fraction(idx[t[1]])
    if op == "add":
        r = f(t[1])
        for u in t[2:]:
            r += f(u)
        return r
    if op == "sub":
        return f(t[1]) - f(t[2])
    if op == "neg":
        return -f(t[1])
    if op == "mul":
        r = f(t[1])
        for u in t[2:]:
            r *= f(u)
        return r
    if op == "div":
        return f(t[1]) / f(t[2])
    if op == "pow":
        e = f(t[2])
        if e.denominator != 1:
            raise ValueError("evq: non-integer exponent")
        return f(t[1]) ** int(e)
    if op == "binom":
        return Fraction(comb(int(f(t[1])), int(f(t[2]))))
    if op == "sum":
        lo, hi = int(f(t[2])), int(f(t[3]))
        r = Fraction(0)
        for k in range(lo, hi + 1):
            i2 = dict(idx)
            i2[t[1]] = k
            r += evq(t[4], env, i2)
        return r
    raise ValueError("evq: unknown term constructor %r" % (op,))


def _uses_idx(t):
    if isinstance(t, list) and t:
        if t[0] == "idx":
            return True
        return any(_uses_idx(u) for u in t[1:] if isinstance(u, list))
    return False
