"""C17: SolveNewmark and SolveCDF / cd_as_force follow their documented recurrences and converge.

specs/Newmark.tla: the run as a state machine (Start, Step x (nt-2), Finish) with the schedule checked by TLC, and the
recurrence rules + the matrices A, A1, A0 exported as terms.  The driver applies the rules with the generic evaluator
to produce the expected displacement history (nonlinear terms = the same callables evaluated on the expected history),
then velocities / accelerations by the documented central differences, and compares with SolveNewmark for a lattice
of systems (diagonal / full, mass None / vector / matrix / singular, rf, initial conditions, 0-2 nonlinear terms).
CDF: each step of SolveCDF / SolveUnc(cd_as_force=True) must satisfy the defining implicit relation
  (d, v)_{n+1} = ExactDiagonalStep((d, v)_n ; f_n - C_od v_n , f_{n+1} - C_od v_{n+1})
with the exact diagonal step taken from the terms of specs/OdeModel.tla.  Laws: diagonal damping => SolveCDF is
bit-identical to SolveUnc; error against the exact solver shrinks as h is halved; Newmark stays bounded for w*h up to 1e3."""
import itertools
import json

from . import tlc, terms
from .runner import main, Run


def newmark_expected(np, rules, mats, sched, M, B, K, h, F, u0, v0, nonlin):
    """apply the spec's rules.  F: (n, nt).  nonlin: list of (func, T, args).  Returns D (n, nt), V, A, z-dict"""
    n, nt = F.shape
    env0 = dict(M=M, B=B, K=K, h=h)
    A = terms.ev(mats["A"], env0)
    A1 = terms.ev(mats["A1"], env0)
    A0 = terms.ev(mats["A0"], env0)
    env = dict(env0, A=A, A1=A1, A0=A0, u0=u0, v0=v0)
    um1 = terms.ev(rules["um1"], env)
    env["um1"] = um1
    fm1 = terms.ev(rules["fm1"], env)
    f0 = terms.ev(rules["f0rep"], env)
    Fx = F.copy()
    Fx[:, 0] = f0
    Dfull = np.zeros((n, nt))          # what the callables see: column -1 holds u_{-1} at the first call
    Dfull[:, 0] = u0
    zs = [np.zeros((0, nt))] * len(nonlin)

    def N(j, Dsee):
        tot = np.zeros(n)
        for k, (func, T, args) in enumerate(nonlin):
            z = func(Dsee, j, h, **args)
            if zs[k].shape[0] == 0:
                zs[k] = np.zeros((len(z), nt))
            zs[k][:, j] = z
            tot = tot + T @ z
        return tot

    ue = None
    for rule, idx in sched:
        if rule == "start":
            Dsee = Dfull.copy()
            Dsee[:, -1] = um1
            Nj = N(0, Dsee) if nonlin else np.zeros(n)
            Dfull[:, 1] = terms.ev(rules["step"], dict(env, f3=Fx[:, 1], f2=Fx[:, 0], f1=fm1, N=Nj, u2=u0, u1=um1))
        elif rule == "step":
            j = idx
            Nj = N(j - 1, Dfull) if nonlin else np.zeros(n)
            Dfull[:, j] = terms.ev(rules["step"], dict(env, f3=Fx[:, j], f2=Fx[:, j - 1], f1=Fx[:, j - 2], N=Nj,
                                                       u2=Dfull[:, j - 1], u1=Dfull[:, j - 2]))
        else:
            fe = terms.ev(rules["fext"], dict(f3=Fx[:, nt - 1], f2=Fx[:, nt - 2]))
            Nj = N(nt - 1, Dfull) if nonlin else np.zeros(n)
            ue = terms.ev(rules["step"], dict(env, f3=fe, f2=Fx[:, nt - 1], f1=Fx[:, nt - 2], N=Nj,
                                              u2=Dfull[:, nt - 1], u1=Dfull[:, nt - 2]))
    V = np.zeros((n, nt))
    Ac = np.zeros((n, nt))
    V[:, 0] = v0
    ext = np.column_stack((um1, Dfull, ue))         # indices -1 .. nt
    for j in range(nt):
        up, uc, um = ext[:, j + 2], ext[:, j + 1], ext[:, j]
        if j > 0:
            V[:, j] = terms.ev(rules["vel"], dict(up=up, um=um, h=h))
        Ac[:, j] = terms.ev(rules["acc"], dict(up=up, uc=uc, um=um, h=h))
    return Dfull, V, Ac, zs


def cubic(d, j, h, c=1.0, dof=0):
    return np_.array([c * d[dof, j] ** 3])


def gap(d, j, h, k=1.0):
    x = d[-1, j] - 0.01
    return np_.array([-k * x if x > 0 else 0.0, d[0, j] * 0.0])


def veldep(d, j, h, c=1.0, dof=0):
    # velocity-dependent term: backward difference (documented use of column j-1; at j = 0 that is the u_{-1} column)
    return np_.array([-c * (d[dof, j] - d[dof, j - 1]) / h])


np_ = None


def newmark_part(run, np, ode):
    global np_
    np_ = np
    res = tlc.run("Newmark", "MC_Newmark.cfg", workers=4, timeout=300)
    if res.violation:
        run.add_tlc("MC_Newmark.cfg", res)
        run.violation("TLC: %s on the Newmark model" % res.violation, {"tlc": res.error_text()}, {"where": "model"})
        return
    run.add_tlc("MC_Newmark.cfg", res, "schedule Start/Step*/Finish for nt in {2,3,4,7}; invariant ScheduleOK")
    rules, mats = res.tagged("RULES")[0]
    scheds = {nt: [tuple(x) for x in s] for nt, s in res.tagged("SCHED")}
    rng = np.random.default_rng(run.seed)
    lattice = list(itertools.product(("diag", "full"), ("none", "vec", "mat", "singular"), (False, True), ("zero", "d0v0", "d0", "v0"), (0, 1, 2, 3), sorted(scheds)))
    for li, (coup, mform, rf, ic, nnl, nt) in enumerate(list(lattice) * (1 if run.tier == "quick" else 30)):
        if coup == "diag" and mform == "mat" and li % 2:
            continue
        if rf and nnl:
            continue       # documented: nonlinear terms are for the non-rf equations only; not used together with `rf`
        n = 3
        md = rng.uniform(0.5, 2.0, n)
        if mform == "singular":
            md[1] = 0.0
        if mform == "none":
            md = np.ones(n)
        kd = rng.uniform(200.0, 4000.0, n)
        bd = rng.uniform(0.5, 6.0, n)
        M, B, K = np.diag(md), np.diag(bd), np.diag(kd)
        if coup == "full":
            for X, s_ in ((M, 0.1), (B, 0.4), (K, 40.0)):
                q = rng.standard_normal((n, n))
                # every other "full" system is NOT symmetric (the recurrence is stated for general matrices; a transposed solve shows)
                q = s_ * ((q + q.T) / 2 if (li // 3) % 2 == 0 else q * 0.7)
                np.fill_diagonal(q, 0)
                if X is M and mform in ("none", "vec"):
                    continue
                X += q
            if mform == "singular":
                M[1, :] = 0.0
                M[:, 1] = 0.0
        h = 0.004
        F = rng.standard_normal((n + (1 if rf else 0), nt))
        u0 = rng.standard_normal(n) * 1e-2 if ic in ("d0v0", "d0") else np.zeros(n)     # "d0" / "v0": the other argument is omitted (= zero)
        v0 = rng.standard_normal(n) if ic in ("d0v0", "v0") else np.zeros(n)
        nonlin = []
        if nnl >= 1:
            nonlin.append((cubic, rng.standard_normal((n, 1)), dict(c=50.0, dof=2)))
        if nnl >= 2:
            nonlin.append((gap, rng.standard_normal((n, 2)), dict(k=300.0)))
        if nnl >= 3:
            nonlin.append((veldep, rng.standard_normal((n, 1)), dict(c=3.0, dof=int(rng.integers(0, n)))))
        marg = None if mform == "none" else (np.diag(M).copy() if (mform in ("vec", "singular") and coup == "diag") else M)
        barg = np.diag(B).copy() if coup == "diag" else B
        karg = np.diag(K).copy() if coup == "diag" else K
        krf = 9.0e6
        if rf:
            # rf equation appended (decoupled): statically solved, initial conditions ignored
            def aug(X, val):
                Y = np.zeros((n + 1, n + 1))
                Y[:n, :n] = X
                Y[n, n] = val
                return Y
            Mf, Bf, Kf = aug(M, 1.0), aug(B, 10.0), aug(K, krf)
            marg2 = None if mform == "none" else (np.diag(Mf).copy() if np.ndim(marg) == 1 else Mf)
            barg2 = np.diag(Bf).copy() if coup == "diag" else Bf
            karg2 = np.diag(Kf).copy() if coup == "diag" else Kf
            nonlin2 = [(f_, np.vstack((T_, np.zeros((1, T_.shape[1])))), a_) for f_, T_, a_ in nonlin]
        case = {"coupling": coup, "mass": mform, "rf": rf, "ic": ic, "nonlinear_terms": nnl, "nt": nt,
                "symmetric": bool(coup != "full" or (li // 3) % 2 == 0)}
        run.case(json.dumps(case), part="newmark recurrence")
        try:
            if rf:
                ts = ode.SolveNewmark(marg2, barg2, karg2, h, rf=[n])
                if nonlin:
                    ts.def_nonlin({("t%d" % k): (f_, T_, a_) for k, (f_, T_, a_) in enumerate(nonlin2)})
                d0 = np.concatenate((u0, [0.123])) if ic in ("d0v0", "d0") else None
                v0a = np.concatenate((v0, [4.5])) if ic in ("d0v0", "v0") else None
                sol = ts.tsolve(F, d0, v0a)
            else:
                ts = ode.SolveNewmark(marg, barg, karg, h)
                if nonlin:
                    ts.def_nonlin({("t%d" % k): (f_, T_, a_) for k, (f_, T_, a_) in enumerate(nonlin)})
                sol = ts.tsolve(F, u0 if ic in ("d0v0", "d0") else None, v0 if ic in ("d0v0", "v0") else None)
        except Exception as ex:
            run.violation("SolveNewmark raised %r" % ex, case, {"solver": "SolveNewmark"})
            continue
        D, Vv, Ac, zs = newmark_expected(np, rules, mats, scheds[nt], M, B, K, h, F[:n], u0, v0, nonlin)
        bad = None
        for nm, got, exp in (("d", sol.d[:n], D), ("v", sol.v[:n], Vv), ("a", sol.a[:n], Ac)):
            sc = max(np.abs(exp).max(), 1e-300)
            if not np.abs(got - exp).max() <= 1e-9 * sc:
                j = int(np.argmax(np.abs(got - exp).max(axis=0)))
                bad = "%s differs from the documented recurrence at sample %d (relative %.3g)" % (nm, j, np.abs(got - exp).max() / sc)
                break
        if bad is None and rf:
            if not np.allclose(sol.d[n], F[n] / krf, rtol=1e-12, atol=0) or np.abs(sol.v[n]).max() != 0 or np.abs(sol.a[n]).max() != 0:
                bad = "residual-flexibility equation is not solved statically with initial conditions ignored"
        if bad is None and nonlin:
            for k in range(len(nonlin)):
                if not np.allclose(sol.z["t%d" % k], zs[k], rtol=1e-9, atol=1e-12 * max(1.0, np.abs(zs[k]).max())):
                    bad = "z['t%d'] does not hold the nonlinear function output of every step" % k
        if bad:
            run.violation("SolveNewmark: " + bad, case, {"solver": "SolveNewmark"})
        run.trace_validated()
        if li < 2:
            run.sample(case)


def cdf_part(run, np, ode):
    import mpmath as mpm
    mpm.mp.dps = 40
    res = tlc.run("OdeModel", "MC_OdeModel.cfg", timeout=600)
    step_terms = {(k, o): v for (k, o, *v) in res.tagged("STEP")}
    run.add_tlc("MC_OdeModel.cfg", res, "exact diagonal step terms reused for the CDF defining relation")
    rng = np.random.default_rng(run.seed + 3)
    from . import odesys
    for trial in range(36 if run.tier == "quick" else 1500):
        nrb, nel, nrf = [(0, 3, 0), (1, 2, 0), (0, 2, 1), (2, 3, 1), (1, 3, 2), (0, 4, 2)][trial % 6]
        order = (trial // 2) % 2
        # every third system has its rb / elastic / rf equations interspersed (tsolve accepts any partition; only the generators ask
        # for contiguous blocks)
        layout = "interleaved" if trial % 3 == 2 else "contiguous"
        s = odesys.make_system(rng, "cdamp", nrb, nel, nrf, ["none", "vec", "mat"][(trial // 3) % 3], layout=layout)
        n, h = s["n"], s["h"]
        nt = 8
        F = rng.standard_normal((n, nt))
        d0 = rng.standard_normal(n) * 1e-3
        v0 = rng.standard_normal(n) * 0.1
        cls = "SolveCDF" if trial % 2 else "SolveUnc(cd_as_force)"
        case = {"solver": cls, "layout": [nrb, nel, nrf], "order": order, "mass": s["mform"], "equations": layout, "rf": s["rf"].tolist()}
        run.case(json.dumps(case) + str(trial), part="cdf recurrence")
        rf = s["rf"] if nrf else None
        try:
            ts = ode.SolveCDF(s["m"], s["b"], s["k"], h, rf=rf, order=order) if trial % 2 else \
                ode.SolveUnc(s["m"], s["b"], s["k"], h, rf=rf, order=order, cd_as_force=True)
            if layout == "contiguous" and (trial // 6) % 2:
                # the same recurrence reached one step at a time, with steps taken again after stepping ahead (documented: "re-do
                # time-steps as necessary"): the history finally in place obeys the same defining relation
                case["via"] = "generator with rewinds"
                gen, _d, _v = ts.generator(nt, F[:, 0].copy(), d0, v0)
                back = int(rng.integers(1, nt - 2))
                ahead = int(rng.integers(back + 1, nt))
                first = list(range(1, ahead + 1))
                if trial % 4 == 1:
                    first.append(ahead)                                     # the same step twice before going back
                for i_ in first:
                    # steps that are taken again later get another force the first time
                    gen.send((i_, (F[:, i_] + (1.0 if i_ >= back else 0.0)).copy()))
                for i_ in range(back, nt):
                    gen.send((i_, F[:, i_].copy()))
                sol = ts.finalize()
            else:
                sol = ts.tsolve(F, d0, v0)
        except Exception as ex:
            run.violation("%s raised %r" % (cls, ex), case, {"solver": cls})
            continue
        Bfull = np.asarray(s["b"])
        md = np.ones(n) if s["m"] is None else (np.asarray(s["m"]) if np.ndim(s["m"]) == 1 else np.diag(s["m"]))
        bd = np.diag(Bfull).copy()
        Cod = Bfull - np.diag(bd)
        kd = np.asarray(s["k"])
        bad = None
        nonrf = [i for i in range(n) if i not in set(s["rf"].tolist())]
        for j in range(nt - 1):
            f0 = F[:, j] - Cod @ sol.v[:, j]
            f1 = F[:, j + 1] - Cod @ sol.v[:, j + 1]
            for i in nonrf:
                kind = "rb0" if kd[i] == 0 else ("und" if bd[i] ** 2 < 4 * md[i] * kd[i] else "over")
                env = dict(m=mpm.mpf(md[i]), b=mpm.mpf(bd[i]), k=mpm.mpf(kd[i]), h=mpm.mpf(h), d0=mpm.mpf(sol.d[i, j]),
                           v0=mpm.mpf(sol.v[i, j]), f0=mpm.mpf(f0[i]), f1=mpm.mpf(f1[i] if order == 1 else f0[i]))
                tD, tV = step_terms[(kind, 1)][:2]
                if order == 0:
                    # zero-order hold on the applied force; the damping force varies linearly between its two samples
                    env["f0"] = mpm.mpf(F[i, j] - (Cod @ sol.v[:, j])[i])
                    env["f1"] = mpm.mpf(F[i, j] - (Cod @ sol.v[:, j + 1])[i])
                de = float(mpm.re(terms.evmp(tD, env, mpm)))
                ve = float(mpm.re(terms.evmp(tV, env, mpm)))
                sd = max(np.abs(sol.d[i]).max(), h * np.abs(sol.v[i]).max(), 1e-300)
                sv = max(np.abs(sol.v[i]).max(), np.abs(sol.d[i]).max() / h, 1e-300)
                if abs(sol.d[i, j + 1] - de) > 1e-8 * sd or abs(sol.v[i, j + 1] - ve) > 1e-8 * sv:
                    bad = "step %d, equation %d: (d, v) is not the exact diagonal step driven by f - C_od v (documented recurrence): d err %.3g, v err %.3g" % (
                        j, i, abs(sol.d[i, j + 1] - de) / sd, abs(sol.v[i, j + 1] - ve) / sv)
                    break
            if bad:
                break
        if bad:
            run.violation("%s: %s" % (cls, bad), case, {"solver": cls})
        run.trace_validated()


def laws_part(run, np, ode):
    from . import odesys
    rng = np.random.default_rng(run.seed + 9)
    # diagonal damping: SolveCDF is identical to SolveUnc
    for trial in range(20):
        s = odesys.make_system(rng, "diag", trial % 2, 3, trial % 2, ["none", "vec", "mat"][trial % 3])
        F = rng.standard_normal((s["n"], 15))
        rf = s["rf"] if len(s["rf"]) else None
        a = ode.SolveUnc(s["m"], s["b"], s["k"], s["h"], rf=rf).tsolve(F, static_ic=bool(trial % 2))
        b = ode.SolveCDF(s["m"], s["b"], s["k"], s["h"], rf=rf).tsolve(F, static_ic=bool(trial % 2))
        run.case(("cdf=unc", trial), part="laws")
        if any(not np.allclose(x_, y_, rtol=0, atol=1e-12 * max(np.abs(x_).max(), 1e-300)) for x_, y_ in ((a.d, b.d), (a.v, b.v), (a.a, b.a))):
            run.violation("with diagonal damping SolveCDF is not identical to SolveUnc", {"trial": trial}, {"solver": "SolveCDF"})
    # convergence ladder against the exact solver
    for trial in range(6 if run.tier == "quick" else 120):
        consistent = trial % 2 == 0
        n = 3
        md = rng.uniform(0.5, 2, n); w = rng.uniform(8, 30, n); z = rng.uniform(0.02, 0.2, n)
        kd = w ** 2 * md; bd = 2 * z * w * md
        q = rng.standard_normal((n, n)); q = (q + q.T) * 0.15 * np.sqrt(np.outer(bd, bd)); np.fill_diagonal(q, 0)
        Bf = np.diag(bd) + q
        T = 1.0
        u0 = rng.standard_normal(n) * 0.01
        v0 = rng.standard_normal(n) * 0.1
        fa, fb = rng.standard_normal(n), rng.standard_normal(n) * 3
        def force(t):
            base = np.outer(fa, np.sin(5 * t)) + np.outer(fb, t)
            if consistent:
                base = base + (kd * u0 + Bf @ v0)[:, None]
            return base
        errsN, errsC = [], []
        for lev in range(6):
            h = 0.02 / 2 ** lev
            t = np.arange(0, T + h / 2, h)
            F = force(t)
            ex = ode.SolveUnc(md, Bf, kd, h).tsolve(F, u0, v0)
            nm = ode.SolveNewmark(md, Bf, kd, h).tsolve(F, u0, v0)
            cd = ode.SolveCDF(md, Bf, kd, h).tsolve(F, u0, v0)
            errsN.append(np.abs(nm.d - ex.d).max())
            errsC.append(np.abs(cd.d - ex.d).max())
        run.case(("ladder", trial), part="laws")
        for nm_, errs, order1 in (("SolveNewmark", errsN, not consistent), ("SolveCDF", errsC, False)):
            ratio = errs[-1] / errs[0]
            need = (1 / 8.0) if order1 else (1 / 100.0)
            mono = all(errs[i + 1] <= errs[i] * 1.05 for i in range(len(errs) - 1))
            if not (ratio <= need and mono):
                run.violation("%s: error against the exact solution does not shrink as the step is halved (h..h/32: %s)" % (
                    nm_, ["%.2e" % e for e in errs]), {"trial": trial, "consistent_start": consistent}, {"solver": nm_})
    # unconditional stability of Newmark on damped systems, massless DOF handled
    for trial in range(6):
        n = 3
        md = np.array([1.0, 0.0 if trial % 2 else 0.7, 2.0])
        kd = np.array([4.0e4, 9.0e4, 1.0e6])
        bd = np.array([4.0, 6.0, 20.0])
        h = [0.05, 0.5, 5.0][trial % 3]           # w*h up to 5e3
        F = np.ones((n, 300))
        sol = ode.SolveNewmark(md, bd, kd, h).tsolve(F, np.array([0.01, 0.0, 0.0]), np.array([0.0, 0.1, 0.0]))
        run.case(("bounded", trial), part="laws")
        bound = 50 * (0.01 + 0.1 * h + (1.0 / kd).max())
        if not np.all(np.isfinite(sol.d)) or np.abs(sol.d).max() > bound:
            run.violation("SolveNewmark solution is not bounded for w*h >> 1 on a damped system (max |u| = %.3g)" % np.abs(sol.d).max(),
                          {"h": h, "massless": bool(trial % 2)}, {"solver": "SolveNewmark"})


def body(run: Run, replay):
    import numpy as np
    import warnings
    warnings.simplefilter("ignore")
    from pyyeti import ode
    run.rule = ("Newmark: {diag, full} x mass {None, vector, matrix, singular} x rf x ic x 0-2 nonlinear terms x nt in {2,3,4,7} against the "
                "rule terms of specs/Newmark.tla; CDF: implicit defining relation per step with the exact diagonal step terms of "
                "specs/OdeModel.tla; laws: CDF = Unc for diagonal damping (1e-12 of the scale), error ladder h..h/32, boundedness. "
                "distinct non-trivial = lattice points / trials")
    run.assumptions = ["convergence is observed over 5 halvings (not a limit); stability is observed for w*h up to 5e3 over 300 steps",
                       "the nonlinear callables are evaluated on the expected history"]
    newmark_part(run, np, ode)
    cdf_part(run, np, ode)
    laws_part(run, np, ode)


if __name__ == "__main__":
    main("C17", "exploration", body)
