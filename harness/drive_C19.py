"""C19: PSD and signal utilities conserve what they claim to conserve.

specs/PsdDsp.tla, one TLC configuration per part:
  rescale   linear band layouts on an integer tick grid: kept bands, per-band mean square = sum_j P_j |band /\\ inband_j|,
            densities, extendends rule; TLC checks conservation when the output tiles the input and exports every layout
  resample  index model (reduced p/q, ceil(n p / q), FIR length, which output samples are original samples) for all
            n <= 12, p, q <= 6; the Kaiser-windowed-sinc FIR coefficient as a term
  fixtime   tick grid, dt = 8 ticks: every jitter / gap / repeat pattern of up to MaxLen samples with the expected length,
            alignment shift (fraction of a tick), nearest-time map (ties to the earlier time) and previous-value maps
  terms     area / interp definitions (the integral of the log-log interpolant as a quadrature term)
The driver replays every exported case into psd.rescale, dsp.resample, dsp.fixtime (both nearest-sample variants: the
vectorised ones and the numba bodies extracted from the working tree), and evaluates the terms for psd.area / psd.interp."""
import ast
import itertools
import json
import os
import warnings
from fractions import Fraction

from . import tlc, terms
from .runner import main, Run, REPO


# ----------------------------------------------------------------------------------------------- rescale
def rescale_part(run, np, psd, T):
    res = tlc.run("PsdDsp", "MC_PsdDsp_rescale.cfg", timeout=600)
    run.add_tlc("MC_PsdDsp_rescale.cfg", res, "Conservation, KeptContiguous, NoCreation on 576 linear layouts; expected ms / density per band")
    if res.violation:
        run.violation("TLC: %s on the rescale model" % res.violation, {"tlc": res.error_text()}, {"where": "model"})
        return
    tick = 0.5
    for c, pvals, bands in res.tagged("RESCALE"):
        F = (c["f0"] + np.arange(c["nin"]) * c["df"]) * tick
        freq = (c["g0"] + np.arange(c["nout"]) * c["dg"]) * tick
        P1 = np.array(pvals[: c["nin"]], float)
        kept = [i for i, b in enumerate(bands) if b[0]]
        want_psd = np.array([Fraction(bands[i][1][0], bands[i][1][1]) for i in kept], float)
        want_ms = np.array([Fraction(bands[i][2][0], bands[i][2][1]) for i in kept], float) * tick
        for form in ("vector", "matrix"):
            run.case(("rescale", json.dumps(c, sort_keys=True), form), part="rescale linear layouts")
            tags = {"fn": "rescale", "layout": "linear", "ext": c["ext"]}
            P = P1 if form == "vector" else np.column_stack((P1, 2 * P1[::-1]))
            try:
                Pout, Fctr, msv, ms = psd.rescale(P, F, freq=freq, extendends=c["ext"])
            except Exception as ex:
                run.violation("rescale raised %r" % ex, {"case": c}, tags)
                continue
            if form == "matrix":
                # second column: the same law with the reversed, doubled input; compare the first here, totals for both
                if Pout.shape != (len(kept), 2) or ms.shape != (len(kept), 2) or np.shape(msv) != (2,):
                    run.violation("rescale: matrix input does not give column-wise results (shapes %s %s %s)" % (Pout.shape, ms.shape, np.shape(msv)), {"case": c}, tags)
                    continue
                Pv, msvec, msv1 = Pout[:, 0], ms[:, 0], msv[0]
                if abs(msv[1] - ms[:, 1].sum()) > 1e-12 * max(1, abs(msv[1])):
                    run.violation("rescale: msv is not the sum of the band mean squares (column 2)", {"case": c}, tags)
            else:
                Pv, msvec, msv1 = Pout, ms, msv
            bad = None
            if len(Fctr) != len(kept) or not np.array_equal(Fctr, freq[kept]):
                bad = "output bands kept %s, expected centres %s" % (np.asarray(Fctr).tolist(), freq[kept].tolist())
            elif not np.allclose(msvec, want_ms, rtol=1e-13, atol=1e-13):
                bad = "band mean squares %s, expected sum_j P_j |band /\\ inband_j| = %s" % (np.asarray(msvec).tolist(), want_ms.tolist())
            elif not np.allclose(Pv, want_psd, rtol=1e-13, atol=1e-13):
                bad = "band densities %s, expected %s" % (np.asarray(Pv).tolist(), want_psd.tolist())
            elif abs(msv1 - want_ms.sum()) > 1e-12 * max(1.0, want_ms.sum()):
                bad = "msv %r is not the sum of the band mean squares %r" % (float(msv1), float(want_ms.sum()))
            if bad:
                run.violation("rescale(extendends=%s): %s" % (c["ext"], bad), {"case": c, "F": F, "freq": freq, "P": P1}, tags)
            run.trace_validated()
    # ---- logarithmic layouts: the same law with geometric-mean band edges (terms)
    rng = np.random.default_rng(run.seed + 19)

    def edges(fc):
        lo = [terms.ev(T["edgefirst"], {"fa": fc[0], "fb": fc[1]})] + [terms.ev(T["edgemid"], {"fa": a, "fb": b}) for a, b in zip(fc[:-1], fc[1:])]
        hi = lo[1:] + [terms.ev(T["edgelast"], {"fa": fc[-2], "fb": fc[-1]})]
        return np.array(lo), np.array(hi)

    def overlap(lo1, hi1, lo2, hi2):
        return float(terms.ev(T["overlap"], {"lo1": lo1, "hi1": hi1, "lo2": lo2, "hi2": hi2, "zero": 0.0}))

    for trial in range(40 if run.tier == "quick" else 1500):
        nin = int(rng.integers(3, 9))
        nout = int(rng.integers(3, 7))
        F = 10.0 * np.cumprod(np.r_[1.0, rng.uniform(1.15, 1.6, nin - 1)])
        lo_f = F[0] * rng.uniform(0.6, 1.3)
        freq = lo_f * np.cumprod(np.r_[1.0, rng.uniform(1.2, 2.0, nout - 1)])
        P = rng.uniform(0.5, 4.0, nin)
        ext = bool(trial % 2)
        run.case(("rescale-log", trial), part="rescale logarithmic layouts")
        tags = {"fn": "rescale", "layout": "log", "ext": ext}
        ilo, ihi = edges(F)
        olo, ohi = edges(freq)
        keep = [i for i in range(nout) if olo[i] <= F[-1] and ohi[i] >= F[0]]
        if not keep:
            continue
        try:
            Pout, Fctr, msv, ms = psd.rescale(P, F, freq=freq, extendends=ext)
        except Exception as ex:
            run.violation("rescale raised %r" % ex, {"F": F, "freq": freq}, tags)
            continue
        msw, pw = [], []
        for n_, i in enumerate(keep):
            cov = sum(P[j] * overlap(olo[i], ohi[i], ilo[j], ihi[j]) for j in range(nin))
            lo_c = max(olo[i], ilo[0]) if (ext and n_ == 0) else olo[i]
            hi_c = min(ohi[i], ihi[-1]) if (ext and n_ == len(keep) - 1) else ohi[i]
            pw.append(cov / (hi_c - lo_c))
            msw.append(pw[-1] * (ohi[i] - olo[i]) if ext else cov)
        if len(Fctr) != len(keep) or not np.allclose(Fctr, freq[keep], rtol=0, atol=0):
            run.violation("rescale (log bands): kept centres %s, expected %s" % (np.asarray(Fctr).tolist(), freq[keep].tolist()), {"F": F, "freq": freq}, tags)
        elif not np.allclose(ms, msw, rtol=1e-11) or not np.allclose(Pout, pw, rtol=1e-11) or abs(msv - sum(msw)) > 1e-11 * sum(msw):
            run.violation("rescale (log bands): band mean squares / densities do not preserve the content of each output band", {"F": F, "freq": freq, "P": P, "ms": ms, "expected": msw}, tags)
        run.trace_validated()
    # default octave scale: contiguous bands whose centres double every n bands; total preserved when the range is covered
    for n_oct in (1, 3, 6):
        Fc, FL, FU = psd.get_freq_oct(n_oct, (5.0, 900.0), exact=True)
        run.case(("get_freq_oct", n_oct), part="rescale logarithmic layouts")
        if not (np.allclose(FU[:-1], FL[1:], rtol=1e-13) and np.allclose(FL * FU, Fc ** 2, rtol=1e-13) and np.allclose(Fc[n_oct:], 2 * Fc[:-n_oct], rtol=1e-13)):
            run.violation("get_freq_oct(exact): bands are not contiguous 1/%d octave bands" % n_oct, {}, {"fn": "get_freq_oct"})
        Fin = np.arange(1.0, 1200.0, 1.0)
        Pin = rng.uniform(0.5, 2.0, Fin.size)
        Pout, Fctr, msv, ms = psd.rescale(Pin, Fin, n_oct=n_oct, extendends=False)
        # every output band's mean square = integral of the piecewise-constant input over that band
        _c, FLo, FUo = psd.get_freq_oct(n_oct, (1.0, Fin[-1]), exact=True)
        want = np.array([sum(Pin[j] * overlap(FLo[i], FUo[i], Fin[j] - 0.5, Fin[j] + 0.5) for j in range(max(0, int(FLo[i]) - 2), min(Fin.size, int(FUo[i]) + 2)))
                         for i in range(len(FLo))])
        if len(ms) != len(want) or not np.allclose(ms, want, rtol=1e-10):
            run.violation("rescale(n_oct=%d): band mean squares are not the input's content per band" % n_oct, {}, {"fn": "rescale", "layout": "oct"})


# ----------------------------------------------------------------------------------------------- resample
def resample_part(run, np, dsp, T):
    import mpmath as mp
    mp.mp.dps = 30
    res = tlc.run("PsdDsp", "MC_PsdDsp_resample.cfg", timeout=600)
    run.add_tlc("MC_PsdDsp_resample.cfg", res, "LengthLaw for n <= 12, p, q <= 6, pts in {2, 10}")
    if res.violation:
        run.violation("TLC: %s on the resample model" % res.violation, {"tlc": res.error_text()}, {"where": "model"})
        return
    rng = np.random.default_rng(run.seed + 191)
    fircache = {}

    def fir(p, q, pts, beta):
        key = (p, q, pts, beta)
        if key not in fircache:
            M = 2 * pts * max(p, q)
            env = {"p": mp.mpf(p), "q": mp.mpf(q), "M": mp.mpf(M), "beta": mp.mpf(beta)}
            fircache[key] = np.array([float(terms.evm(T["fir"], dict(env, n=mp.mpf(n)), mp)) for n in range(M + 1)])
        return fircache[key]

    cases = res.tagged("RESAMPLE")
    if run.tier == "quick":
        cases = [c for k, c in enumerate(cases) if k % 3 == 0 or c[0]["n"] in (1, 12)]
    for c, pr, qr, outlen, firlen, orig in cases:
        n, p, q, pts = c["n"], c["p"], c["qq"], c["pts"]
        for axis, base in ((0, [3, 3]), (1, [3, 3]), (-1, [3, 3]), (0, [3, 2, 3]), (-3, [2, 3, 2]), (1, [2, 3, 4])):
            run.case(("resample", n, p, q, pts, axis, len(base)), part="resample index model + FIR definition")
            tags = {"fn": "resample", "p": p, "q": q, "ndim": len(base)}
            shape = list(base)
            shape[axis] = n
            data = rng.standard_normal(shape) + 5.0
            try:
                out, f_ = dsp.resample(data, p, q, axis=axis, pts=pts, getfir=True)
                const = dsp.resample(np.full(shape, 2.75), p, q, axis=axis, pts=pts)
            except Exception as ex:
                run.violation("resample raised %r" % ex, {"case": c}, tags)
                continue
            want_shape = list(shape)
            want_shape[axis] = outlen
            if list(out.shape) != want_shape:
                run.violation("resample(n=%d, p=%d, q=%d, axis=%d): output shape %s, expected %s (ceil(n p / q) along the axis)" % (n, p, q, axis, list(out.shape), want_shape), {"case": c}, tags)
                continue
            if const.tobytes() != np.full(want_shape, 2.75).tobytes():
                run.violation("resample does not reproduce a constant exactly", {"case": c}, tags)
            if axis == -1 and n >= 2:
                o2, tnew = dsp.resample(data, p, q, axis=axis, pts=pts, t=np.arange(n) * 0.5 + 3.0)
                if len(tnew) != outlen or tnew[0] != 3.0 or o2.tobytes() != out.tobytes():
                    run.violation("resample(t=...): %d positions for %d samples / first position moved / data changed" % (len(tnew), outlen), {"case": c}, tags)
            if len(f_) != firlen:
                run.deviation("PsdDsp (FIR length)", "resample: FIR length %d, documented 2 pts max(p, q)/gcd + 1 = %d" % (len(f_), firlen), {"case": c})
            o = np.moveaxis(out, axis, -1)
            d = np.moveaxis(data, axis, -1)
            sc = np.abs(d - d.mean(axis=-1, keepdims=True)).max() + 1e-300
            for k, j in enumerate(orig):
                if j >= 0 and qr == 1 and np.abs(o[..., k] - d[..., j]).max() > 1e-13 * max(sc, 1.0):
                    run.violation("resample(p=%d, q=%d): original sample %d is not kept when upsampling" % (p, q, j), {"case": c}, tags)
                    break
            # every output sample from the FIR definition
            cf = fir(pr, qr, pts, 14)
            M = len(cf) - 1
            m = d.mean(axis=-1, keepdims=True)
            want = np.empty(o.shape)
            for k in range(outlen):
                acc = np.zeros(o.shape[:-1])
                for j in range(n):
                    ix = k * qr - j * pr + M // 2
                    if 0 <= ix <= M:
                        acc = acc + cf[ix] * (d[..., j] - m[..., 0])
                want[..., k] = acc + m[..., 0]
            if np.abs(o - want).max() > 1e-11 * max(sc, 1.0):
                run.violation("resample(n=%d, p=%d, q=%d, pts=%d): output differs from the windowed-sinc FIR definition (max %.3g)" % (n, p, q, pts, np.abs(o - want).max()), {"case": c}, tags)
            run.trace_validated()
    # band-limited tone: accuracy set by the window length
    sr = 100.0
    t = np.arange(0, 2.0, 1 / sr)
    errs = {}
    for pts in (5, 10, 20):
        for fr in (0.2, 0.6):
            x = np.sin(2 * np.pi * fr * sr / 2 * t + 0.3)
            y, tn = dsp.resample(x, 4, 1, pts=pts, t=t)
            ex = np.sin(2 * np.pi * fr * sr / 2 * tn + 0.3)
            sl = slice(4 * 2 * pts, -4 * 2 * pts)
            errs[(pts, fr)] = float(np.abs(y - ex)[sl].max())
    run.case(("resample-tone",), part="resample index model + FIR definition")
    run.extra["tone interpolation error (pts, fraction of Nyquist)"] = {str(k): v for k, v in errs.items()}
    if not (errs[(10, 0.2)] < 1e-6 and errs[(20, 0.2)] < 1e-6 and errs[(20, 0.6)] <= errs[(10, 0.6)] <= errs[(5, 0.6)] * 1.0000001 and errs[(20, 0.6)] < 1e-5):
        run.violation("resample: interpolation error of a band-limited tone does not improve with the window length / is above 1e-6 at 0.2 Nyquist: %s" % errs, {}, {"fn": "resample", "clause": "tone"})


# ----------------------------------------------------------------------------------------------- fixtime
def numba_bodies(np):
    """the numba variants of the nearest-sample helpers, extracted undecorated from the working tree"""
    src = open(os.path.join(REPO, "pyyeti", "dsp.py")).read()
    tree = ast.parse(src)
    found = {}
    for node in ast.walk(tree):
        if isinstance(node, ast.FunctionDef) and node.name in ("_find_closest_times", "_find_closest_previous_times") and node.decorator_list:
            node.decorator_list = []
            found[node.name] = node
    ns = {"np": np}
    for name, node in found.items():
        mod = ast.Module(body=[node], type_ignores=[])
        exec(compile(ast.fix_missing_locations(mod), "dsp.py:numba-body:" + name, "exec"), ns)
    return {k: ns[k] for k in found}


def outtimes_part(run, np, dsp):
    """growth: the outlier-time heuristic of fixtime (times more than 3 sigma from the mean are deleted) against the integer rule of the spec"""
    res = tlc.run("PsdDsp", "MC_PsdDsp_outtimes.cfg", timeout=600)
    run.add_tlc("MC_PsdDsp_outtimes.cfg", res, "records of 11-14 samples with one displaced time stamp; OutLaws (integer 3-sigma rule)")
    if res.violation:
        run.violation("TLC: %s on the outlier-time model" % res.violation, {"tlc": res.error_text()}, {"where": "model"})
        return
    dt = 0.125
    sr = 8.0
    spec = "PsdDsp (outlier times)"
    for n, pos, at, times, outl in res.tagged("OUTT"):
        t = np.array(times, float) * dt
        d = 100.0 + np.arange(n)
        outl = sorted(int(i) - 1 for i in outl)
        case = {"times_in_steps": list(times), "outliers_by_rule": outl}
        run.case(("outt", n, pos, at), nontrivial=bool(outl), part="fixtime outlier times (growth)")
        try:
            keep = np.array([i for i in range(n) if i not in outl])
            tn, dn = dsp.fixtime((t, d), sr=sr, verbose=False)
            tc, dc = dsp.fixtime((t[keep], d[keep]), sr=sr, verbose=False, delouttimes=False)
            if tn.tobytes() != tc.tobytes() or dn.tobytes() != dc.tobytes():
                run.deviation(spec, "fixtime(delouttimes=True) is not fixtime of the record without the samples the 3-sigma rule names", case)
            tk, dk = dsp.fixtime((t, d), sr=sr, verbose=False, delouttimes=False)
            L = int(round((t.max() - t.min()) * sr)) + 1
            # a stamp displaced to a place INSIDE the record shares its grid point with another sample: only one of the two can stay
            if len(tk) != L or not set(d.tolist()) >= set(dk.tolist()) or (not 0 <= at <= n - 1 and d[pos - 1] not in dk):
                run.deviation(spec, "fixtime(delouttimes=False) does not keep every time stamp (length %d, expected %d)" % (len(tk), L), case)
        except Exception as ex:
            run.deviation(spec, "fixtime raised %r" % ex, case)
        run.trace_validated()


def fixtime_part(run, np, dsp):
    cfg = "MC_PsdDsp_fixtime.cfg" if run.tier == "quick" else "MC_PsdDsp_fixtime_t.cfg"
    res = tlc.run("PsdDsp", cfg, timeout=1200)
    run.add_tlc(cfg, res, "UniformUnchanged; every step pattern over {8,7,9,10,16,0,4,20} ticks with expected length, shift, nearest / previous maps")
    if res.violation:
        run.violation("TLC: %s on the fixtime model" % res.violation, {"tlc": res.error_text()}, {"where": "model"})
        return
    nb = numba_bodies(np)
    tick = 1.0 / 64
    dt = 8 * tick
    sr = 1 / dt
    tolvals = [0.0, 0.001, 0.25]
    rng = np.random.default_rng(run.seed + 192)
    cases = res.tagged("FIX")
    for ci, (tk, L, sh, tp, align, near, prev) in enumerate(cases):
        if tk[-1] == tk[0]:
            continue                      # no time base (all samples at one instant): outside the domain
        told = np.array(tk, float) * tick
        data = 100.0 + np.arange(len(tk))
        run.case(("fix", tuple(tk)), part="fixtime tick grid")
        tags = {"fn": "fixtime"}
        shift = Fraction(sh[0], sh[1]) * Fraction(1, 64)

        def check(tn, dn, want_times, what, tg):
            if len(tn) != L or len(dn) != L:
                return run.violation("fixtime%s: %d samples returned, expected round((t_last - t_first) sr) + 1 = %d" % (what, len(tn), L), {"ticks": tk}, tg)
            uni = told[0] + float(shift) + np.arange(L) * dt
            if np.abs(tn - uni).max() > 1e-12:
                return run.violation("fixtime%s: time base is not the uniform grid aligned to the longest good run (max deviation %.3g s; shift expected %s ticks)" % (
                    what, np.abs(tn - uni).max(), Fraction(sh[0], sh[1])), {"ticks": tk, "tnew": tn}, tg)
            if np.abs(np.diff(tn) - dt).max() > 4 * np.spacing(abs(tn).max() + dt) if L > 1 else False:
                return run.violation("fixtime%s: time base is not exactly uniform" % what, {"ticks": tk, "tnew": tn}, tg)
            for i in range(L):
                k = int(round(dn[i] - 100.0))
                if not (0 <= k < len(tk)) or dn[i] != data[k] or tk[k] != want_times[i]:
                    return run.violation("fixtime%s: new sample %d (t = %.6g ticks) holds the input sample recorded at tick %s, expected the one at tick %d" % (
                        what, i, tn[i] / tick, tk[k] if 0 <= k < len(tk) else "?", want_times[i]), {"ticks": tk, "index": i}, tg)

        with warnings.catch_warnings():
            warnings.simplefilter("ignore")
            try:
                tn, dn = dsp.fixtime((told, data), sr=sr, verbose=False)
                check(tn, dn, near, "", tags)
                for z, tol in enumerate(tolvals):
                    tp_, dp_ = dsp.fixtime((told, data), sr=sr, verbose=False, hold_previous_value=True, previous_value_tol=tol)
                    check(tp_, dp_, prev[z], "(hold_previous_value, tol=%g)" % tol, dict(tags, hold=True, tol=tol))
                # uniform input comes back unchanged
                if all(b - a == 8 for a, b in zip(tk[:-1], tk[1:])):
                    if tn.tobytes() != told.tobytes() or dn.tobytes() != data.tobytes():
                        run.violation("fixtime changed an already-uniform record", {"ticks": tk}, tags)
                # ndarray packaging + getall
                if ci % 7 == 0:
                    arr, info = dsp.fixtime(np.column_stack((told, data)), sr=sr, verbose=False, getall=True)
                    if arr.shape != (L, 2) or arr[:, 0].tobytes() != tn.tobytes() or arr[:, 1].tobytes() != dn.tobytes():
                        run.violation("fixtime: 2-column ndarray input gives a different result than (time, data)", {"ticks": tk}, tags)
                    if list(info.tp) != [x - 1 for x in tp]:
                        run.deviation("PsdDsp (fixtime info)", "fixtime: turning points %s, the spec's drop-out rule gives %s" % (list(info.tp), [x - 1 for x in tp]), {"ticks": tk})
                # unsorted input (distinct times) is sorted; NaN / inf samples are drop-outs and leave no trace
                if len(set(tk)) == len(tk) and ci % 3 == 0:
                    perm = rng.permutation(len(tk))
                    if not np.any(np.diff(told[perm]) > 0):
                        perm = np.arange(len(tk))        # "no positive time step" is a documented error: not an unsorted record
                    tu, du = dsp.fixtime((told[perm], data[perm]), sr=sr, verbose=False)
                    if tu.tobytes() != tn.tobytes() or du.tobytes() != dn.tobytes():
                        run.violation("fixtime: unsorted input gives a different result than the sorted record", {"ticks": tk, "perm": perm}, dict(tags, clause="unsorted"))
                if ci % 3 == 1:
                    pos = int(rng.integers(0, len(tk) + 1))
                    tins = float(rng.integers(tk[0], tk[-1] + 1)) * tick if pos not in (0, len(tk)) else (told[0] if pos == 0 else told[-1])
                    t2 = np.insert(told, pos, told[pos - 1] if pos else told[0])
                    d2 = np.insert(data, pos, np.nan if ci % 2 else np.inf)
                    td, dd = dsp.fixtime((t2, d2), sr=sr, verbose=False)
                    if td.tobytes() != tn.tobytes() or dd.tobytes() != dn.tobytes():
                        run.violation("fixtime: a NaN/inf drop-out sample changes the result", {"ticks": tk, "pos": pos}, dict(tags, clause="dropout"))
                # base: the new time base hits `base` exactly
                if ci % 5 == 0 and L > 1:
                    base = float(told[0]) + 3.3 * dt + 0.37 * dt
                    tb, db = dsp.fixtime((told, data), sr=sr, verbose=False, base=base)
                    kk = (base - tb[0]) * sr
                    if abs(kk - round(kk)) > 1e-9 or abs(tb[0] - tn[0]) > dt / 2 + 1e-12 or db.tobytes() != dn.tobytes():
                        run.violation("fixtime(base=...): the time base does not hit `base` / moved by more than half a step / data changed", {"ticks": tk}, dict(tags, clause="base"))
            except Exception as ex:
                run.violation("fixtime raised %r" % ex, {"ticks": tk}, tags)
                continue
            # the two implementations of the nearest / previous helpers (vectorised in use here; numba bodies from the tree)
            tnew = told[0] + float(shift) + np.arange(L) * dt
            # helper names are private: if they are renamed the public clauses above still stand and this part is skipped
            variants = [("vectorised", getattr(dsp, "_find_closest_times", None), getattr(dsp, "_find_closest_previous_times", None))]
            if nb:
                variants.append(("numba-body", nb.get("_find_closest_times"), nb.get("_find_closest_previous_times")))
            for vname, fct, fpt in variants:
                if fct is not None:
                    idx = np.asarray(fct(told, tnew.copy()))
                    if [tk[int(k) % len(tk)] for k in idx] != list(near):
                        run.violation("_find_closest_times (%s): selected ticks %s, expected %s" % (vname, [tk[int(k) % len(tk)] for k in idx], list(near)),
                                      {"ticks": tk}, dict(tags, variant=vname))
                if fpt is not None:
                    for z, tol in enumerate(tolvals):
                        idx = np.asarray(fpt(told - dt * tol, tnew.copy()))
                        if [tk[int(k)] for k in idx] != list(prev[z]):
                            run.violation("_find_closest_previous_times (%s, tol=%g): selected ticks %s, expected %s" % (vname, tol, [tk[int(k)] for k in idx], list(prev[z])),
                                          {"ticks": tk}, dict(tags, variant=vname, hold=True, tol=tol))
        run.trace_validated()


# ----------------------------------------------------------------------------------------------- area / interp
def area_part(run, np, psd, T):
    import mpmath as mp
    mp.mp.dps = 30
    rng = np.random.default_rng(run.seed + 193)
    slopes = [-3.0, -1.5, -1 - 2e-5, -1 - 5e-6, -1.0, -1 + 5e-6, -1 + 2e-5, -3 / (10 * np.log10(2.0)), -0.5, 0.0, 0.5, 2.0, 6.0]
    segs = []
    for s in slopes:
        for ratio in (1.1, 2.0, 10.0, 100.0):
            f1 = float(rng.uniform(5, 50))
            p1 = float(rng.uniform(0.01, 2.0))
            f2 = f1 * ratio
            p2 = p1 * ratio ** s
            segs.append((s, f1, p1, f2, p2))
    for s, f1, p1, f2, p2 in segs:
        env = {k: mp.mpf(v) for k, v in dict(f1=f1, p1=p1, f2=f2, p2=p2).items()}
        want = terms.evm(T["areadef"], env, mp)
        st = terms.evm(T["slope"], env, mp)
        # the closed forms of the spec agree with the quadrature definition (model self-check)
        cf = terms.evm(T["areaminus1"] if abs(st + 1) < mp.mpf(10) ** -20 else T["areageneral"], env, mp)
        if abs(st + 1) > 1e-3 and abs(cf - want) > mp.mpf(10) ** -15 * abs(want):
            run.violation("spec: closed form of the segment area differs from the quadrature definition", {"seg": [s, f1, p1, f2, p2]}, {"where": "model"})
        got = float(psd.area(np.array([[f1, p1], [f2, p2]]))[0])
        run.case(("area", s, f2 / f1), part="area / interp terms")
        inside = abs(float(st) + 1.0) < 1e-5
        tol = (1e-5 * float(mp.log(f2 / f1))) if inside else max(1e-10, 4e-16 / abs(float(st) + 1.0))
        if abs(got - float(want)) > tol * float(want):
            run.violation("area of one segment (slope %.8g, f2/f1 = %g) is %.15g, integral of the log-log interpolation %.15g (relative %.3g)" % (
                float(st), f2 / f1, got, float(want), abs(got - float(want)) / float(want)), {"seg": [f1, p1, f2, p2]}, {"fn": "area", "inside_switch": inside})
        # interpolation: the specification at its own frequencies, the log-log law in between, the linear option, zero outside
        fm = float(np.sqrt(f1 * f2))
        spec = np.array([[f1, p1], [f2, p2]])
        v = psd.interp(spec, [f1, fm, f2, f1 * 0.9, f2 * 1.1]).ravel()
        wl = float(terms.evm(T["interp"], dict(env, f=mp.mpf(fm)), mp))
        vl = psd.interp(spec, [f1, fm, f2, f1 * 0.9, f2 * 1.1], linear=True).ravel()
        wlin = float(terms.evm(T["lininterp"], dict(env, f=mp.mpf(fm)), mp))
        run.case(("interp", s, f2 / f1), part="area / interp terms")
        if not (abs(v[0] - p1) <= 1e-13 * p1 and abs(v[2] - p2) <= 1e-12 * p2 and abs(v[1] - wl) <= 1e-12 * wl and v[3] == 0 and v[4] == 0):
            run.violation("interp: does not reproduce the specification at its own frequencies / the log-log law between / zero outside (%s)" % v.tolist(),
                          {"seg": [f1, p1, f2, p2]}, {"fn": "interp"})
        if not (abs(vl[0] - p1) <= 1e-13 * p1 and abs(vl[2] - p2) <= 1e-12 * p2 and abs(vl[1] - wlin) <= 1e-12 * wlin and vl[3] == 0 and vl[4] == 0):
            run.violation("interp(linear=True): not the linear interpolant (%s)" % vl.tolist(), {"seg": [f1, p1, f2, p2]}, {"fn": "interp"})
        # one ulp outside the end points: either "outside" (0) or the end value - never anything else
        ends = psd.interp(spec, [np.nextafter(f1, 0.0), np.nextafter(f2, np.inf)]).ravel()
        if not ((ends[0] == 0 or abs(ends[0] - p1) <= 1e-12 * p1) and (ends[1] == 0 or abs(ends[1] - p2) <= 1e-12 * p2)):
            run.violation("interp: a frequency within round-off of an end point gets %s (neither 0 nor the end value %s)" % (ends.tolist(), [p1, p2]),
                          {"seg": [f1, p1, f2, p2]}, {"fn": "interp", "clause": "endpoint-roundoff"})
        run.trace_validated()
    # additivity over segments, several PSD columns, NaN rows skipped
    for trial in range(30 if run.tier == "quick" else 1500):
        nb = int(rng.integers(2, 7))
        f = np.cumprod(np.r_[rng.uniform(5, 30), rng.uniform(1.05, 4.0, nb)])
        dbo = rng.choice([-6.0, -3.0, 0.0, 3.0, 6.0, -3.0103, 4.5], nb)
        cols = []
        for _c in range(2):
            p = [float(rng.uniform(0.01, 1.0))]
            for k in range(nb):
                p.append(p[-1] * 10 ** (dbo[(k + _c) % nb] / 10 * np.log2(f[k + 1] / f[k])))
            cols.append(p)
        spec = np.column_stack((f, np.array(cols).T))
        tot = psd.area(spec)
        parts = sum(psd.area(spec[k : k + 2]) for k in range(nb))
        run.case(("area-additive", trial), part="area / interp terms")
        if not np.allclose(tot, parts, rtol=1e-13):
            run.violation("area is not additive over segments", {"spec": spec}, {"fn": "area"})
        tup = psd.area((f, np.array(cols[0])))
        if abs(tup[0] - tot[0]) > 1e-14 * tot[0]:
            run.violation("area: (freq, psd) tuple input differs from the 2-D array input", {"spec": spec}, {"fn": "area"})
        iv = psd.interp(spec, f)
        if not np.allclose(iv, spec[:, 1:], rtol=1e-12):
            run.violation("interp does not reproduce a multi-segment specification at its own frequencies", {"spec": spec}, {"fn": "interp"})
        # the area equals the trapezoid integral of the log-log interpolation on a fine grid (within the trapezoid error)
        ff = np.exp(np.linspace(np.log(f[0]), np.log(f[-1]), 20001))
        pi_ = psd.interp(spec, ff)[:, 0]
        tz = np.sum((pi_[1:] + pi_[:-1]) / 2 * np.diff(ff))
        if abs(tz - tot[0]) > 2e-6 * tot[0]:
            run.violation("area differs from the numerical integral of interp (%.9g vs %.9g)" % (tot[0], tz), {"spec": spec}, {"fn": "area"})


def body(run: Run, replay):
    import numpy as np
    warnings.simplefilter("ignore")
    from pyyeti import psd, dsp
    run.rule = ("rescale: every linear layout of the model (2-4 input bands x 2-4 output bands x 8 offsets x 4 widths x extendends) "
                "vector and matrix input, + seeded logarithmic layouts and the default octave scales; resample: n <= 12, p, q <= 6, "
                "pts in {2, 10}, three axis positions - shape, constants, kept originals, every output sample from the FIR definition; "
                "fixtime: every step pattern over {8,7,9,10,16,0,4,20} ticks up to 5 (thorough 6) samples - length, uniform aligned "
                "grid, nearest / previous maps (3 tolerances), both helper variants, unsorted / drop-out / base / packaging laws; "
                "area / interp: 13 slopes (both sides of the s = -1 switch, exactly -3 dB/octave) x 4 frequency ratios against the "
                "quadrature definition, additivity, trapezoid cross-check. distinct non-trivial = cases")
    run.assumptions = ["tie rule of fixtime compared on TIMES (samples recorded at the same instant are interchangeable)",
                       "inside the |s+1| < 1e-5 switch of psd.area the documented s = -1 formula is accepted to 1e-5 ln(f2/f1) relative",
                       "despiking / outlier-time heuristics of fixtime are off or cannot trigger (<= 6 samples)",
                       "resample(t=...) positions are not part of the statement and are not compared",
                       "trusted: TLC, mpmath (quadrature, Bessel I0), the generic term evaluator"]
    res = tlc.run("PsdDsp", "MC_PsdDsp_terms.cfg", timeout=300)
    run.add_tlc("MC_PsdDsp_terms.cfg", res, "term export")
    T = res.tagged("TERMS")[0][0]
    rescale_part(run, np, psd, T)
    resample_part(run, np, dsp, T)
    fixtime_part(run, np, dsp)
    outtimes_part(run, np, dsp)
    area_part(run, np, psd, T)


if __name__ == "__main__":
    main("C19", "exploration", body)
