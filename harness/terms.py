"""Generic evaluator for the symbolic terms exported by TLC (binding S).

A term is a nested list  [op, arg, ...]  exactly as TLC prints a tuple <<op, arg, ...>>.
This module knows nothing about pyYeti and contains no formula of any property: it only gives
meaning to the constructors.  Two back ends: numpy (float64 / complex128) and mpmath (50 digits).

constructors
  ["var", name]            environment lookup
  ["one"] ["num", n] ["rat", n, d]   constants
  ["add", a, b, ...] ["sub", a, b] ["neg", a] ["mul", a, b, ...] ["div", a, b]
  ["matmul", A, x]  ["solve", A, b]  ["zero", x] (zeros shaped like x)
  ["exp", a] ["sqrt", a] ["sin", a] ["cos", a] ["sinh", a] ["cosh", a] ["pow", a, n] ["abs", a]
  ["re", a] ["im", a] ["conj", a] ["I"]
"""
import numpy as np


def _as(x):
    return x


def ev(t, env, memo=None):
    """numpy evaluation"""
    if memo is None:
        memo = {}
    key = id(t)
    if key in memo:
        return memo[key]
    op = t[0]
    if op == "var":
        r = env[t[1]]
    elif op == "one":
        r = 1.0
    elif op == "num":
        r = float(t[1])
    elif op == "rat":
        r = t[1] / t[2]
    elif op == "I":
        r = 1j
    elif op == "add":
        r = ev(t[1], env, memo)
        for u in t[2:]:
            r = r + ev(u, env, memo)
    elif op == "sub":
        r = ev(t[1], env, memo) - ev(t[2], env, memo)
    elif op == "neg":
        r = -ev(t[1], env, memo)
    elif op == "mul":
        r = ev(t[1], env, memo)
        for u in t[2:]:
            r = r * ev(u, env, memo)
    elif op == "div":
        r = ev(t[1], env, memo) / ev(t[2], env, memo)
    elif op == "matmul":
        A = ev(t[1], env, memo)
        x = ev(t[2], env, memo)
        r = (A[:, None] * x if x.ndim == 2 else A * x) if getattr(A, "ndim", 2) == 1 else A @ x
    elif op == "solve":
        A = ev(t[1], env, memo)
        b = ev(t[2], env, memo)
        if getattr(A, "ndim", 2) == 1:
            r = b / (A[:, None] if b.ndim == 2 else A)
        else:
            r = np.linalg.solve(A, b)
    elif op == "zero":
        r = np.zeros_like(ev(t[1], env, memo))
    elif op == "exp":
        r = np.exp(ev(t[1], env, memo))
    elif op == "sqrt":
        r = np.sqrt(ev(t[1], env, memo))
    elif op == "sin":
        r = np.sin(ev(t[1], env, memo))
    elif op == "cos":
        r = np.cos(ev(t[1], env, memo))
    elif op == "sinh":
        r = np.sinh(ev(t[1], env, memo))
    elif op == "cosh":
        r = np.cosh(ev(t[1], env, memo))
    elif op == "pow":
        r = ev(t[1], env, memo) ** ev(t[2], env, memo)
    elif op == "abs":
        r = np.abs(ev(t[1], env, memo))
    elif op == "re":
        r = np.real(ev(t[1], env, memo))
    elif op == "im":
        r = np.imag(ev(t[1], env, memo))
    elif op == "conj":
        r = np.conj(ev(t[1], env, memo))
    else:
        raise ValueError("unknown term constructor %r" % (op,))
    memo[key] = r
    return r


def evmp(t, env, mp, memo=None):
    """mpmath scalar evaluation (env values are mp numbers)"""
    if memo is None:
        memo = {}
    key = id(t)
    if key in memo:
        return memo[key]
    op = t[0]
    f = lambda u: evmp(u, env, mp, memo)  # noqa
    if op == "var":
        r = env[t[1]]
    elif op == "one":
        r = mp.mpf(1)
    elif op == "num":
        r = mp.mpf(t[1])
    elif op == "rat":
        r = mp.mpf(t[1]) / mp.mpf(t[2])
    elif op == "I":
        r = mp.mpc(0, 1)
    elif op == "add":
        r = f(t[1])
        for u in t[2:]:
            r = r + f(u)
    elif op == "sub":
        r = f(t[1]) - f(t[2])
    elif op == "neg":
        r = -f(t[1])
    elif op == "mul":
        r = f(t[1])
        for u in t[2:]:
            r = r * f(u)
    elif op == "div":
        r = f(t[1]) / f(t[2])
    elif op == "exp":
        r = mp.exp(f(t[1]))
    elif op == "sqrt":
        r = mp.sqrt(f(t[1]))
    elif op == "sin":
        r = mp.sin(f(t[1]))
    elif op == "cos":
        r = mp.cos(f(t[1]))
    elif op == "sinh":
        r = mp.sinh(f(t[1]))
    elif op == "cosh":
        r = mp.cosh(f(t[1]))
    elif op == "pow":
        r = f(t[1]) ** f(t[2])
    elif op == "abs":
        r = abs(f(t[1]))
    elif op == "re":
        r = mp.re(f(t[1]))
    elif op == "im":
        r = mp.im(f(t[1]))
    elif op == "conj":
        r = mp.conj(f(t[1]))
    else:
        raise ValueError("unknown term constructor %r" % (op,))
    memo[key] = r
    return r
