CONSTANTS
  MaxLen = 3
  MaxVal = 2
  Export = TRUE
INIT Init
NEXT Next
INVARIANT Laws
INVARIANT ExportOK
