"""C18: DOF-set partitions (specs/Uset.tla) and index look-ups (specs/Locate.tla).
TLC enumerates every assignment of base sets to K DOF slots, checks the lattice identities and exports the expected
partition vector (or refusal) for every (major, minor) pair; and evaluates the defining equations of mkdofpv and the
locate helpers for every query over small sequences.  Every exported case is replayed exhaustively into the code."""
import json

from . import tlc
from .runner import main, Run

REFUSE2 = [2]


def body(run: Run, replay):
    import numpy as np
    import warnings
    warnings.simplefilter("ignore")
    from pyyeti.nastran import n2p
    from pyyeti import locate

    run.rule = ("Uset: all assignments of the 8 base sets to K DOF slots (3 table layouts via make_uset / addgrid) x all 22x22 "
                "(major, minor) set expressions, exception <=> Refuse; bit table bound by membership of every base set in every named "
                "set. Locate: every query of mkdofpv (2-D [id, comps] and 1-D id lists, strict / non-strict, grids_only) and of "
                "find_duplicates, flippv, index2bool, index2slice, find_subseq, find_vals, mat_intersect, list_intersect, merge_lists "
                "over all sequences up to the bound. distinct non-trivial = cases whose expected answer is neither empty nor a refusal")
    run.assumptions = ["expected answers are computed by TLC from specs/Uset.tla and specs/Locate.tla",
                       "where the code may pick among equal candidates (duplicate haystack rows) the spec exports the admissible set"]
    quick = run.tier == "quick"
    # ---------------- Uset ---------------------------------------------------------------------
    cfg = "MC_Uset_3.cfg"
    res = tlc.run("Uset", cfg, timeout=900)
    if res.violation:
        run.add_tlc(cfg, res)
        run.violation("TLC: %s on the Uset model" % res.violation, {"tlc": res.error_text()}, {"where": "model"})
        return
    run.add_tlc(cfg, res, "invariants OneBase Lattice PVLaws over all 8^K assignments")
    memb = res.tagged("MEMB")
    names, members = memb[0]
    for a, nm in enumerate(names):
        for b in "msoqrcbe":
            real = (n2p.mkusetmask(b) & n2p.mkusetmask(nm)) != 0
            run.case(("memb", nm, b), part="mkusetmask bit table")
            if real != (b in members[a]):
                run.violation("mkusetmask: base set %r %s in %r" % (b, "is" if b in members[a] else "is not", nm),
                              {"name": nm, "base": b}, {"fn": "mkusetmask"})
    maskd = n2p.mkusetmask()
    layouts = ("make_uset", "addgrid", "spoints", "addgrid6")
    nsample = 0
    for assign, table in res.tagged("USET"):
        K = len(assign)
        for layout in layouts:
            if quick and (hash((tuple(assign), layout)) % 3 != 0):
                continue
            if layout == "make_uset":
                rowslots = [0, 0, 0, 1, 1, 1, 2]
                dof = [[10, d] for d in range(1, 7)] + [[20, 0]]
                nasset = [assign[0]] * 3 + [assign[1]] * 3 + [assign[2]]
                uset = n2p.make_uset(dof, nasset)
            elif layout == "addgrid":
                rowslots = [0, 0, 0, 1, 1, 1] + [2] * 6
                uset = n2p.addgrid(None, 10, assign[0] * 3 + assign[1] * 3, 0, [0.0, 0.0, 0.0], 0)
                uset = n2p.addgrid(uset, 20, assign[2], 0, [1.0, 0.0, 0.0], 0)
            elif layout == "addgrid6":
                # per-DOF set strings in which every DOF's letter differs from its neighbours' (whenever the slots differ),
                # once as a single string and once inside a list of per-grid specifications
                rowslots = [0, 1, 2, 1, 0, 2] + [2, 0, 1, 0, 2, 1] + [1, 2, 0, 2, 1, 0]
                s6 = ["".join(assign[i] for i in rowslots[k:k + 6]) for k in (0, 6, 12)]
                uset = n2p.addgrid(None, 10, s6[0], 0, [0.0, 0.0, 0.0], 0)
                uset = n2p.addgrid(uset, [20, 30], s6[1:], 0, [[1.0, 0.0, 0.0], [0.0, 2.0, 0.0]], 0)
            else:
                rowslots = [0, 1, 2]
                uset = n2p.make_uset([[1, 0], [2, 0], [3, 0]], list(assign))
            for a, major in enumerate(names):
                for b, minor in enumerate(names):
                    exp = table[a][b]
                    for as_mask in (False, True):
                        if as_mask and (a + b) % 5:
                            continue
                        M = n2p.mkusetmask(major) if as_mask else major
                        try:
                            pv = n2p.mksetpv(uset, M, minor)
                            got = [int(x) for x in pv]
                            refused = False
                        except ValueError:
                            refused = True
                        run.case(None, nontrivial=False)
                        if exp == REFUSE2:
                            ok = refused
                        else:
                            in_major = [i for i in range(K) if maskd[assign[i]] & n2p.mkusetmask(major)]
                            e = [exp[in_major.index(i)] for i in rowslots if i in in_major]
                            ok = (not refused) and got == e
                        if not ok:
                            run.violation("mksetpv(%r, %r) on layout %s: expected %s" % (major, minor, layout, "refusal" if exp == REFUSE2 else exp),
                                          {"assign": assign, "layout": layout, "major": major, "minor": minor,
                                           "got": "refused" if refused else got}, {"fn": "mksetpv"})
                            if len(run.violations) > 5:
                                return
            run.case(("uset", tuple(assign), layout), nontrivial=len(set(assign)) > 1, part="mksetpv assignments x layouts")
            run.trace_validated()
            if nsample < 3 and len(set(assign)) == 3:
                nsample += 1
                run.sample({"assign": assign, "layout": layout, "pv[a][b] for first names": [row[:4] for row in table[:4]]})
    # ---------------- Locate -------------------------------------------------------------------
    cfg = "MC_Locate.cfg" if quick else "MC_Locate_t.cfg"
    res = tlc.run("Locate", cfg, timeout=1500, heap="8g")
    res2 = tlc.run("Locate", "MC_Locate_v2.cfg", timeout=600)
    for r_, c_ in ((res, cfg), (res2, "MC_Locate_v2.cfg")):
        if r_.violation:
            run.add_tlc(c_, r_)
            run.violation("TLC: %s on the Locate model" % r_.violation, {"tlc": r_.error_text()}, {"where": "model"})
            return
    run.add_tlc(cfg, res, "invariant Laws; one state per query; table variant 1")
    run.add_tlc("MC_Locate_v2.cfg", res2, "table variant 2 (same rows, other set assignment) for the edit-in-place history")
    tab1 = [list(r) for r in res.tagged("TABLE")[0][1]]
    tab2 = [list(r) for r in res2.tagged("TABLE")[0][1]]
    uset = n2p.make_uset([r[:2] for r in tab1], [r[2] for r in tab1])
    idx = [(int(i), int(d)) for i, d in uset.index]
    if idx != [(r[0], r[1]) for r in tab1] or [r[:2] for r in tab1] != [r[:2] for r in tab2]:
        run.violation("make_uset does not keep the rows in the order given (ids / components %r)" % (idx,), {"table": tab1}, {"fn": "make_uset"})
        return
    masks = {1: np.array([n2p.mkusetmask(r[2]) for r in tab1]), 2: np.array([n2p.mkusetmask(r[2]) for r in tab2])}
    arr = np.array([r[:2] for r in tab1])

    def set_variant(k):
        """edit the SAME DataFrame object in place (same rows, other set membership)"""
        uset.loc[:, "nasset"] = masks[k]

    def comps_int(c):
        return int("".join(str(x) for x in c))

    # instantiations of the spec's value ids: equality structure preserved (injective maps), dtypes varied
    MIX = {0: 0, 1: 2, 2: 2.5, 3: 3, 4: 4}

    def inst_arrays(a, b):
        """yield (label, A, B) numpy arrays for a two-array query"""
        yield "int", np.array(a, int), np.array(b, int)
        yield "float", np.array(a, float) * 0.5, np.array(b, float) * 0.5
        if 2 not in a:
            yield "int-vs-float", np.array([MIX[x] for x in a], int), np.array([MIX[x] for x in b], float)
        if 2 not in b:
            yield "float-vs-int", np.array([MIX[x] for x in a], float), np.array([MIX[x] for x in b], int)
        yield "int32-vs-int64", np.array(a, np.int32), np.array(b, np.int64) + 0
        # the answers depend on which values are EQUAL, not on their size: large neighbouring ids (Nastran id*10+dof keys) and large floats
        yield "large ids", np.array(a, np.int64) + 9900100, np.array(b, np.int64) + 9900100
        yield "large floats", np.array(a, float) * 2.0 + 1.0e6, np.array(b, float) * 2.0 + 1.0e6

    def do_mkdofpv(q, ans):
        fn = q["fn"]
        if fn == "mkdofpv2":
            dof = [[it[0], comps_int(it[1])] for it in q["req"]]
            kw = {}
        else:
            dof = list(q["ids"])
            kw = {"grids_only": q["go"]}
        exp_pv, exp_dof = ans
        bad = None
        for target in ("frame", "array"):
            if target == "array" and (q["set"] != "p"):
                continue
            try:
                pv, od = n2p.mkdofpv(uset if target == "frame" else arr, q["set"], dof, strict=q["strict"], **kw)
                got = ([int(x) for x in pv], [[int(a), int(b)] for a, b in od])
                refused = False
            except ValueError:
                refused = True
            if exp_pv == [-1]:
                if not refused:
                    bad = {"target": target, "got": got, "expected": "refusal"}
            elif refused or got[0] != exp_pv or got[1] != [list(x) for x in exp_dof]:
                bad = {"target": target, "got": "refused" if refused else got, "expected": [exp_pv, exp_dof]}
        return bad, exp_pv not in ([-1], [])

    ans2 = {json.dumps(q, sort_keys=True): ans for q, ans in res2.tagged("LOC") if q["fn"].startswith("mkdofpv")}
    for q, ans in res.tagged("LOC"):
        fn = q["fn"]
        bad = None
        nontriv = True
        try:
            if fn == "find_duplicates":
                for lab, A, _ in inst_arrays(q["a"], q["a"]):
                    got = [int(x) for x in locate.find_duplicates(A)]
                    if got != ans:
                        bad = {lab: got}
                nontriv = any(ans)
            elif fn == "flippv":
                got = [int(x) for x in locate.flippv(np.array(q["a"], int), q["n"])]
                bad = None if got == ans else got
            elif fn == "index2bool":
                got = [int(x) for x in locate.index2bool(np.array(q["a"], int), q["n"])]
                bad = None if got == ans else got
            elif fn == "index2slice":
                pv = np.array(q["a"], int)
                s_ = locate.index2slice(pv)
                conv = isinstance(s_, slice)
                if conv != bool(ans[0]):
                    bad = "convertible=%s" % conv
                elif conv and list(np.arange(max(q["a"], default=0) + 4)[s_]) != q["a"]:
                    bad = "slice %r does not reproduce pv" % (s_,)
                elif not conv and list(s_) != q["a"]:
                    bad = "non-convertible pv not returned unchanged"
                if bad is None:
                    try:
                        locate.index2slice(pv, strict=True)
                        raised = False
                    except ValueError:
                        raised = True
                    if raised == bool(ans[0]):
                        bad = "strict=True raised=%s" % raised
            elif fn == "find_subseq":
                for lab, A, B in inst_arrays(q["a"], q["b"]):
                    got = [int(x) for x in locate.find_subseq(A, B)] if q["a"] else []
                    if got != ans:
                        bad = {lab: got}
                nontriv = bool(ans)
            elif fn == "find_vals":
                for lab, A, B in inst_arrays(q["a"], q["b"]):
                    got = [int(x) for x in locate.find_vals(A, B)]
                    if got != ans:
                        bad = {lab: got}
                nontriv = any(ans)
            elif fn == "mat_intersect":
                which, pvN, adm = ans
                for lab, A1, B1 in inst_arrays(q["a"], q["b"]):
                    for form in ("vec", "mat"):
                        if form == "vec":
                            p1, p2 = locate.mat_intersect(A1, B1, q["keep"])
                        else:  # the same rows as 2-column matrices [v, 7 - v]
                            p1, p2 = locate.mat_intersect(np.column_stack((A1, 7 - A1)), np.column_stack((B1, 7 - B1)), q["keep"])
                        pn, ph = (p1, p2) if which == 1 else (p2, p1)
                        if [int(x) for x in pn] != pvN or len(ph) != len(pvN) or any(int(h) not in adm[i] for i, h in enumerate(ph)):
                            bad = {"values": lab, "form": form, "pv1": [int(x) for x in p1], "pv2": [int(x) for x in p2]}
                nontriv = bool(pvN)
            elif fn == "list_intersect":
                for lab, f in (("int", lambda x: x), ("str", lambda x: "s%d" % x), ("float", lambda x: MIX[x] * 1.0), ("tuple", lambda x: (x, -x))):
                    p1, p2 = locate.list_intersect([f(x) for x in q["a"]], [f(x) for x in q["b"]])
                    got = [[int(x) for x in p1], [int(x) for x in p2]]
                    if got != [ans[0], ans[1]]:
                        bad = {lab: got}
                nontriv = bool(ans[0])
            elif fn == "merge_lists":
                for lab, f in (("int", lambda x: x), ("str", lambda x: "s%d" % x)):
                    l1, l2 = [f(x) for x in q["a"]], [f(x) for x in q["b"]]
                    m, p1, p2 = locate.merge_lists(l1, l2)
                    items, n = ans
                    if set(m) != set(f(x) for x in items) or len(m) != n or [m[i] for i in p1] != l1 or [m[i] for i in p2] != l2 \
                            or list(p1) != sorted(p1) or m is l1:
                        bad = {"values": lab, "merged": m, "pv1": p1, "pv2": p2}
            elif fn in ("mkdofpv2", "mkdofpv1"):
                bad, nontriv = do_mkdofpv(q, ans)
                key = json.dumps(q, sort_keys=True)
                if bad is None and key in ans2:
                    # history: look-up, edit the table object in place, look-up again, restore
                    set_variant(2)
                    try:
                        bad2, _ = do_mkdofpv(q, ans2[key])
                    finally:
                        set_variant(1)
                    if bad2 is not None:
                        bad = {"after an in-place edit of the table to variant 2": bad2}
                    else:
                        bad3, _ = do_mkdofpv(q, ans)
                        if bad3 is not None:
                            bad = {"after restoring variant 1 in place": bad3}
        except Exception as ex:
            bad = "raised %r" % ex
        run.case(json.dumps(q, sort_keys=True), nontrivial=nontriv, part=fn)
        run.trace_validated()
        if bad is not None:
            run.violation("%s: real answer differs from the defining equation (spec)" % fn, {"query": q, "spec": ans, "got": bad}, {"fn": fn})
            if len(run.violations) > 8:
                return
    run.sample({"locate query": q, "spec answer": ans})
    run.exhaustive = True


if __name__ == "__main__":
    main("C18", "model_checking", body)
