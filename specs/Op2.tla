-------------------------------- MODULE Op2 --------------------------------
(***************************************************************************)
(* C11 (OUTPUT2 part).  Framing of Nastran OUTPUT2 files as a stream of    *)
(* tokens  K(k) (a one-integer "key" record)  |  R(n) (a data record of n   *)
(* words), the encoder for data blocks (matrices and tables, with columns   *)
(* and records split into arbitrarily many physical parts), and the reader  *)
(* automaton of pyYeti (rdop2nt, rdop2matrix, skipop2matrix, rdop2record,   *)
(* skipop2record, rdop2tabheaders, directory) transcribed at token level.   *)
(*                                                                          *)
(*  data block:  K2 R(name) K-1 K7 R(trailer) K-2 K1 K0 K2 R(name) K-3 K1   *)
(*               K(type)          type 1 = matrix, 0 = table                *)
(*  matrix    :  per column c:  [K(n) R(row, n value words)]*  K-(3+c) K1   *)
(*               K(1 if another column follows else 0);  then K0            *)
(*  table     :  per logical record r: [K(n) R(n)]+  K-(3+r) K1 K0 ; then K0*)
(***************************************************************************)
EXTENDS Integers, Sequences, FiniteSets, TLC

CONSTANTS MaxBlocks, Export

K(v) == <<"K", v>>
R(n, tag) == <<"R", n, tag>>          \* tag identifies the content (driver instantiates)

\* ----- abstract blocks ---------------------------------------------------
\* matrix: cols = sequence (one per column) of sequences of strings <<r0, n>>
\* table : recs = sequence (one per logical record) of sequences of part lengths
MatBlocks == { [kind |-> "m", cols |-> c] : c \in
                 { <<a, b>> : a \in {<<>>, <<<<1, 2>>>>, <<<<1, 1>>, <<3, 1>>>>, <<<<2, 1>>, <<3, 1>>>>},
                              b \in {<<>>, <<<<2, 2>>>>, <<<<1, 1>>, <<2, 1>>, <<3, 1>>>>} } }
TabBlocks == { [kind |-> "t", recs |-> r] : r \in
                 { <<a>> : a \in {<<3>>, <<2, 1>>, <<1, 1, 1>>} } \cup
                 { <<a, b>> : a \in {<<3>>, <<2, 1>>}, b \in {<<2>>, <<1, 1>>} } }
Blocks == MatBlocks \cup TabBlocks

RECURSIVE Flat(_)
Flat(ss) == IF ss = <<>> THEN <<>> ELSE Head(ss) \o Flat(Tail(ss))

NameGroup(i, type) == <<K(2), R(2, <<"name", i>>), K(-1), K(7), R(7, <<"trailer", i>>), K(-2), K(1), K(0),
                        K(2), R(2, <<"name2", i>>), K(-3), K(1), K(type)>>

EncCol(i, c, strs, last) ==
  Flat([k \in 1..Len(strs) |-> <<K(strs[k][2]), R(1 + strs[k][2], <<"str", i, c, strs[k][1], strs[k][2]>>)>>])
  \o <<K(-(3 + c)), K(1), K(IF last THEN 0 ELSE 1)>>

EncRec(i, r, parts) ==
  Flat([k \in 1..Len(parts) |-> <<K(parts[k]), R(parts[k], <<"part", i, r, k>>)>>]) \o <<K(-(3 + r)), K(1), K(0)>>

EncBlock(i, b) ==
  IF b.kind = "m"
  THEN NameGroup(i, 1) \o Flat([c \in 1..Len(b.cols) |-> EncCol(i, c, b.cols[c], c = Len(b.cols))]) \o <<K(0)>>
  ELSE NameGroup(i, 0) \o Flat([r \in 1..Len(b.recs) |-> EncRec(i, r, b.recs[r])]) \o <<K(0)>>

EncFile(bs) == Flat([i \in 1..Len(bs) |-> EncBlock(i, bs[i])])

\* ----- reader automaton (positions are 1-based token indices) -------------
Key(t, p) == t[p][2]
IsKey(t, p) == p <= Len(t) /\ t[p][1] = "K"

\* rdop2nt: returns <<pos after the group, type>> or <<0, -1>> at end of file
RdNT(t, p) == IF p > Len(t) \/ Key(t, p) = 0 THEN <<0, -1>> ELSE <<p + 13, Key(t, p + 12)>>

\* rdop2matrix / skipop2matrix:  dtype = 1; while dtype > 0: key; while key > 0: record, key; getkey; dtype = getkey; eot
RECURSIVE MatStrings(_, _, _)
MatStrings(t, p, acc) ==            \* p at a key; returns <<pos of the non-positive key, strings read>>
  IF Key(t, p) > 0 THEN MatStrings(t, p + 2, Append(acc, t[p + 1][3])) ELSE <<p, acc>>
RECURSIVE MatCols(_, _, _)
MatCols(t, p, acc) ==
  LET s == MatStrings(t, p, <<>>)
      dtype == Key(t, s[1] + 2)
  IN IF dtype > 0 THEN MatCols(t, s[1] + 3, Append(acc, s[2])) ELSE <<s[1] + 4, Append(acc, s[2])>>   \* + eot key
RdMatrix(t, p) == MatCols(t, p, <<>>)

\* rdop2record: <<pos after, parts>>; <<p+1, "end">> when the first key is 0
RdRecord(t, p) == IF Key(t, p) = 0 THEN <<p + 1, <<>>, TRUE>>
                  ELSE LET s == MatStrings(t, p, <<>>) IN <<s[1] + 3, s[2], FALSE>>
RECURSIVE RdTable(_, _, _)
RdTable(t, p, acc) == LET r == RdRecord(t, p) IN
                      IF r[3] THEN <<r[1], acc>> ELSE RdTable(t, r[1], Append(acc, r[2]))

\* directory: file-order list of <<start, stop, type>>
RECURSIVE Dir(_, _, _)
Dir(t, p, acc) == LET nt == RdNT(t, p) IN
  IF nt[1] = 0 THEN acc
  ELSE LET e == IF nt[2] > 0 THEN RdMatrix(t, nt[1])[1] ELSE RdTable(t, nt[1], <<>>)[1]
       IN Dir(t, e, Append(acc, <<p, e, nt[2]>>))

---------------------------------------------------------------------------
VARIABLES blocks, toks
Init == /\ blocks \in UNION {[1..n -> Blocks] : n \in 1..MaxBlocks}
        /\ toks = EncFile(blocks)
Next == UNCHANGED <<blocks, toks>>

D == Dir(toks, 1, <<>>)

\* the directory tiles the file: one entry per block, contiguous, ending at the end of the file
DirTiles == /\ Len(D) = Len(blocks)
            /\ D[1][1] = 1 /\ D[Len(D)][2] = Len(toks) + 1
            /\ \A i \in 1..(Len(D) - 1) : D[i][2] = D[i + 1][1]
            /\ \A i \in 1..Len(D) : D[i][3] = (IF blocks[i].kind = "m" THEN 1 ELSE 0)

\* positioned read = sequential read: starting at a directory entry, the block decodes to what was encoded
DecodeOK == \A i \in 1..Len(D) :
   LET nt == RdNT(toks, D[i][1]) IN
   IF blocks[i].kind = "m"
   THEN LET m == RdMatrix(toks, nt[1]) IN
        /\ m[1] = D[i][2]
        /\ Len(m[2]) = Len(blocks[i].cols)
        /\ \A c \in 1..Len(m[2]) : m[2][c] = [k \in 1..Len(blocks[i].cols[c]) |->
                                               <<"str", i, c, blocks[i].cols[c][k][1], blocks[i].cols[c][k][2]>>]
   ELSE LET tb == RdTable(toks, nt[1], <<>>) IN
        /\ tb[1] = D[i][2]
        /\ Len(tb[2]) = Len(blocks[i].recs)
        /\ \A r \in 1..Len(tb[2]) : tb[2][r] = [k \in 1..Len(blocks[i].recs[r]) |-> <<"part", i, r, k>>]

---------------------------------------------------------------------------
(* Named subsets.  rdop2mats / rdmats take a list of patterns: an exact name *)
(* or a prefix followed by "*".  Reading a named subset is filtering the     *)
(* full read: a data block is returned iff SOME pattern matches its name, in *)
(* file order, whatever the order of the patterns.  Names and prefixes are   *)
(* sequences of characters (TLC strings are atomic).                         *)
Chars(s) == s
NamePool == { <<"K", "H", "H">>, <<"K", "H", "H", "X">>, <<"M", "H", "H">>, <<"M", "A", "A">>, <<"K", "4", "H", "H">> }
Pats == { [pre |-> <<"K", "H", "H">>, wild |-> FALSE], [pre |-> <<"K", "H", "H">>, wild |-> TRUE], [pre |-> <<"K">>, wild |-> TRUE],
          [pre |-> <<"M">>, wild |-> TRUE], [pre |-> <<"M", "A", "A">>, wild |-> TRUE], [pre |-> <<"M", "H", "H">>, wild |-> FALSE],
          [pre |-> <<"Q">>, wild |-> TRUE], [pre |-> <<"K", "4", "H", "H">>, wild |-> FALSE], [pre |-> <<>>, wild |-> TRUE] }
MatchOne(name, pat) == IF pat.wild THEN Len(name) >= Len(pat.pre) /\ SubSeq(name, 1, Len(pat.pre)) = pat.pre ELSE name = pat.pre
Matches(name, pl) == \E i \in 1..Len(pl) : MatchOne(name, pl[i])
SubsetOf(file, pl) == SelectSeq(file, LAMBDA nm : Matches(nm, pl))
Files2 == {f \in NamePool \X NamePool : f[1] # f[2]}        \* two data blocks with different names, in file order
PatLists == {<<p>> : p \in Pats} \cup {pq \in Pats \X Pats : pq[1] # pq[2]}
Rev(sq) == [i \in 1..Len(sq) |-> sq[Len(sq) + 1 - i]]
SubsetLaws == \A f \in Files2 : \A pl \in PatLists :
   /\ SubsetOf(f, pl) = SubsetOf(f, Rev(pl))                                   \* the order of the patterns does not matter
   /\ \A i \in 1..Len(f) : (\E k \in 1..Len(SubsetOf(f, pl)) : SubsetOf(f, pl)[k] = f[i]) <=> (\E j \in 1..Len(pl) : MatchOne(f[i], pl[j]))
   /\ (Len(pl) = 2 => \A i \in 1..Len(f) : Matches(f[i], pl) <=> (MatchOne(f[i], pl[1]) \/ MatchOne(f[i], pl[2])))
ExportSubsets == (Export /\ Len(blocks) = 1 /\ blocks[1] = CHOOSE b \in Blocks : TRUE) =>
   PrintT(<<"SUBSETS", {<<f, {<<pl, SubsetOf(f, pl)>> : pl \in PatLists}>> : f \in Files2}>>)

ExportOK == Export => PrintT(<<"OP2", blocks, toks, D>>)
=============================================================================
