"""C11, OUTPUT2 part.  specs/Op2.tla: token grammar (keys / records), encoder for matrix and table data blocks with
columns / records split into arbitrary physical parts, and the reader automaton at token level; TLC checks that the
directory tiles the file and that positioned reads decode what was encoded, and exports every small file.  Each is
rendered by the neutral renderer (harness/phys_op2.py) in every physical variant (byte order x 32/64-bit x
single/double x real/complex x with/without file label) and read with OP2.directory, rdop2mats, set_position +
rdop2nt + rdop2matrix / rdop2record / rdop2tabheaders.  Shipped op2 files are tokenised and their block structure
compared with directory()."""
import glob
import os
import struct
import tempfile

from . import tlc
from . import phys_op2 as P2
from .runner import REPO

NROWS = 3


def chars(name, ib):
    b = name.encode().ljust(8)
    if ib == 8:
        return b[:4] + b"    " + b[4:] + b"    "
    return b


def instantiate(blocks, toks, v, rng):
    """token stream with tags -> (bytes tokens, expectation dict, token index -> byte offset)"""
    E, ib, mtype = v["endian"], v["ib"], v["mtype"]
    ik = "q" if ib == 8 else "i"
    cplx = mtype > 2
    single = bool(mtype & 1)
    rk, rb = ("f", 4) if (single and ib == 4) else ("d", 8)
    out = []
    exp = {"names": [], "mats": {}, "recs": {}, "kinds": []}
    header = []
    if v["label"]:
        header = [("K", 3), ("R", struct.pack(E + "3" + ik, 9, 27, 26)), ("K", 7),
                  ("R", b"NASTRAN FORT TAPE ID CODE - " if ib == 4 else b"NAST    RAN     FORT     TAP    E ID     COD    E -     "),
                  ("K", 2), ("R", chars("XXXXXXXX", ib)), ("K", -1), ("K", 0)]
    names = {}
    for i, b in enumerate(blocks, 1):
        names[i] = ("MX%d" % i) if b["kind"] == "m" else ("TB%d" % i)
        if v.get("names"):
            names[i] = v["names"][i - 1]
        exp["names"].append(names[i])
        exp["kinds"].append(1 if b["kind"] == "m" else 0)
        if b["kind"] == "m":
            import numpy as np
            exp["mats"][names[i]] = np.zeros((NROWS, len(b["cols"])), complex if cplx else float)
        else:
            exp["recs"][names[i]] = [[] for _ in b["recs"]]
    pending_key = None
    for t in toks:
        if t[0] == "K":
            out.append(["K", t[1]])
            continue
        tag = t[2]
        kind = tag[0]
        if kind in ("name", "name2"):
            out.append(["R", chars(names[tag[1]], ib)])
        elif kind == "trailer":
            i = tag[1]
            b = blocks[i - 1]
            if b["kind"] == "m":
                tr = (100 + i, len(b["cols"]), NROWS, 2, mtype, 0, 0)
            else:
                tr = (100 + i, 0, 0, 0, 0, 0, 0)
            out.append(["R", struct.pack(E + "7" + ik, *tr)])
        elif kind == "str":
            _, i, c, r0, n = tag
            vals = []
            for k in range(n):
                re_ = float(rng.integers(-8, 9)) * 0.25 + (0.0 if single else 1e-13)
                im_ = float(rng.integers(-8, 9)) * 0.5
                if single and ib == 4:
                    re_ = struct.unpack("f", struct.pack("f", re_))[0]
                if cplx:
                    vals += [re_, im_]
                    exp["mats"][names[i]][r0 - 1 + k, c - 1] = complex(re_, im_)
                else:
                    vals.append(re_)
                    exp["mats"][names[i]][r0 - 1 + k, c - 1] = re_
            payload = struct.pack(E + ik, r0) + struct.pack(E + "%d%s" % (len(vals), rk), *vals)
            # the key in front of a string = number of words of values in the record
            out[-1][1] = (len(payload) - ib) // ib if (len(payload) - ib) % ib == 0 else max(1, (len(payload) - ib) // ib)
            out.append(["R", payload])
        elif kind == "part":
            _, i, r, k = tag
            nw = 3 * t[1]      # at least three words per part: rdop2tabheaders reads a 3-word record header
            ints = [int(x) for x in rng.integers(-1000, 1000, nw)]
            exp["recs"][names[i]][r - 1] += ints
            exp.setdefault("parts", {}).setdefault(names[i], []).append((ints[:3], nw * ib))
            out[-1][1] = nw
            out.append(["R", struct.pack(E + "%d%s" % (nw, ik), *ints)])
        else:
            raise RuntimeError("unknown tag %r" % (tag,))
    toksb = header + [tuple(x) for x in out] + ([("K", 0)] if v.get("eof") else [])
    # byte offsets of token starts (for the directory comparison)
    offs = []
    pos = 0
    for kd, val in toksb:
        offs.append(pos)
        pos += 8 + (ib if kd == "K" else len(val))
    offs.append(pos)
    if v.get("eof"):
        offs[-1] = offs[-2]
    return toksb, exp, offs, len(header)


def _close(o2):
    fh = getattr(o2, "_fileh", None)
    if fh is not None:
        fh.close()


def subsets_part(run, np, op2, res, files, variants, rng, quick):
    """spec section 'Named subsets': rdop2mats(names) / rdmats(names) with exact names and prefix* patterns in any order return
    exactly the data blocks some pattern matches, in file order (table exported by TLC for every two-matrix file x pattern list)"""
    tab = res.tagged("SUBSETS")
    if not tab:
        raise RuntimeError("no SUBSETS export from TLC")
    tab = tab[0][0]
    two = [(b, t, D) for b, t, D in files if len(b) == 2 and all(x["kind"] == "m" for x in b)]
    if not two:
        raise RuntimeError("no two-matrix file among the exported OP2 files")
    items = sorted(tab.items(), key=repr) if isinstance(tab, dict) else list(tab)
    n = 0
    for fi, (fnames, bylist) in enumerate(items):
        blocks, toks, D = two[fi % len(two)]
        v = dict(variants[(3 * fi) % len(variants)], names=["".join(x) for x in fnames])
        toksb, exp, offs, nh = instantiate(blocks, toks, v, rng)
        fd, path = tempfile.mkstemp(suffix=".op2", prefix="verif_")
        os.write(fd, P2.render(toksb, v["endian"], v["ib"]))
        os.close(fd)
        try:
            lists = sorted(bylist.items(), key=repr) if isinstance(bylist, dict) else list(bylist)
            for li, (pl, want) in enumerate(lists):
                if quick and (fi + li) % 3:
                    continue
                pats = ["".join(p_["pre"]) + ("*" if p_["wild"] else "") for p_ in pl]
                want = ["".join(x) for x in want]
                n += 1
                run.case(("op2-subset", tuple(v["names"]), tuple(pats)), nontrivial=len(pats) > 1, part="op2 named subsets")
                msg = None
                try:
                    o2 = op2.OP2(path)
                    try:
                        got = list(o2.rdop2mats(pats))
                    finally:
                        _close(o2)
                    got2 = list(op2.rdmats(path, pats))
                    if got != want:
                        msg = "rdop2mats(%r) on a file with %r returned %r, the patterns select %r" % (pats, v["names"], got, want)
                    elif got2 != want:
                        msg = "rdmats(%r) on a file with %r returned %r, the patterns select %r" % (pats, v["names"], got2, want)
                    else:
                        full = op2.rdmats(path)
                        sub = op2.rdmats(path, pats)
                        if any(not np.array_equal(sub[k], full[k]) for k in sub):
                            msg = "a matrix read through the named subset %r differs from the full read" % (pats,)
                except Exception as ex:
                    msg = "named-subset read %r raised %r" % (pats, ex)
                run.trace_validated()
                if msg:
                    run.violation("OP2 reader: " + msg, {"names": v["names"], "patterns": pats}, {"kind": "op2", "subset": True})
                    if len(run.violations) > 6:
                        return False
        finally:
            os.unlink(path)
    run.extra["op2_named_subset_reads"] = n
    return True


def run_op2(run):
    import numpy as np
    import warnings
    warnings.simplefilter("ignore")
    from pyyeti.nastran import op2

    res = tlc.run("Op2", "MC_Op2.cfg", timeout=900)
    if res.violation:
        run.add_tlc("MC_Op2.cfg", res)
        run.violation("TLC: %s on the Op2 model" % res.violation, {"tlc": res.error_text()}, {"where": "model"})
        return
    run.add_tlc("MC_Op2.cfg", res, "invariants DirTiles DecodeOK over all files of <= 2 blocks (12 matrix x 7 table block shapes); SubsetLaws over 20 two-block files x 81 pattern lists")
    files = res.tagged("OP2")
    rng = np.random.default_rng(run.seed)
    variants = [dict(endian=e, ib=ib, mtype=mt, label=lab) for e in ("<", ">") for ib in (4, 8) for mt in (1, 2, 3, 4) for lab in (False, True)]
    for k, v in enumerate(variants):
        v["eof"] = bool((k // 2) % 2)          # end-of-file key present / absent
    quick = run.tier == "quick"
    for fi, (blocks, toks, D) in enumerate(files):
        vs = [variants[(fi + 7 * k) % len(variants)] for k in range(2 if quick else len(variants))] if quick else variants
        for v in vs:
            toksb, exp, offs, nh = instantiate(blocks, toks, v, rng)
            data = P2.render(toksb, v["endian"], v["ib"])
            fd, path = tempfile.mkstemp(suffix=".op2", prefix="verif_")
            os.write(fd, data)
            os.close(fd)
            case = {"blocks": blocks, "variant": v}
            run.case((fi, str(v)), nontrivial=any(len(x) > 1 for b in blocks for x in (b.get("cols") or b.get("recs"))), part="op2 rendered")
            msg = None
            try:
                o2 = op2.OP2(path)
                try:
                    o2.directory(verbose=False)
                    if list(o2.names) != exp["names"]:
                        msg = "directory names %r, encoded %r" % (o2.names, exp["names"])
                    want = [(offs[nh + d[0] - 1], offs[nh + d[1] - 1], d[2]) for d in D]
                    got = [(int(a), int(b), int(t)) for a, b, t in zip(o2.dbstarts, o2.dbstops, o2.dbtypes)]
                    if msg is None and got != want:
                        msg = "directory byte ranges/types %r, spec %r" % (got, want)
                    if msg is None:
                        for nm, sns in zip(o2.names, o2.dblist):
                            if sns.dbtype == 1 and tuple(sns.size) != exp["mats"][nm].shape:
                                msg = "directory size of %s is %r" % (nm, sns.size)
                    if msg is None:
                        mats = o2.rdop2mats()
                        for nm, M in exp["mats"].items():
                            if nm not in mats or mats[nm].shape != M.shape or not np.array_equal(mats[nm], M):
                                msg = "rdop2mats: matrix %s differs from the encoded one" % nm
                    # positioned reads in reverse file order
                    if msg is None:
                        for nm, kind in reversed(list(zip(exp["names"], exp["kinds"]))):
                            o2.set_position(nm)
                            name, trailer, dbtype = o2.rdop2nt()
                            if name != nm or dbtype != kind:
                                msg = "rdop2nt after set_position(%s) returned %r type %r" % (nm, name, dbtype)
                                break
                            if kind == 1:
                                M = o2.rdop2matrix(trailer)
                                if not np.array_equal(M, exp["mats"][nm]):
                                    msg = "positioned rdop2matrix(%s) differs" % nm
                                    break
                            else:
                                recs = []
                                while True:
                                    r = o2.rdop2record()
                                    if r is None:
                                        break
                                    recs.append([int(x) for x in r])
                                if recs != exp["recs"][nm]:
                                    msg = "rdop2record: logical records of %s (multi-part records joined) differ from the encoded ones" % nm
                                    break
                                # skipping a (multi-part) record leaves the reader at the next one: skip record k, read record k+1
                                for ksk in range(len(exp["recs"][nm]) - 1):
                                    o2.set_position(nm)
                                    o2.rdop2nt()
                                    for _ in range(ksk):
                                        o2.rdop2record()
                                    o2.skipop2record()
                                    rn = o2.rdop2record()
                                    if rn is None or [int(x) for x in rn] != exp["recs"][nm][ksk + 1]:
                                        msg = "skipop2record on record %d of %s (%d logical records): the next record read is not record %d" % (
                                            ksk + 1, nm, len(exp["recs"][nm]), ksk + 2)
                                        break
                                if msg:
                                    break
                                o2.set_position(nm)
                                o2.rdop2nt()
                                hd = o2.rdop2tabheaders()
                                pe = exp["parts"][nm]    # one entry per PHYSICAL record: (first three words, record length)
                                if len(hd) != len(pe) or any(list(h[0]) != e[0] or h[1] != e[1] for h, e in zip(hd, pe)):
                                    msg = "rdop2tabheaders of %s: %r" % (nm, hd)
                                    break
                            fh_ = getattr(o2, "_fileh", None)         # private: where the reader stands after a block
                            stop = [b for a, b, t in got if True][exp["names"].index(nm)]
                            if fh_ is not None and fh_.tell() != stop:
                                run.deviation("Op2 (reader position)", "after reading %s the reader is at byte %d, next block starts at %d" % (nm, fh_.tell(), stop))
                finally:
                    _close(o2)
            except Exception as ex:
                msg = "OP2 reader raised %r" % ex
            finally:
                os.unlink(path)
            run.trace_validated()
            if msg:
                run.violation("OP2 reader: " + msg, case, {"kind": "op2"})
                if len([x for x in run.violations if x]) > 6:
                    return
    run.sample({"op2 blocks": files[-1][0], "directory(token idx)": files[-1][2]})
    if not subsets_part(run, np, op2, res, files, variants, rng, quick):
        return
    # shipped op2 files: tokenise; directory must tile the file and agree with the token-level block structure
    for f in sorted(glob.glob(os.path.join(REPO, "pyyeti/tests/nastran_op2_data/*.op2"))):
        base = os.path.basename(f)
        data = open(f, "rb").read()
        run.case(("shipped-op2", base), part="shipped op2 files")
        try:
            E, ib, recs = P2.records(data)
        except P2.FormatError as ex:
            run.violation("shipped op2 file is not a sequence of Fortran records: %s" % ex, {"file": base}, {"kind": "op2"})
            continue
        try:
            o2 = op2.OP2(f)
            o2.directory(verbose=False)
            starts, stops = [int(x) for x in o2.dbstarts], [int(x) for x in o2.dbstops]
            _close(o2)
        except Exception as ex:
            run.violation("directory() of shipped file raised %r" % ex, {"file": base}, {"kind": "op2"})
            continue
        offsets = set(off for off, _ in recs) | {len(data)}
        ok = all(s in offsets for s in starts) and all(s in offsets for s in stops) and starts[1:] == stops[:-1] and stops[-1] in (len(data), len(data) - 8 - ib)   # an end-of-file key 0 may follow the last block
        if not ok:
            run.violation("directory byte ranges of shipped file do not tile it on record boundaries", {"file": base, "starts": starts, "stops": stops,
                          "size": len(data)}, {"kind": "op2"})
        run.trace_validated()
