CONSTANTS
  NC = 3
  NR = 2
  Form = "one"
  Alpha = "one2"
  XLess = {1}
  Export = TRUE
SPECIFICATION Spec
INVARIANT TypeOK
INVARIANT TrueExtTwo
INVARIANT TrueExtOne
INVARIANT LabelsAttain
INVARIANT PerCase
INVARIANT AbscissaKnownIffHolderHasOne
INVARIANT ExportOK
