CONSTANTS
  MaxLen = 4
  MaxVal = 2
  Export = TRUE
  TableVariant = 1
INIT Init
NEXT Next
INVARIANT Laws
INVARIANT ExportOK
INVARIANT ExportTable
