----------------------------- MODULE BulkInclude -----------------------------
(***************************************************************************)
(* Growth of C12 / C13: the INCLUDE-following state machine of the bulk     *)
(* data readers (rdcards and everything built on it).                       *)
(*                                                                          *)
(* Three files:  F1 = root/main.bdf,  F2 = root/sub/f2.bdf,                 *)
(*               F3 = root/sub/f3.bdf.                                      *)
(* A file is a sequence of ITEMS:                                           *)
(*   <<"card", k>>   a matching one-line card                               *)
(*   <<"long", k>>   a matching card with a continuation line (the reader   *)
(*                   is then in "take the next line whatever it is" mode    *)
(*                   when it meets what follows)                            *)
(*   <<"other", k>>  a card of another name (must be skipped)               *)
(*   <<"inc", t, form, split>>   INCLUDE of file t, written as              *)
(*        form "name"    'f3.bdf'        -> relative to the CURRENT file    *)
(*        form "path"    'sub/f3.bdf'    -> relative to the ROOT directory  *)
(*        form "symbol"  'sym:f3.bdf'    -> relative to the symbol's base   *)
(*        split: the quoted path is broken over two lines                   *)
(* The documented resolution rules are Legal(form, from, to).  The reader   *)
(* is a depth-first expansion; the state machine below walks it with an     *)
(* explicit stack (file, position), the way the nested rdcards calls do,    *)
(* and records the cards in the order they are delivered.                   *)
(* TLC checks for every file tree: the walk terminates with an empty stack, *)
(* delivers exactly Expand(F1) (declarative definition), never descends     *)
(* deeper than the include depth, and resumes each file at the item after   *)
(* the INCLUDE (the look-ahead line handed back).                           *)
(***************************************************************************)
EXTENDS Integers, Sequences, FiniteSets, TLC

CONSTANTS Export, MaxItems1, MaxItems2

Dir(f) == IF f = 1 THEN "root" ELSE "sub"
Forms == {"name", "path", "symbol"}
Legal(form, from, to) == form # "name" \/ Dir(from) = Dir(to)
Targets(f) == IF f = 1 THEN {2, 3} ELSE IF f = 2 THEN {3} ELSE {}
Items(f) == {<<"card", 0>>, <<"long", 0>>, <<"other", 0>>}
            \cup UNION {{<<"inc", t, fm, sp>> : fm \in {x \in Forms : Legal(x, f, t)}, sp \in BOOLEAN} : t \in Targets(f)}
SeqsUpTo(S, n) == UNION {[1..k -> S] : k \in 0..n}
\* number every non-include item: id = 100 * file + position
Content3 == << <<"card", 0>>, <<"other", 0>>, <<"long", 0>> >>

VARIABLES c1, c2, stack, out, maxdepth
vars == <<c1, c2, stack, out, maxdepth>>
ContentOf(f) == IF f = 1 THEN c1 ELSE IF f = 2 THEN c2 ELSE Content3
Id(f, i) == 100 * f + i

RECURSIVE Expand(_, _, _, _)
\* declarative meaning: cards of file f from position i on, includes expanded in place
Expand(f, i, k1, k2) ==
  LET cont == IF f = 1 THEN k1 ELSE IF f = 2 THEN k2 ELSE Content3 IN
  IF i > Len(cont) THEN <<>>
  ELSE LET it == cont[i] IN
       (CASE it[1] \in {"card", "long"} -> <<Id(f, i)>>
          [] it[1] = "other" -> <<>>
          [] it[1] = "inc" -> Expand(it[2], 1, k1, k2)) \o Expand(f, i + 1, k1, k2)

Init == /\ c1 \in SeqsUpTo(Items(1), MaxItems1) /\ c2 \in SeqsUpTo(Items(2), MaxItems2)
        /\ stack = <<<<1, 1>>>> /\ out = <<>> /\ maxdepth = 1
Top == stack[Len(stack)]
Pop == SubSeq(stack, 1, Len(stack) - 1)
\* one reader step
Step ==
  /\ stack # <<>>
  /\ LET f == Top[1]  i == Top[2]  cont == ContentOf(f) IN
     IF i > Len(cont)
     THEN \* end of this file: return to the including file (already positioned after the INCLUDE)
          /\ stack' = Pop /\ UNCHANGED <<out, maxdepth, c1, c2>>
     ELSE LET it == cont[i] IN
          CASE it[1] \in {"card", "long"} ->
                 /\ out' = Append(out, Id(f, i)) /\ stack' = Append(Pop, <<f, i + 1>>) /\ UNCHANGED <<maxdepth, c1, c2>>
            [] it[1] = "other" ->
                 /\ stack' = Append(Pop, <<f, i + 1>>) /\ UNCHANGED <<out, maxdepth, c1, c2>>
            [] it[1] = "inc" ->
                 \* the including file is advanced FIRST (look-ahead line handed back), then the nested read starts
                 /\ stack' = Append(Append(Pop, <<f, i + 1>>), <<it[2], 1>>)
                 /\ maxdepth' = IF Len(stack) + 1 > maxdepth THEN Len(stack) + 1 ELSE maxdepth
                 /\ UNCHANGED <<out, c1, c2>>
Done == stack = <<>> /\ UNCHANGED vars
Next == Step \/ Done
Spec == Init /\ [][Next]_vars /\ WF_vars(Step)

DeliversExpansion == stack = <<>> => out = Expand(1, 1, c1, c2)
\* partial correctness during the walk: what has been delivered is a prefix of the expansion
PrefixSoFar == Len(out) <= Len(Expand(1, 1, c1, c2)) /\ \A j \in 1..Len(out) : out[j] = Expand(1, 1, c1, c2)[j]
DepthBound == maxdepth <= 3 /\ Len(stack) <= 3
Terminates == <>(stack = <<>>)
ExportTree == (Export /\ stack = <<<<1, 1>>>> /\ out = <<>>) => PrintT(<<"TREE", c1, c2, Content3, Expand(1, 1, c1, c2)>>)
\* ---- the writer side (growth): an INCLUDE statement written for a path of `depth` directories of `seg` characters each ---------------
\* the statement is  INCLUDE '<dirs>/<name>'; the reader joins the lines of a quoted name, so the writer may break it anywhere (it
\* prefers the "/" and cuts a piece that is itself too long).  It must be broken when it is longer than the line limit, no line may be
\* longer than the limit, the lines joined give the statement back, and however it is laid out the reader must open the file it names
WrCases == {<<depth, seg, mx, rel>> : depth \in 0..5, seg \in {3, 9, 20}, mx \in {24, 40, 72}, rel \in BOOLEAN}
NameLen == 9                                    \* "file3.bdf"
PathLen(c) == c[1] * (c[2] + 1) + NameLen       \* every directory contributes its name and a "/"
StatementLen(c) == 10 + PathLen(c)              \* INCLUDE, a blank and the two quotes
MustWrap(c) == StatementLen(c) > c[3]
MinLines(c) == (StatementLen(c) + c[3] - 1) \div c[3]
WrLaws == \A c \in WrCases : (MustWrap(c) <=> MinLines(c) > 1) /\ MinLines(c) >= 1
ExportWr == (Export /\ stack = <<<<1, 1>>>> /\ out = <<>> /\ c1 = <<>> /\ c2 = <<>>) =>
   PrintT(<<"WRINC", {<<c, MustWrap(c), MinLines(c)>> : c \in WrCases}>>)
=============================================================================
