CONSTANTS
  MaxLen = 5
  MaxVal = 8
  Export = TRUE
INIT Init
NEXT Next
INVARIANT TypeOK
INVARIANT ImplIsRef
INVARIANT SliceExact
INVARIANT CountIdentity
INVARIANT CountsAll
INVARIANT RowsNameTheirPoints
INVARIANT LargestCounted
INVARIANT Laws
INVARIANT LayoutLaw
INVARIANT ExportLayouts
INVARIANT ExportOK
PROPERTY InputNeverWritten
