#!/usr/bin/env python3
"""round-2 prompt: as tools/seed_prompt.py, plus the list of changes already tried for the property (titles only), so that the
new agent looks for DIFFERENT mechanisms.  Still nothing from /verif but the property text and those titles."""
import glob, json, os, subprocess, sys
pid = sys.argv[1]
rnd = sys.argv[2] if len(sys.argv) > 2 else "r2"
wt = "/tmp/seed_%s_%s" % (pid, rnd)
out = "/tmp/seedout_%s_%s" % (pid, rnd)
OLD = {
 "C05": ["py_rain offsets path: stale X after a nested full cycle", "c_rain no-offsets path: float32 intermediate"],
 "C08": ["cdforces cache reused after jumping back to an earlier step", "SolveExp2.get_f2x scales stored Q in place"],
 "C16": ["extrema keeps a reference to the first ext_x array (aliasing)", "DR_Event.apply_uf memoised on products of the uf tuple"],
 "C09": ["parallel _dosrs_nohist_ic ignores the residual window", "fdepsd worker copies row j-1 when a frequency repeats"],
 "C18": ["mkdofpv caches the sorted table across in-place edits", "mat_intersect casts needles to the haystack dtype"],
 "C04": ["ASCII exponent width from log10 (values rounding up to 1.0E+100)", "sparse input via tocoo() (duplicates not summed)"],
 "C11": ["bigmat threshold > at exactly 65536 rows", "OP2 single precision read as 4 bytes with 64-bit keys"],
 "C10": ["getbins bound check < (cycle on the first boundary)", "G2 = NaN when the total cycle count is exactly 1"],
 "C13": ["rddmig index built before the symmetric row/column union", "wtgrids drops PS or SEID when only one is given"],
}
tried = list(OLD.get(pid, []))
for d in sorted(glob.glob("/verif/seeded/%s-s*" % pid)):
    n = os.path.join(d, "notes.md")
    if os.path.exists(n):
        tried.append(open(n).readline().strip().lstrip("# ").strip())
base = subprocess.check_output([sys.executable, "/verif/tools/seed_prompt.py", pid], text=True)
base = base.replace("/tmp/seed_%s" % pid, wt).replace("/tmp/seedout_%s" % pid, out)
extra = ("\n\nIMPORTANT - changes ALREADY TRIED by others for this property (do NOT repeat these or close variants of them; look for different "
         "mechanisms, other functions among the relevant files, other clauses of the statement, other option combinations):\n"
         + "\n".join(" - " + t for t in tried)
         + "\n\nNote: the machine is shared; run the test suite at most three times in total (once for the baseline, once per change), "
           "with `-x` REMOVED and `-p no:cacheprovider -q`, and never two suite runs at the same time.\n")
print(base + extra)
