CONSTANTS
  MaxN = 10
  Mode = "dmig"
  Export = TRUE
  Big = FALSE
INIT Init
NEXT Next
INVARIANT ListLaws
INVARIANT DmigLaws
INVARIANT ExportLists
INVARIANT ExportDmig
