CONSTANTS
  MaxBlocks = 2
  Export = TRUE
INIT Init
NEXT Next
INVARIANT DirTiles
INVARIANT DecodeOK
INVARIANT SubsetLaws
INVARIANT ExportSubsets
INVARIANT ExportOK
