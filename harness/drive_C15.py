"""C15: Norton-Thevenin coupling reproduces the directly coupled system.

specs/NTFL.tla: the configuration lattice (interface size 1-3 x how Source and Load are handed over - free-free matrices with a
selection or a general recovery matrix, or Craig-Bampton form with a partition vector - x damping kind x force position;
90 legal configurations, every non-general class contains both computation routes) and the definitions as terms: dynamic
stiffness, boundary accelerance, apparent mass = its inverse, free acceleration, the NT equations, and the DIRECT solution of
the physically coupled system with a Lagrange multiplier for the interface constraint (shares nothing with ntfl/calcAM).
The driver instantiates every configuration with seeded spring-mass networks and compares calcAM and ntfl with the terms."""
import json
import warnings

from . import tlc, terms
from .runner import main, Run


def network(np, rng, n, damp_kind):
    """free-free spring-mass network with n scalar DOF: one rigid-body mode (uniform translation)"""
    M = np.diag(rng.uniform(0.5, 3.0, n))
    K = np.zeros((n, n))
    B = np.zeros((n, n))
    edges = [(i, i + 1) for i in range(n - 1)] + [(i, j) for i in range(n) for j in range(i + 2, n) if rng.uniform() < 0.4]
    for i, j in edges:
        k = rng.uniform(2e3, 2e4)
        e = np.zeros(n)
        e[i], e[j] = 1.0, -1.0
        K += k * np.outer(e, e)
        if damp_kind == "full":
            B += rng.uniform(0.5, 6.0) * np.outer(e, e)
    if damp_kind == "prop":
        B = 2.5e-4 * K
    if damp_kind == "none":
        B = np.zeros((n, n))
    return M, B, K


def body(run: Run, replay):
    import numpy as np
    import scipy.linalg as la
    warnings.simplefilter("ignore")
    from pyyeti import frclim, ode
    quick = run.tier == "quick"
    run.rule = ("all 90 legal configurations of specs/NTFL.tla x %d seeded Source/Load pairs x 6 frequencies (one far below the first flexible "
                "mode): calcAM = inverse boundary accelerance (term), every hand-over form of a component gives the same apparent mass, "
                "ntfl A and F = the Lagrange-multiplier solution of the coupled system, TAM = SAM + LAM exactly, R = diag((SAM+LAM)^-1 SAM), "
                "precomputed-array inputs, FreqDirect route, low-frequency rigid mass. distinct non-trivial = (configuration, pair)" % (6 if quick else 40))
    run.assumptions = ["scalar-DOF spring-mass networks (one rigid-body mode); interface sizes 1-3; damping at least 1e-4-proportional on the Source "
                       "so that no frequency sits on an undamped resonance of the coupled system",
                       "tolerance 1e-7 relative to the largest entry per frequency; trusted: TLC, generic evaluator (numpy complex)"]
    res = tlc.run("NTFL", "MC_NTFL.cfg", timeout=600)
    run.add_tlc("MC_NTFL.cfg", res, "90 legal configurations; ClassNonTrivial, RoutesCovered")
    if res.violation:
        run.violation("TLC: %s on the NTFL model" % res.violation, {"tlc": res.error_text()}, {"where": "model"})
        return
    T = res.tagged("TERMS")[0][0]
    rng = np.random.default_rng(run.seed + 15)

    def hand_over(form, M, B, K, nb, Rgen):
        """returns (list for calcAM, recovery matrix in the PHYSICAL coordinates used by the direct solution)"""
        n = M.shape[0]
        sel = np.hstack((np.eye(nb), np.zeros((nb, n - nb))))
        if form == "recovery-select":
            return [M, B, K, sel], sel
        if form == "recovery-general":
            Tg = Rgen @ sel
            Tg[:, nb:] += 0.3 * rng.standard_normal((nb, n - nb))
            return [M, B, K, Tg], Tg
        # Craig-Bampton form: constraint modes + an arbitrary invertible interior basis, then a random DOF order
        ni = n - nb
        for _ in range(50):               # an interior basis of moderate condition number (a nearly singular draw measures conditioning)
            Q = rng.standard_normal((ni, ni)) + 2.5 * np.eye(ni)
            if np.linalg.cond(Q) <= 30:
                break
        env = {"Kii": K[nb:, nb:], "Kib": K[nb:, :nb], "Ibb": np.eye(nb), "Obi": np.zeros((nb, ni)), "Q": Q}
        mats = [np.asarray(terms.ev(T[nm], dict(env, M=M, B=B, K=K)), float) for nm in ("mcb", "bcb", "kcb")]
        perm = rng.permutation(n)
        bdof = np.array([int(np.nonzero(perm == j)[0][0]) for j in range(nb)])
        mats = [X[np.ix_(perm, perm)] for X in mats]
        return [mats[0], mats[1], mats[2], bdof], sel

    for cfg, sroute, lroute, rigid_law in res.tagged("CFG"):
        nb = cfg["nb"]
        for rep in range(6 if quick else 150):
            ns, nl = nb + int(rng.integers(2, 5)), nb + int(rng.integers(1, 4))
            Ms, Bs, Ks = network(np, rng, ns, {"prop": "prop", "full": "full", "noload": "full", "gyro": "full"}[cfg["damp"]])
            if cfg["damp"] == "gyro":
                Ms, Bs, Ks = network(np, rng, ns, "full")
                Sg = rng.standard_normal((ns, ns))
                Pg = np.eye(ns) - np.ones((ns, ns)) / ns
                Bs = Bs + 2.0 * Pg @ (Sg - Sg.T) @ Pg
            Ml, Bl, Kl = network(np, rng, nl, {"prop": "prop", "full": "full", "noload": "none", "gyro": "full"}[cfg["damp"]])
            if cfg["damp"] == "gyro":
                Sl = rng.standard_normal((nl, nl))
                Pl = np.eye(nl) - np.ones((nl, nl)) / nl
                Bl = Bl + 2.0 * Pl @ (Sl - Sl.T) @ Pl          # the Load's apparent mass is non-symmetric as well
            for _ in range(50):
                Rgen = rng.standard_normal((nb, nb)) + 2 * np.eye(nb)
                if np.linalg.cond(Rgen) <= 30:
                    break
            tags = {"nb": nb, "sform": cfg["sform"], "lform": cfg["lform"], "damp": cfg["damp"], "fpos": cfg["fpos"]}
            run.case(("cfg", json.dumps(cfg, sort_keys=True), rep), part="NT coupling vs direct coupled solution")
            S_in, Ts = hand_over(cfg["sform"], Ms, Bs, Ks, nb, Rgen)
            L_in, Tl = hand_over(cfg["lform"], Ml, Bl, Kl, nb, Rgen)
            # frequencies: relative to the first flexible mode of the coupled-ish system
            w1 = np.sqrt(np.sort(la.eigh(Ks, Ms, eigvals_only=True))[1])
            freq = np.array([0.0002 if nb == 1 else 0.05, 0.3, 0.8, 1.7, 3.1, 6.0]) * w1 / 2 / np.pi   # vanishing frequency only for a determinate interface
            if rigid_law:
                freq = np.r_[freq, 0.0]              # and exactly 0 Hz, last in the vector
            lf = len(freq)
            Fs = np.zeros((ns, lf), complex)
            rows = range(nb, ns) if cfg["fpos"] == "interior" else range(0, nb)
            for r_ in rows:
                Fs[r_] = rng.standard_normal(lf) + 1j * rng.standard_normal(lf)
            try:
                SAM = frclim.calcAM(S_in, freq)
                LAM = frclim.calcAM(L_in, freq)
            except Exception as ex:
                run.violation("calcAM raised %r" % ex, {"cfg": cfg}, dict(tags, fn="calcAM"))
                continue
            if SAM.shape != (nb, lf, nb) or LAM.shape != (nb, lf, nb):
                run.violation("calcAM: result shape %s is not (boundary, frequency, boundary)" % (SAM.shape,), {"cfg": cfg}, dict(tags, fn="calcAM"))
                continue
            As = np.zeros((nb, lf), complex)
            Aw = np.zeros((nb, lf), complex)
            Fw = np.zeros((nb, lf), complex)
            bad = None
            for j, f in enumerate(freq):
                W = 2 * np.pi * f
                if f == 0:
                    continue                         # the free-free dynamic stiffness is singular at 0 Hz: only the rigid-mass law applies there
                for nm, AMc, (M_, B_, K_, T_) in (("Source", SAM, (Ms, Bs, Ks, Ts)), ("Load", LAM, (Ml, Bl, Kl, Tl))):
                    want = terms.ev(T["am"], {"M": M_, "B": B_, "K": K_, "T": T_, "W": W})
                    sc = np.abs(want).max()
                    # the apparent mass is an INVERSE: near an anti-resonance the boundary accelerance is ill conditioned and the
                    # attainable accuracy degrades in proportion (1e-6 up to a condition number of 100; 2e-7 was met at 7e-4 Hz in 18k evaluations)
                    if not np.abs(AMc[:, j, :] - want).max() <= 1e-6 * max(1.0, np.linalg.cond(want) / 100.0) * sc:
                        if __import__("os").environ.get("VERIF_DEBUG"):
                            import mpmath as _mp
                            _mp.mp.dps = 40
                            mm = lambda X: _mp.matrix(np.asarray(X).tolist())  # noqa
                            Z_ = mm(K_) + _mp.mpc(0, 1) * _mp.mpf(W) * mm(B_) - _mp.mpf(W) ** 2 * mm(M_)
                            acc_ = -_mp.mpf(W) ** 2 * (mm(T_) * _mp.inverse(Z_) * mm(T_).T)
                            wmp = _mp.inverse(acc_)
                            wmp = np.array([[complex(wmp[i_, j_]) for j_ in range(wmp.cols)] for i_ in range(wmp.rows)])
                            print("  [debug] C15 %s f=%.5g cond(want)=%.3g  |code-want|/sc=%.3g  |want_np-want_mp|/sc=%.3g  |code-want_mp|/sc=%.3g" % (
                                nm, f, np.linalg.cond(want), np.abs(AMc[:, j, :] - want).max() / sc, np.abs(want - wmp).max() / sc, np.abs(AMc[:, j, :] - wmp).max() / sc))
                        bad = bad or ("calcAM (%s handed over as %s): apparent mass at %.4g Hz is not the inverse of the boundary accelerance (relative %.3g)" % (
                            nm, cfg["sform"] if nm == "Source" else cfg["lform"], f, np.abs(AMc[:, j, :] - want).max() / sc), "calcAM")
                As[:, j] = np.ravel(terms.ev(T["freeacc"], {"Ms": Ms, "Bs": Bs, "Ks": Ks, "Ts": Ts, "Fs": Fs[:, j:j + 1], "W": W}))
                env = {"Ms": Ms, "Bs": Bs, "Ks": Ks, "Ml": Ml, "Bl": Bl, "Kl": Kl, "Ts": Ts, "Tl": Tl, "Fs": Fs[:, j:j + 1], "W": W,
                       "Osl": np.zeros((ns, nl)), "Ols": np.zeros((nl, ns)), "Obb": np.zeros((nb, nb)), "Ol1": np.zeros((nl, 1)), "Ob1": np.zeros((nb, 1))}
                x = np.ravel(terms.ev(T["direct"], env))
                Aw[:, j] = -W ** 2 * (Ts @ x[:ns])
                Fw[:, j] = x[ns + nl:]
            if bad:
                run.violation(bad[0], {"cfg": cfg, "Ms": Ms, "Ks": Ks}, dict(tags, fn=bad[1]))
            try:
                nt = frclim.ntfl(S_in, L_in, As, freq)
                nt2 = frclim.ntfl(SAM, LAM, As, freq)
            except Exception as ex:
                run.violation("ntfl raised %r" % ex, {"cfg": cfg}, dict(tags, fn="ntfl"))
                continue
            for nm, got, want in (("interface acceleration A", nt.A, Aw), ("interface force F", nt.F, Fw)):
                sc = np.abs(want).max(axis=0)
                err = np.abs(got - want).max(axis=0) / np.maximum(sc, 1e-300)
                if got.shape != want.shape or not np.all(err <= 1e-6):
                    run.violation("ntfl: %s differs from the directly coupled system (relative %.3g at %.4g Hz)" % (nm, err.max(), freq[int(np.argmax(err))]),
                                  {"cfg": cfg, "Ms": Ms, "Ks": Ks, "Ml": Ml, "Kl": Kl}, dict(tags, fn="ntfl"))
            if not np.allclose(nt.TAM, nt.SAM + nt.LAM, rtol=1e-13, atol=1e-13 * np.abs(nt.TAM).max()):
                run.violation("ntfl: TAM is not SAM + LAM", {"cfg": cfg}, dict(tags, fn="ntfl"))
            for j in range(lf):
                mr = terms.ev(T["ntmr"], {"SAM": nt.SAM[:, j, :], "LAM": nt.LAM[:, j, :]})
                if not np.allclose(nt.R[:, j], np.diag(mr), rtol=1e-7, atol=1e-7 * np.abs(mr).max()):
                    run.violation("ntfl: R is not the diagonal of (SAM + LAM)^-1 SAM", {"cfg": cfg}, dict(tags, fn="ntfl"))
                    break
            if not (np.allclose(nt2.A, nt.A, rtol=1e-12, atol=0) and np.allclose(nt2.F, nt.F, rtol=1e-12, atol=0)):
                run.violation("ntfl: precomputed apparent-mass arrays give a different result than the model lists", {"cfg": cfg}, dict(tags, fn="ntfl"))
            # low-frequency limit: physical rigid-body mass referred to the interface (statically determinate interface)
            if rigid_law:
                for nm, AMc, (M_, K_, T_) in (("Source", SAM, (Ms, Ks, Ts)), ("Load", LAM, (Ml, Kl, Tl))):
                    phi = np.ones((M_.shape[0], 1))
                    phi = phi / (T_ @ phi)
                    mr = float(np.ravel(terms.ev(T["rigid"], {"M": M_, "Phi": phi}))[0])
                    if abs(AMc[0, 0, 0] - mr) > 2e-3 * abs(mr):
                        run.violation("calcAM (%s): apparent mass at vanishing frequency is %s, physical rigid-body mass %.6g" % (nm, AMc[0, 0, 0], mr), {"cfg": cfg}, dict(tags, fn="calcAM", clause="rigid"))
                    if abs(AMc[0, -1, 0] - mr) > 1e-8 * abs(mr):
                        run.violation("calcAM (%s): apparent mass at exactly 0 Hz is %s, physical rigid-body mass %.6g" % (nm, AMc[0, -1, 0], mr), {"cfg": cfg}, dict(tags, fn="calcAM", clause="rigid0"))
            # explicit solver objects: same apparent mass
            if cfg["sform"] != "cb" and rep == 0:
                nzf = freq != 0                 # 0 Hz with rigid-body modes is outside FreqDirect's documented domain
                fsobj = ode.FreqDirect(Ms, Bs, Ks)
                alt = frclim.calcAM(S_in, freq[nzf], fs=fsobj)
                if not np.allclose(alt, SAM[:, nzf, :], rtol=1e-7, atol=1e-9 * np.abs(SAM[:, nzf, :]).max()):
                    run.violation("calcAM: FreqDirect route differs from the default route", {"cfg": cfg}, dict(tags, fn="calcAM"))
                # the SAME solver object on another frequency set (same length and end points, other interior points)
                fB = freq[nzf].copy()
                fB[1:-1] = fB[1:-1] * 1.21
                altB = frclim.calcAM(S_in, fB, fs=fsobj)
                for j, f in enumerate(fB):
                    want = terms.ev(T["am"], {"M": Ms, "B": Bs, "K": Ks, "T": Ts, "W": 2 * np.pi * f})
                    if not np.abs(altB[:, j, :] - want).max() <= 1e-7 * np.abs(want).max():
                        run.violation("calcAM with a reused solver object: apparent mass at %.4g Hz (second frequency set) is not the inverse of the boundary accelerance" % f,
                                      {"cfg": cfg}, dict(tags, fn="calcAM", clause="solver-reuse"))
                        break
            run.trace_validated()
    # a Craig-Bampton model given directly (modal q-set: identity mass, diagonal stiffness and damping) with a fixed-interface mode
    # that has almost no stiffness but real damping (a mass on a dashpot): still an ordinary elastic equation of the q-set
    for trial in range(6 if quick else 150):
        nb, nq = int(rng.integers(1, 4)), int(rng.integers(2, 5))
        n = nb + nq
        a_ = rng.standard_normal((n, n))
        M = a_ @ a_.T / n + 2 * np.eye(n)
        M[nb:, nb:] = np.eye(nq)
        kq = rng.uniform(200.0, 5000.0, nq)
        kq[0] = [1e-3, 4e-3, 1e-6][trial % 3]              # below the rigid-body auto-detection threshold of the ODE solvers
        bq = 2 * 0.03 * np.sqrt(kq)
        bq[0] = rng.uniform(0.3, 2.0)
        K = np.diag(np.r_[np.zeros(nb), kq])
        B = np.diag(np.r_[np.zeros(nb), bq])
        perm = rng.permutation(n)
        bdof = np.array([int(np.nonzero(perm == j)[0][0]) for j in range(nb)])
        Mp, Bp, Kp = (X[np.ix_(perm, perm)] for X in (M, B, K))
        fq = np.array([0.05, 0.4, 2.0, 9.0])
        run.case(("softq", trial), part="NT coupling vs direct coupled solution")
        tags = {"nb": nb, "sform": "cb", "lform": "cb", "damp": "softq", "fpos": "none"}
        try:
            AMc = frclim.calcAM([Mp, Bp, Kp, bdof], fq)
        except Exception as ex:
            run.violation("calcAM raised %r on a Craig-Bampton model with a nearly free, damped fixed-interface mode" % ex, {"kq": kq, "bq": bq}, dict(tags, fn="calcAM"))
            continue
        sel = np.hstack((np.eye(nb), np.zeros((nb, nq))))
        for j, f in enumerate(fq):
            want = terms.ev(T["am"], {"M": M, "B": B, "K": K, "T": sel, "W": 2 * np.pi * f})
            if not np.abs(AMc[:, j, :] - want).max() <= 1e-7 * np.abs(want).max():
                run.violation("calcAM (Craig-Bampton form, fixed-interface mode with stiffness %g and damping %.3g): apparent mass at %.4g Hz is not the inverse of the "
                              "boundary accelerance (relative %.3g)" % (kq[0], bq[0], f, np.abs(AMc[:, j, :] - want).max() / np.abs(want).max()),
                              {"kq": kq, "bq": bq}, dict(tags, fn="calcAM", clause="softq"))
                break
        run.trace_validated()


if __name__ == "__main__":
    main("C15", "exploration", body)
