------------------------------ MODULE SSModel ------------------------------
(***************************************************************************)
(* C07 (second half).  Continuous <-> discrete state-space conversion.     *)
(* A model is (A, B, C, D[, h]).  c2d(method) and d2c(method) are the two  *)
(* actions of a small state machine on the model's DOMAIN (continuous /    *)
(* discrete, with the method that produced it); the documented behaviour   *)
(* "converting a model that is already in the target domain returns it     *)
(* unchanged" is part of the machine.  The discrete matrices each method   *)
(* must produce are TERMS over E, I1, I2 of specs/ExpmInt.tla (series      *)
(* definitions) or, for tustin, over k = 2/h or w/tan(wh/2).               *)
(* Laws exported for the driver:                                           *)
(*   RoundTrip    d2c(c2d(S, m), m) = S   and   c2d(d2c(Z, m), m) = Z      *)
(*   Sampled      zoh / zoha / foh: the discrete model driven by samples   *)
(*                u[k] reproduces the exactly sampled output of the        *)
(*                continuous model under the method's input hold; the      *)
(*                discrete state is w = x - Shift u (foh: Q, zoha: P/2)    *)
(*   Bilinear     tustin: Hd(z) = Hc(k (z - 1)/(z + 1)) for every z        *)
(***************************************************************************)
EXTENDS Integers, Sequences, FiniteSets, TLC

CONSTANTS Export, MaxOps

V(n) == <<"var", n>>
Num(n) == <<"num", n>>
Add(a, b) == <<"add", a, b>>
Sub(a, b) == <<"sub", a, b>>
Mul(a, b) == <<"mul", a, b>>
Div(a, b) == <<"div", a, b>>
MatMul(a, b) == <<"matmul", a, b>>
Solve(a, b) == <<"solve", a, b>>
Eye(a) == <<"eye", a>>

A == V("A")  B == V("B")  C == V("C")  D == V("D")  h == V("h")  w == V("w")
E == V("E")  I1 == V("I1")  I2 == V("I2")

Methods == {"zoh", "zoha", "foh", "tustin"}
\* Tustin constant
Kt(prewarp) == IF prewarp THEN Div(w, <<"tan", Div(Mul(w, h), Num(2))>>) ELSE Div(Num(2), h)

\* input-hold shift:  x[k] = w[k] + Shift u[k]
Qf == MatMul(Sub(I1, Div(I2, h)), B)
Pf == MatMul(Div(I2, h), B)
Pz == Div(MatMul(I1, B), Num(2))
Shift(m) == CASE m = "zoh" -> <<"zero", B>> [] m = "zoha" -> Pz [] m = "foh" -> Qf
Disc(m, pw) ==
  CASE m = "zoh"  -> [A |-> E, B |-> MatMul(I1, B), C |-> C, D |-> D]
    [] m = "zoha" -> [A |-> E, B |-> Add(Pz, MatMul(E, Pz)), C |-> C, D |-> Add(MatMul(C, Pz), D)]
    [] m = "foh"  -> [A |-> E, B |-> Add(Pf, MatMul(E, Qf)), C |-> C, D |-> Add(MatMul(C, Qf), D)]
    [] m = "tustin" -> LET k == Kt(pw)  KI == Mul(k, Eye(A))  QB == Solve(Sub(KI, A), B)
                           Ad == Solve(Sub(KI, A), Add(KI, A)) IN
                       [A |-> Ad, B |-> MatMul(Add(Eye(A), Ad), QB), C |-> C, D |-> Add(MatMul(C, QB), D)]
\* the input the continuous model sees over one step under each hold (start value, end value)
HoldInput(m) == CASE m = "zoh" -> <<V("u0"), V("u0")>>
                  [] m = "zoha" -> <<Div(Add(V("u0"), V("u1")), Num(2)), Div(Add(V("u0"), V("u1")), Num(2))>>
                  [] m = "foh" -> <<V("u0"), V("u1")>>
\* transfer functions (s, z complex scalars)
Hc == Add(MatMul(C, Solve(Sub(Mul(V("s"), Eye(A)), A), B)), D)
Hd == Add(MatMul(V("Cd"), Solve(Sub(Mul(V("z"), Eye(V("Ad"))), V("Ad")), V("Bd"))), V("Dd"))
Bilinear(pw) == Mul(Kt(pw), Div(Sub(V("z"), Num(1)), Add(V("z"), Num(1))))

---------------------------------------------------------------------------
(* the conversion state machine on one model object                        *)
SysClasses == {"oscillator", "realpoles", "mimo", "integrator"}      \* integrator: singular continuous A
Prewarps == {"none", "zero", "w"}
\* d2c with zoh solves (Ad - I) x = ..., singular when the continuous A is singular (documented formula)
InDomain(sys, m, dir) == ~(sys = "integrator" /\ m = "zoh" /\ dir = "d2c")

VARIABLES sys, dom, hist
vars == <<sys, dom, hist>>
Init == sys \in SysClasses /\ dom = "c" /\ hist = <<>>
C2D(m, pw) == /\ Len(hist) < MaxOps
              /\ (pw # "none" => m = "tustin")
              /\ dom' = IF dom = "c" THEN "d" ELSE dom          \* already discrete: returned unchanged
              /\ hist' = Append(hist, <<"c2d", m, pw, dom = "c">>)
              /\ UNCHANGED sys
D2C(m, pw) == /\ Len(hist) < MaxOps
              /\ (pw # "none" => m = "tustin")
              /\ InDomain(sys, m, "d2c") \/ dom = "c"
              /\ dom' = IF dom = "d" THEN "c" ELSE dom          \* already continuous: returned unchanged
              /\ hist' = Append(hist, <<"d2c", m, pw, dom = "d">>)
              /\ UNCHANGED sys
Next == \E m \in Methods, pw \in Prewarps : C2D(m, pw) \/ D2C(m, pw)
Spec == Init /\ [][Next]_vars

\* number of effective conversions so far; the model is continuous iff it is even
Effective(hs) == LET RECURSIVE N(_) N(i) == IF i = 0 THEN 0 ELSE N(i - 1) + (IF hs[i][4] THEN 1 ELSE 0) IN N(Len(hs))
DomainParity == (dom = "c") <=> (Effective(hist) % 2 = 0)
\* prewarp None and 0 both mean the standard transform
CanonPw(pw) == IF pw = "w" THEN "w" ELSE "none"
Inverse(a, b) == a[1] # b[1] /\ a[2] = b[2] /\ CanonPw(a[3]) = CanonPw(b[3])
\* Reduce: drop the calls that returned the model unchanged, cancel every conversion immediately undone by its inverse
\* (same method, same prewarp) - in EITHER direction: d2c(c2d(S)) = S and c2d(d2c(Z)) = Z
RECURSIVE Red(_, _)
Red(done, todo) ==
  IF todo = <<>> THEN done
  ELSE LET e == <<Head(todo)[1], Head(todo)[2], CanonPw(Head(todo)[3])>> IN
       IF ~Head(todo)[4] THEN Red(done, Tail(todo))
       ELSE IF done # <<>> /\ Inverse(done[Len(done)], e) THEN Red(SubSeq(done, 1, Len(done) - 1), Tail(todo))
       ELSE Red(Append(done, e), Tail(todo))
Reduce(hs) == Red(<<>>, hs)
\* the reduced history has the same domain parity, and reducing twice changes nothing
ReduceOK == /\ (Len(Reduce(hist)) % 2 = 0) <=> (dom = "c")
            /\ Reduce([i \in 1..Len(Reduce(hist)) |-> <<Reduce(hist)[i][1], Reduce(hist)[i][2], Reduce(hist)[i][3], TRUE>>]) = Reduce(hist)
ExportHist == (Export /\ Len(hist) = MaxOps) => PrintT(<<"HIST", sys, hist, dom, Reduce(hist)>>)
ExportTerms == (Export /\ hist = <<>> /\ sys = "oscillator") =>
   /\ \A m \in Methods : \A pw \in BOOLEAN : (pw => m = "tustin") =>
         PrintT(<<"DISC", m, pw, Disc(m, pw), IF m = "tustin" THEN <<>> ELSE Shift(m), IF m = "tustin" THEN <<>> ELSE HoldInput(m)>>)
   /\ PrintT(<<"TF", Hc, Hd, Bilinear(FALSE), Bilinear(TRUE)>>)
=============================================================================
