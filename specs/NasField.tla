------------------------------ MODULE NasField ------------------------------
(***************************************************************************)
(* C12.  Nastran bulk-data fields and cards.                                *)
(*                                                                          *)
(* (1) Real-number fields.  Grammar of a Nastran real field as a DFA over   *)
(*     character codes:  [sign] digits [.] digits [ (E|D) [sign] digits |   *)
(*     sign digits ]  with at least one mantissa digit and a decimal point  *)
(*     or an exponent (otherwise the field is an INTEGER, not a real).      *)
(*     MaxSig(w, neg, e): the largest number of significant digits any      *)
(*     legal representation of width w can hold for a number of that sign   *)
(*     and decimal exponent e  ("the last digit the width allows").         *)
(*     Trace validation: every (width, string) produced by the formatters   *)
(*     must have exactly the width and be a word of the grammar.            *)
(* (2) Cards.  A card = name + a sequence of field kinds; small-field       *)
(*     (8 fields of 8 per line, continuation '+'), large-field (4 fields of *)
(*     16 per line, '*' continuations, even number of lines).  Layout and   *)
(*     the reader's view (blank fields kept, trailing blanks of the last    *)
(*     line dropped) are defined and their laws checked.                    *)
(***************************************************************************)
EXTENDS Integers, Sequences, FiniteSets, TLC, Json, IOUtils

CONSTANTS Mode,        \* "table" | "trace" | "cards"
          Export

---------------------------------------------------------------------------
(* (1a) MaxSig                                                             *)
DigitsOf(n) == IF n < 10 THEN 1 ELSE IF n < 100 THEN 2 ELSE 3
Abs(x) == IF x < 0 THEN -x ELSE x
Max2(a, b) == IF a > b THEN a ELSE b

\* s = 1 for a negative number (one character for the sign)
\* fixed notation, e >= 0:  ddd.ddd   needs e+1 integer digits and the point
FixedSig(w, s, e) == IF e >= 0 THEN (IF e + 2 + s <= w THEN w - s - 1 ELSE 0)
                     ELSE (IF w - s + e >= 1 THEN w - s + e ELSE 0)     \* .000ddd : point, -e-1 zeros, digits
\* exponent form without the letter:  d.ddd+ee
ExpSig(w, s, e) == IF e = 0 THEN 0 ELSE Max2(0, w - s - 2 - DigitsOf(Abs(e)))
MaxSig(w, s, e) == Max2(FixedSig(w, s, e), ExpSig(w, s, e))
\* double-precision style: the field must carry the D exponent   d.dddD+ee
MaxSigD(w, s, e) == Max2(0, w - s - 3 - DigitsOf(Abs(e)))

---------------------------------------------------------------------------
(* (1b) grammar DFA.  character classes                                    *)
Class(c) == IF c >= 48 /\ c <= 57 THEN "d"
            ELSE IF c = 46 THEN "."
            ELSE IF c = 43 \/ c = 45 THEN "s"
            ELSE IF c \in {69, 68, 101, 100} THEN "e"
            ELSE IF c = 32 THEN "b" ELSE "x"

\* states: 0 lead blanks, 1 sign, 2 int digits, 3 point after digits, 4 point without digits, 5 frac digits,
\*         6 exp letter, 7 exp sign, 8 exp digits, 9 trailing blanks (after a real), 99 reject
Step(q, k) ==
  CASE q = 0 -> (IF k = "b" THEN 0 ELSE IF k = "s" THEN 1 ELSE IF k = "d" THEN 2 ELSE IF k = "." THEN 4 ELSE 99)
    [] q = 1 -> (IF k = "d" THEN 2 ELSE IF k = "." THEN 4 ELSE 99)
    [] q = 2 -> (IF k = "d" THEN 2 ELSE IF k = "." THEN 3 ELSE IF k = "e" THEN 6 ELSE IF k = "s" THEN 7 ELSE 99)
    [] q = 3 -> (IF k = "d" THEN 5 ELSE IF k = "e" THEN 6 ELSE IF k = "s" THEN 7 ELSE IF k = "b" THEN 9 ELSE 99)
    [] q = 4 -> (IF k = "d" THEN 5 ELSE 99)
    [] q = 5 -> (IF k = "d" THEN 5 ELSE IF k = "e" THEN 6 ELSE IF k = "s" THEN 7 ELSE IF k = "b" THEN 9 ELSE 99)
    [] q = 6 -> (IF k = "s" THEN 7 ELSE IF k = "d" THEN 8 ELSE 99)
    [] q = 7 -> (IF k = "d" THEN 8 ELSE 99)
    [] q = 8 -> (IF k = "d" THEN 8 ELSE IF k = "b" THEN 9 ELSE 99)
    [] q = 9 -> (IF k = "b" THEN 9 ELSE 99)
    [] OTHER -> 99
RECURSIVE Run(_, _, _)
Run(chars, i, q) == IF i > Len(chars) THEN q ELSE Run(chars, i + 1, Step(q, Class(chars[i])))
\* accepting: a point was seen (3, 5) or an exponent (8); state 2 alone (digits only) is an INTEGER
IsReal(chars) == Run(chars, 1, 0) \in {3, 5, 8, 9}

---------------------------------------------------------------------------
(* (2) cards                                                               *)
Kinds == {"i", "r", "s", "b"}
PerLine(fmt) == IF fmt = 8 THEN 8 ELSE 4
NLines(fmt, n) == LET raw == (n + PerLine(fmt) - 1) \div PerLine(fmt)
                      r1 == IF raw = 0 THEN 1 ELSE raw
                  IN IF fmt = 8 THEN r1 ELSE (IF r1 % 2 = 1 THEN r1 + 1 ELSE r1)
\* what a line holds: field indices
LineFields(fmt, n, l) == {k \in 1..n : (k - 1) \div PerLine(fmt) = l - 1}
\* reader: blanks kept, trailing blanks of the card dropped
RECURSIVE Trim(_)
Trim(ks) == IF ks # <<>> /\ ks[Len(ks)] = "b" THEN Trim(SubSeq(ks, 1, Len(ks) - 1)) ELSE ks

CardSet == UNION {[1..n -> Kinds] : n \in 1..5}
BoundaryLens == {7, 8, 9, 15, 16, 17, 24, 25, 32, 33, 40, 41, 59, 60}
Pattern(n, p) == [k \in 1..n |-> CASE p = 1 -> "i"
                                   [] p = 2 -> (IF k % 8 \in {0, 1} THEN "b" ELSE "r")
                                   [] p = 3 -> (IF k % 4 = 0 THEN "b" ELSE IF k % 3 = 0 THEN "s" ELSE "r")
                                   [] p = 4 -> (IF k > n - 2 THEN "b" ELSE "i")
                                   [] OTHER -> (IF k % 2 = 0 THEN "b" ELSE "s")]
LongCards == {Pattern(n, p) : n \in BoundaryLens, p \in 1..5}

---------------------------------------------------------------------------
VARIABLE q
Trace == IF Mode = "trace" THEN ndJsonDeserialize(IOEnv.TRACE_FILE) ELSE <<>>

Init == CASE Mode = "table" -> q \in {<<w, s, e>> : w \in {8, 16}, s \in {0, 1}, e \in -310..310}
          [] Mode = "trace" -> q \in 1..Len(Trace)
          [] OTHER -> q \in {<<f, c>> : f \in {8, 16}, c \in CardSet \cup LongCards}
Next == UNCHANGED q

\* laws of MaxSig: at least one significant digit is always representable, never more than the width allows,
\* and a negative number never has more digits than the positive one
TableLaws == Mode = "table" =>
   /\ MaxSig(q[1], q[2], q[3]) >= 1 /\ MaxSig(q[1], q[2], q[3]) <= q[1] - 1
   /\ (q[2] = 1 => MaxSig(q[1], 1, q[3]) <= MaxSig(q[1], 0, q[3]))
   /\ MaxSigD(q[1], q[2], q[3]) <= MaxSig(q[1], q[2], q[3]) /\ (q[1] = 16 => MaxSigD(q[1], q[2], q[3]) >= 1)
ExportTable == (Mode = "table" /\ Export) => PrintT(<<"MAXSIG", q[1], q[2], q[3], MaxSig(q[1], q[2], q[3]), MaxSigD(q[1], q[2], q[3])>>)

\* trace validation of formatted numbers: exact width and a word of the real-field grammar
TraceOK == Mode = "trace" => LET t == Trace[q] IN Len(t.chars) = t.w /\ IsReal(t.chars)

\* card laws
CardLaws == Mode = "cards" =>
   LET f == q[1] ks == q[2] n == Len(q[2]) IN
   /\ \A k \in 1..n : \E l \in 1..NLines(f, n) : k \in LineFields(f, n, l)
   /\ \A l \in 1..NLines(f, n) : Cardinality(LineFields(f, n, l)) <= PerLine(f)
   /\ (f = 16 => NLines(f, n) % 2 = 0)
   /\ Len(Trim(ks)) <= n /\ (Trim(ks) # <<>> => Trim(ks)[Len(Trim(ks))] # "b")
ExportCards == (Mode = "cards" /\ Export) =>
   PrintT(<<"CARD", q[1], q[2], NLines(q[1], Len(q[2])), Trim(q[2])>>)
=============================================================================
