------------------------------- MODULE Purity -------------------------------
(***************************************************************************)
(* Cross-cutting growth (used by every property's driver): the public      *)
(* functions behind the listed properties are FUNCTIONS of their arguments.*)
(*                                                                          *)
(* A recorded trace is a sequence of call events                            *)
(*     [fn |-> f, ain |-> a, aout |-> a2, res |-> r]                        *)
(* where f identifies the function (and call form), a / a2 are fingerprints *)
(* of ALL argument objects before / after the call (arrays by content,      *)
(* tables by content and index, containers recursively) and r fingerprints  *)
(* the returned value.  Fingerprints are small integers assigned by first    *)
(* occurrence, so equal content <=> equal number.                           *)
(*                                                                          *)
(* The specification is the memo-table machine: state = the partial map     *)
(* table : (fn, ain) -> res learned so far.  A call event is accepted iff   *)
(*    aout = ain                 the call left its arguments untouched       *)
(*    (fn, ain) in DOMAIN table => table[fn, ain] = res                      *)
(*                               same call, same answer - whatever was       *)
(*                               called in between (no hidden module or      *)
(*                               object state leaks into the result)         *)
(* The trace STARTS with one event per function recorded in a fresh child    *)
(* process (forked before the parent made any call): what the call answers   *)
(* when nothing else happened in the process.  The parent's events for the   *)
(* same key must reproduce it - a module-level memo poisoned by an earlier   *)
(* call with other options is then visible although it is persistent.       *)
(* (Cross-process events carry fingerprints rounded to 6 digits and live     *)
(* under their own function ids; in-process events are bit-exact.)           *)
(* Drivers record the patterns  A A  and  A B A  (B another function of the  *)
(* same module) and TLC validates the whole trace; rejected lines are        *)
(* reported with their line number.                                          *)
(***************************************************************************)
EXTENDS Integers, Sequences, FiniteSets, TLC, Json, IOUtils

VARIABLES l, table, bad
vars == <<l, table, bad>>
Trace == ndJsonDeserialize(IOEnv.TRACE_FILE)

Init == l = 1 /\ table = <<>> /\ bad = {}
Key(e) == <<e.fn, e.ain>>
Known(e) == \E i \in 1..Len(table) : table[i][1] = Key(e)
Lookup(e) == LET i == CHOOSE i \in 1..Len(table) : table[i][1] = Key(e) IN table[i][2]
LineOK(e) == e.aout = e.ain /\ (Known(e) => Lookup(e) = e.res)
Consume == /\ l <= Len(Trace)
           /\ LET e == Trace[l] IN
              /\ bad' = IF LineOK(e) THEN bad ELSE bad \cup {l}
              /\ table' = IF Known(e) THEN table ELSE Append(table, <<Key(e), e.res>>)
           /\ l' = l + 1
Next == Consume
Spec == Init /\ [][Next]_vars

\* the table stays a function (one answer per key)
TableFunctional == \A i, j \in 1..Len(table) : table[i][1] = table[j][1] => i = j
Report == (l = Len(Trace) + 1) => PrintT(<<"PURITY", Len(Trace), bad>>)
=============================================================================
