CONSTANTS
  Export = FALSE
  MaxS = 3
INIT TInit
NEXT TNext
INVARIANT Report
