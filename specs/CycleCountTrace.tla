-------------------------- MODULE CycleCountTrace --------------------------
(***************************************************************************)
(* Trace validation for C10 (reuses the operators of CycleCount):          *)
(*  "req": evaluate the declarative requirement Req on selections recorded *)
(*         from the real findap variants;                                   *)
(*  "fde": integer facts of recorded fdepsd count tables (doubled counts): *)
(*         cumulative counts are non-increasing in amplitude, the first    *)
(*         column is the total, bincount is the difference table.          *)
(***************************************************************************)
EXTENDS CycleCount, Json, IOUtils

CONSTANT TraceMode
VARIABLE q

Trace == ndJsonDeserialize(IOEnv.TRACE_FILE)

TInit == q \in 1..Len(Trace) /\ y = <<>> /\ stol2 = 0
TNext == UNCHANGED <<q, y, stol2>>

ReqOut == TraceMode = "req" =>
   LET t == Trace[q] IN PrintT(<<"REQ", q, Req(t.y, t.stol2, t.vec), Req(t.y, t.stol2, t.loop)>>)

SumSeq(s) == LET RECURSIVE S(_) S(i) == IF i = 0 THEN 0 ELSE s[i] + S(i - 1) IN S(Len(s))
FdeOK == TraceMode = "fde" =>
   LET t == Trace[q] c == t.count2 b == t.bincount2 n == Len(t.count2) IN
   /\ Len(b) = n
   /\ \A k \in 1..(n - 1) : c[k] >= c[k + 1]
   /\ \A k \in 1..(n - 1) : b[k] = c[k] - c[k + 1]
   /\ b[n] = c[n]
   /\ c[1] = SumSeq(b) /\ c[1] >= 1
=============================================================================
