"""C10: cycle-counting pipeline and fatigue-damage PSD invariants.

findap: specs/CycleCount.tla transcribes both shipped selection algorithms (vectorised = active without numba; loop =
the numba-decorated body, extracted with ast from the working tree and run undecorated), checks them against the
declarative requirement Req and against each other for EVERY integer signal up to the bound and three tolerance levels,
and exports per input: both selections, whether each meets Req, whether they agree.  The real outputs are compared with
the exported ones; a real output that differs from the transcription is re-judged by TLC (trace mode) - the verdict is
always Req / agreement evaluated by TLC, never "equals my transcription".
binify / sigcount: half-open interval semantics and conservation for every cycle pair x bin specification (TLC).
fdepsd: integer facts of each run (cumulative counts non-increasing, first column = total, bincount = differences) are
trace-validated by TLC on doubled counts; real-valued clauses are generic comparisons on the run's own outputs."""
import ast
import json
import os
import tempfile

from . import tlc
from .runner import main, Run, REPO


def load_loop_findap(np):
    """the numba ('accelerated') variant of findap: the `else:` branch of `if not HAVE_NUMBA:` in the working tree"""
    src = open(os.path.join(REPO, "pyyeti", "cyclecount.py")).read()
    tree = ast.parse(src)
    for node in tree.body:
        if isinstance(node, ast.If) and isinstance(node.test, ast.UnaryOp) and getattr(node.test.operand, "id", "") == "HAVE_NUMBA":
            for sub in node.orelse:
                if isinstance(sub, ast.FunctionDef) and sub.name == "findap":
                    mod = ast.Module(body=[sub], type_ignores=[])
                    ns = {"np": np, "numba_bool": np.bool_}
                    exec(compile(mod, "cyclecount.py:findap[loop]", "exec"), ns)
                    return ns["findap"]
    return None        # the module is organised differently: only the active variant is checked (recorded as an assumption)


def findap_part(run, np, cc):
    cfg = "MC_CycleCount_findap.cfg" if run.tier == "quick" else "MC_CycleCount_findap_t.cfg"
    res = tlc.run("CycleCount", cfg, timeout=1800, heap="8g")
    if res.violation:
        run.add_tlc(cfg, res)
        run.violation("TLC: %s on the CycleCount model" % res.violation, {"tlc": res.error_text()}, {"where": "model"})
        return
    run.add_tlc(cfg, res, "every integer signal x tolerance level; invariant DefaultTolOK (variants agree and meet Req at default-like tolerance)")
    loopfn = load_loop_findap(np)
    if loopfn is None:
        loopfn = cc.findap
        run.assumptions.append("the numba ('accelerated') body of findap was not found as the else-branch of `if not HAVE_NUMBA:`; only the active variant is checked")
    rejudge = []
    rows = res.tagged("FINDAP")
    for y, stol2, mvec, mloop, mreqv, mreql, drift in rows:
        ya = np.array(y, float) * 0.125 + 3.0          # exact dyadic image: decisions depend on differences only
        md = float(np.abs(np.diff(ya)).max()) if len(y) > 1 else 0.0
        tol = 0.5 if md == 0 else (stol2 * 0.125 / 2.0) / md
        outs = {}
        for name, fn in (("vec", cc.findap), ("loop", loopfn)):
            try:
                outs[name] = [int(b) for b in fn(ya.copy(), tol)]
            except Exception as ex:
                outs[name] = [-1]
                outs[name + "_exc"] = repr(ex)
        run.case((tuple(y), stol2), nontrivial=len(y) >= 3, part="findap")
        # the selection depends on the ORDER of the samples and on differences relative to the largest one only: the same signal as
        # narrow integers (adjacent steps whose product overflows the type), as float32 and at a scale where products of steps
        # underflow must give the same selection (compared where no step ties with the tolerance: odd stol2)
        if len(y) > 2 and md > 0 and (stol2 % 2 == 1 or stol2 == 0) and "vec_exc" not in outs:
            yi = np.array(y)
            images = (("int16 x300", (yi * 300 - 450).astype(np.int16)), ("int32 x50000", (yi * 50000).astype(np.int32)),
                      ("float32", (yi * 0.5 - 1.0).astype(np.float32)), ("float64 x1e-170", yi * 1e-170))
            for iname, img in images:
                for name, fn in (("vec", cc.findap), ("loop", loopfn)):
                    try:
                        sel = [int(b) for b in fn(img.copy(), tol)]
                    except Exception as ex:
                        sel = repr(ex)
                    if sel != outs[name]:
                        run.violation("findap (%s) selects %r for the signal given as %s and %r for the same signal as float64" % (
                            "default, vectorised" if name == "vec" else "loop/numba body", sel, iname, outs[name]),
                            {"y": y, "stol2": stol2, "image": iname}, {"fn": "findap", "variant": name, "image": iname})
        rec = {"y": y, "stol2": stol2, "vec": outs["vec"], "loop": outs["loop"], "mvec": mvec, "mloop": mloop,
               "mreqv": mreqv, "mreql": mreql, "exc": {k: v for k, v in outs.items() if k.endswith("_exc")}}
        if outs["vec"] == mvec and outs["loop"] == mloop:
            rec["reqv"], rec["reql"] = mreqv, mreql
            judge(run, rec)
        else:
            rejudge.append(rec)
        run.trace_validated()
    if rejudge:
        # real outputs that differ from the transcription: let TLC evaluate Req on them
        fd, path = tempfile.mkstemp(suffix=".ndjson", prefix="verif_cc_")
        with os.fdopen(fd, "w") as f:
            for r in rejudge:
                f.write(json.dumps({"y": r["y"], "stol2": r["stol2"], "vec": r["vec"], "loop": r["loop"]}) + "\n")
        try:
            tr = tlc.run("CycleCountTrace", "MC_CycleCountTrace.cfg", timeout=900, env={"TRACE_FILE": path})
        finally:
            os.unlink(path)
        run.add_tlc("MC_CycleCountTrace.cfg", tr, "Req evaluated by TLC on %d real selections that differ from the transcription" % len(rejudge))
        verdicts = {q: (a, b) for q, a, b in tr.tagged("REQ")}
        for i, r in enumerate(rejudge, 1):
            r["reqv"], r["reql"] = verdicts[i]
            r["differs_from_transcription"] = True
            judge(run, r)
    run.extra["findap_outputs_differing_from_transcription"] = len(rejudge)
    run.sample({"findap y": rows[len(rows) // 2][0], "stol2": rows[len(rows) // 2][1], "vec": rows[len(rows) // 2][2], "loop": rows[len(rows) // 2][3]})


def judge(run, r):
    """property verdict from TLC's Req flags.  Known-finding classification: the failure is the one the shipped
    algorithm (as transcribed in the spec when the finding was recorded) shows on this very input."""
    coarse = r["stol2"] > 1
    case = {k: r[k] for k in ("y", "stol2", "vec", "loop")}
    case.update(r.get("exc", {}))
    same_as_model = not r.get("differs_from_transcription")
    if not r["reqv"]:
        run.violation("findap (default, vectorised) selection does not start at the first sample / alternate / reach the extremes within tolerance",
                      case, {"fn": "findap", "variant": "vectorised", "coarse_tol": coarse, "as_recorded": same_as_model and not r["mreqv"]})
    if not r["reql"]:
        run.violation("findap (loop/numba body) selection does not start at the first sample / alternate / reach the extremes within tolerance",
                      case, {"fn": "findap", "variant": "loop", "coarse_tol": coarse, "as_recorded": same_as_model and not r["mreql"]})
    if r["vec"] != r["loop"]:
        run.violation("findap selects different samples with and without the accelerated code path", case,
                      {"fn": "findap", "variant": "both", "coarse_tol": coarse, "as_recorded": same_as_model and r["mvec"] != r["mloop"]})


def binify_part(run, np, cc):
    res = tlc.run("CycleCount", "MC_CycleCount_binify.cfg", timeout=900)
    if res.violation:
        run.add_tlc("MC_CycleCount_binify.cfg", res)
        run.violation("TLC: %s on the CycleCount model (binify)" % res.violation, {"tlc": res.error_text()}, {"where": "model"})
        return
    run.add_tlc("MC_CycleCount_binify.cfg", res, "cycle pairs x 5 amp-bin x 3 mean-bin specs x right/left closed; invariant Conservation")
    import warnings
    for cyc, ab, mb, right, table, covered in res.tagged("BINIFY"):
        rf = np.array([[c[0] / 2.0, c[1] / 2.0, c[2] / 2.0] for c in cyc])
        case = {"cycles[amp,mean,count]": rf.tolist(), "ampbins": ab, "meanbins": mb, "right": right}
        run.case(json.dumps(case), nontrivial=True, part="binify")
        with warnings.catch_warnings(record=True) as w:
            warnings.simplefilter("always")
            try:
                t = cc.binify(rf, ab, mb, right=right, use_pandas=(len(cyc) % 2 == 0))
                t = np.asarray(t.values if hasattr(t, "values") else t)
            except Exception as ex:
                run.violation("binify raised %r" % ex, case, {"fn": "binify"})
                continue
        exp = np.array(table, float) / 2.0
        if t.shape != exp.shape or not np.array_equal(t, exp):
            run.violation("binify puts a cycle in a bin other than the one whose half-open interval contains it (or loses/creates counts)",
                          dict(case, got=t.tolist(), spec=exp.tolist()), {"fn": "binify"})
        if covered and t.sum() != rf[:, 2].sum():
            run.violation("binify does not conserve the total count although the bins cover the data", case, {"fn": "binify"})
        run.trace_validated()
    # automatically generated bins always cover: conservation for random tables
    rng = np.random.default_rng(run.seed)
    for k in range(300 if run.tier == "quick" else 5000):
        n = int(rng.integers(1, 12))
        rf = np.column_stack((np.round(rng.random(n) * 4, int(rng.integers(0, 3))), np.round(rng.standard_normal(n), int(rng.integers(0, 3))),
                              rng.choice([0.5, 1.0], n)))
        for right in (True, False):
            for na, nm in ((1, 1), (3, 2), (10, 1), (7, 5)):
                run.case(None, nontrivial=False, part="binify auto bins")
                try:
                    t = np.asarray(cc.binify(rf, na, nm, right=right, use_pandas=False))
                except Exception as ex:
                    run.violation("binify with automatically generated bins raised %r" % ex,
                                  {"rf": rf.tolist(), "ampbins": na, "meanbins": nm, "right": right}, {"fn": "binify"})
                    continue
                if t.shape != (nm, na) or abs(t.sum() - rf[:, 2].sum()) > 0:
                    run.violation("binify with automatically generated bins does not conserve the total cycle count",
                                  {"rf": rf.tolist(), "ampbins": na, "meanbins": nm, "right": right, "sum": float(t.sum())}, {"fn": "binify"})
                    continue
                # growth: the bins binify reports (retbins) are the ones it used - they cover the data in the documented half-open sense,
                # and binning again with them as explicit bins gives the same table; getbins does not care in which order the two ends come
                if k % 5 == 0:
                    try:
                        t2, ab, mb = cc.binify(rf, na, nm, right=right, use_pandas=False, retbins=True)
                        t3 = np.asarray(cc.binify(rf, ab, mb, right=right, use_pandas=False))
                        amp, mean = rf[:, 0], rf[:, 1]
                        cover = (len(ab) == na + 1 and len(mb) == nm + 1 and np.all(np.diff(ab) > 0) and np.all(np.diff(mb) > 0)
                                 and ((ab[0] < amp.min() and amp.max() <= ab[-1] and mb[0] < mean.min() and mean.max() <= mb[-1]) if right else
                                      (ab[0] <= amp.min() and amp.max() < ab[-1] and mb[0] <= mean.min() and mean.max() < mb[-1])))
                        sw = cc.getbins(na, amp.min(), amp.max(), right=right)
                        if not cover or not np.array_equal(np.asarray(t2), t) or not np.array_equal(t3, t) or not np.array_equal(sw, cc.getbins(na, amp.max(), amp.min(), right=right)):
                            run.deviation("CycleCount (reported bins)", "binify(retbins=True): the reported bins do not cover the data / give another table when used explicitly / getbins depends on the order of its ends",
                                          {"rf": rf.tolist(), "ampbins": na, "meanbins": nm, "right": right})
                    except Exception as ex:
                        run.deviation("CycleCount (reported bins)", "binify(retbins=True) raised %r" % ex, {"rf": rf.tolist(), "ampbins": na, "meanbins": nm, "right": right})


def fde_part(run, np):
    from pyyeti import fdepsd
    rng = np.random.default_rng(run.seed + 5)
    lines = []
    runs = []
    opts = []
    for resp in ("absacce", "pvelo"):
        for nbins in (8, 30):
            for T0 in (20.0, 60.0):
                for rolloff in ("lanczos", "fft", "none"):
                    for hp, we in ((None, None), (5.0, "auto")):
                        opts.append(dict(resp=resp, nbins=nbins, T0=T0, rolloff=rolloff, hpfilter=hp, winends=we))
    if run.tier == "quick":
        opts = opts[::3]
    # short transients analysed around 1/duration: very few rainflow cycles (totals of 1.0, 1.5, 2.0 cycles)
    transient = dict(resp="absacce", nbins=8, T0=20.0, rolloff="none", hpfilter=None, winends=None, detrend=False)
    opts_all = [(kw, "random") for kw in opts] + [(dict(transient, resp=r), kind) for r in ("absacce", "pvelo")
                                                  for kind in ("decaying-sine", "half-sine", "one-cycle")]
    for oi, (kw, sigkind) in enumerate(opts_all):
        sr = 400.0 if sigkind == "random" else 200.0
        t = np.arange(0, 1.5 if sigkind == "random" else 1.0, 1 / sr)
        if sigkind == "random":
            sig = rng.standard_normal(t.size) + 0.5 * np.sin(2 * np.pi * 35 * t)
            freq = np.array([20.0, 35.0, 50.0, 71.0])
        else:
            if sigkind == "decaying-sine":
                sig = np.exp(-3 * t) * np.sin(2 * np.pi * 1.0 * t)
            elif sigkind == "half-sine":
                sig = np.where(t < 0.25, np.sin(np.pi * t / 0.25), 0.0)
            else:
                sig = np.where(t < 0.5, np.sin(2 * np.pi * t / 0.5), 0.0)
            freq = np.array([0.3, 0.5, 0.8, 1.2, 2.0, 3.0])
        case = dict(kw, signal=sigkind, signal_seed=run.seed + 5, index=oi)
        run.case(json.dumps(case), part="fdepsd")
        try:
            out = fdepsd.fdepsd(sig, sr, freq, 12.0, parallel="no", **kw)
            out2 = fdepsd.fdepsd(4.0 * sig, sr, freq, 12.0, parallel="no", **kw)     # a power of two: scaling is exact in binary64, no bin-edge flips
        except Exception as ex:
            run.violation("fdepsd raised %r" % ex, case, {"fn": "fdepsd"})
            continue
        cnt = out.count.values
        binc = out.bincount.values
        amps = out.binamps.values
        for j in range(len(freq)):
            lines.append({"count2": [int(round(2 * v)) for v in cnt[j]], "bincount2": [int(round(2 * v)) for v in binc[j]], "case": oi, "row": j})
            if np.abs(2 * cnt[j] - np.round(2 * cnt[j])).max() > 1e-9:
                run.violation("fdepsd cycle counts are not multiples of one half", case, {"fn": "fdepsd"})
        runs.append((case, out))
        amax = out.peakamp["G1"].values / np.sqrt(2 * np.log(freq * kw["T0"])) * 0 + amps[:, -1] * kw["nbins"] / (kw["nbins"] - 1)
        if np.any(amax > out.srs.values * (1 + 1e-12)):
            run.violation("largest cycle amplitude exceeds the SRS peak", case, {"fn": "fdepsd"})
        if not np.all(out.psd["G2"].values >= out.psd["G1"].values * (1 - 1e-12)):
            run.violation("G2 < G1", case, {"fn": "fdepsd"})
        for bi, b in enumerate((4, 8, 12)):
            di = np.array([(amps[j] ** b) @ binc[j] for j in range(len(freq))])
            if not np.allclose(di, out.di_sig.values[:, bi], rtol=1e-10, atol=0):
                run.violation("damage indicator b=%d is not sum(amplitude^b x count)" % b, case, {"fn": "fdepsd"})
            lhs = out.var_test.values[:, bi] ** (b / 2.0)
            rhs = out.di_sig.values[:, bi] / out.di_test.values[:, bi]
            # (for resp='pvelo' the returned di_test is deliberately rescaled by 2**(b/2) "for output"; the documented relation
            #  is stated for the unscaled indicator, so the clause is checked for 'absacce' only)
            if kw["resp"] == "absacce" and not np.allclose(lhs, rhs, rtol=1e-9, atol=0):
                run.violation("test variance does not reproduce the signal damage (var_test^(b/2) = di_sig/di_test_part), b=%d" % b, case, {"fn": "fdepsd"})
        if not np.allclose(out2.psd.values, 16.0 * out.psd.values, rtol=1e-8, atol=0):
            run.violation("PSD outputs do not scale with the square of the input amplitude", case, {"fn": "fdepsd"})
    # integer facts by TLC trace validation
    fd, path = tempfile.mkstemp(suffix=".ndjson", prefix="verif_fde_")
    with os.fdopen(fd, "w") as f:
        for ln in lines:
            f.write(json.dumps(ln) + "\n")
    try:
        tr = tlc.run("CycleCountTrace", "MC_FdeTrace.cfg", timeout=900, env={"TRACE_FILE": path}, extra=("-continue",))
    finally:
        os.unlink(path)
    run.add_tlc("MC_FdeTrace.cfg", tr, "trace validation of %d fdepsd frequency rows: cumulative counts non-increasing, first = total, bincount = differences" % len(lines))
    run.trace_validated(len(lines))
    if tr.violation:
        import re
        bad = sorted(set(int(m) for m in re.findall(r"q = (\d+)", tr.out)))
        for b in bad[:10]:
            run.violation("fdepsd count table row rejected by the trace spec (cumulative counts / first column / bincount)",
                          {"row": lines[b - 1]}, {"fn": "fdepsd"})
    run.sample({"fdepsd options": opts[0], "count row (doubled)": lines[0]["count2"]})


def body(run: Run, replay):
    import numpy as np
    import warnings
    warnings.simplefilter("ignore")
    from . import repo_build
    repo_build.install_c_rain()
    from pyyeti import cyclecount as cc
    run.rule = ("findap: every integer signal of length <= 6 (thorough 7) over 0..3 x 3 tolerance levels, both variants, verdict = TLC's "
                "Req/agreement flags; binify: every pair of cycles from a 56-element set x 15 bin specifications x right/left + random "
                "tables with auto bins; fdepsd: option lattice (resp, nbins, T0, rolloff, hpfilter/winends) with integer facts "
                "trace-validated by TLC. distinct non-trivial = findap signals with >= 3 samples, all binify/fdepsd cases")
    run.assumptions = ["numba absent: the accelerated findap is its undecorated definition extracted from the working tree",
                       "coarse tolerances are realised exactly through dyadic signals"]
    findap_part(run, np, cc)
    binify_part(run, np, cc)
    fde_part(run, np)


if __name__ == "__main__":
    main("C10", "model_checking", body)
