CONSTANTS
  Export = TRUE
  Den = 10
  MaxN = 8
INIT Init
NEXT Next
INVARIANT ExportGrid
INVARIANT ExportTerms
INVARIANT ExportLaws
