CONSTANTS
  LF = 6
  W = 4
  RMW = FALSE
  Export = TRUE
  InRep = "f8"
SPECIFICATION Spec
INVARIANT AtMostOnce
INVARIANT ExactlyOnce
INVARIANT Confluence
INVARIANT InFlight
INVARIANT SharedBeforeWork
INVARIANT SameRepresentation
INVARIANT ExportOK
PROPERTY OwnRowOnly
PROPERTY Terminates
