"""C06: Craig-Bampton checks are right on valid models and flag invalid ones.

specs/CraigBampton.tla: descriptors of free 3-D structures (6-DOF joints at integer coordinates with lumped masses and
inertias; ordered boundary of 1-3 grids; all / some modes retained; boundary output system R / C / S) with the exact 6x6
rigid-body mass matrix about the reference grid (total, boundary part, interior part) computed by TLC in integers, and the
state machine Reorder / Convert / Ground / BreakGeometry whose invariants (mass properties invariant under Reorder, unit
exponent bookkeeping, defects sticky, parallel-axis consistency) are checked on every history.  The driver builds each
structure (springs K_e = L' k L with rigid motion exactly in the null space), performs its own Craig-Bampton reduction, runs
cbcheck / cbtf / cgmass / cbconvert / cbreorder / uset_convert along every exported history and compares with the spec."""
import io
import json
import warnings

from . import tlc, terms
from .runner import main, Run

LCONV_M2E = 1 / 0.0254
MCONV_M2E = 0.005710147154735817


def skew(np, r):
    return np.array([[0, -r[2], r[1]], [r[2], 0, -r[0]], [-r[1], r[0], 0.0]])


def build_structure(np, rng, grids):
    """free structure: grids = [(xyz, mass, jdiag)]; returns M, K (6N x 6N, basic coordinates)"""
    N = len(grids)
    M = np.zeros((6 * N, 6 * N))
    K = np.zeros((6 * N, 6 * N))
    for g, (xyz, m, J) in enumerate(grids):
        M[6 * g: 6 * g + 3, 6 * g: 6 * g + 3] = m * np.eye(3)
        M[6 * g + 3: 6 * g + 6, 6 * g + 3: 6 * g + 6] = np.diag(J)
    edges = [(i, i + 1) for i in range(N - 1)] + [(i, j) for i in range(N) for j in range(i + 2, N) if rng.uniform() < 0.5]
    for i, j in edges:
        R = np.eye(6)
        R[:3, 3:] = -skew(np, np.array(grids[j][0], float) - np.array(grids[i][0], float))
        L = np.zeros((6, 6 * N))
        L[:, 6 * i: 6 * i + 6] = -R
        L[:, 6 * j: 6 * j + 6] = np.eye(6)
        a = rng.standard_normal((6, 6))
        K += L.T @ (2e3 * (a @ a.T + 6 * np.eye(6))) @ L
    return M, K


def cb_reduce(np, la, M, K, bdof, nmodes):
    n = M.shape[0]
    idof = np.setdiff1d(np.arange(n), bdof)
    Kii = K[np.ix_(idof, idof)]
    psi = -la.solve(Kii, K[np.ix_(idof, bdof)])
    w, phi = la.eigh(Kii, M[np.ix_(idof, idof)])
    phi = phi[:, :nmodes]
    nb = len(bdof)
    T = np.zeros((n, nb + nmodes))
    T[bdof, np.arange(nb)] = 1.0
    T[np.ix_(idof, np.arange(nb))] = psi
    T[np.ix_(idof, np.arange(nb, nb + nmodes))] = phi
    return T.T @ M @ T, T.T @ K @ T, T, np.sqrt(np.abs(w[:nmodes])) / 2 / np.pi


def body(run: Run, replay):
    import numpy as np
    import scipy.linalg as la
    import mpmath as mp
    warnings.simplefilter("ignore")
    from pyyeti import cb
    from pyyeti.nastran import n2p
    quick = run.tier == "quick"
    run.rule = ("every descriptor of the model (N in {4,5}%s grids x ordered boundary of 1-3 grids x all/some modes x output system R/C/S; "
                "quick: every 3rd) -> cbcheck: rbs = rbg = rbe, rb' m rb = the spec's integer mass matrix, cgmass, K rb = 0, effective mass "
                "bookkeeping, fixed-base frequencies; every history of the state machine (reorder / convert / ground / break geometry, length %d) "
                "replayed through cbreorder / cbconvert / uset_convert and through cbcheck's own bseto / conv arguments; cbtf residual of the "
                "full equations for real and complex m, b, k; cgmass on rigid 6x6 masses. distinct non-trivial = descriptors + histories" % (
                    "" if quick else ",6", 2 if quick else 3))
    run.assumptions = ["the driver's own Craig-Bampton reduction (constraint modes + fixed-interface eigenvectors by scipy.linalg.eigh) is trusted",
                       "springs are K_e = L' k L with L = [-R(r_ij), I]: rigid motion is in the null space by construction",
                       "tolerances: 1e-7 relative for rigid-body modes and mass properties, grounding force below 1e-7 ||K|| on valid models and "
                       "above 1e-4 of the added ground stiffness on grounded ones",
                       "trusted: TLC, the generic evaluator for the cylindrical / spherical displacement frames (terms of specs/CoordSys.tla)"]
    cfg = "MC_CraigBampton.cfg" if quick else "MC_CraigBampton_t.cfg"
    res = tlc.run("CraigBampton", cfg, timeout=1500)
    run.add_tlc(cfg, res, "BoundaryIsPermutation, MassSplits, TotalMassInvariant, ParallelAxis, UnitsBounded, DefectSticky on every history")
    if res.violation:
        run.violation("TLC: %s on the CraigBampton model" % res.violation, {"tlc": res.error_text()}, {"where": "model"})
        return
    cres = tlc.run("CoordSys", "MC_CoordSys.cfg", timeout=600)
    run.add_tlc("MC_CoordSys.cfg", cres, "displacement-frame terms reused for boundary grids in cylindrical / spherical output systems")
    gen, _rbt = cres.tagged("GENERIC")[0]
    gen = {int(k): v for k, v in gen.items()} if isinstance(gen, dict) else {i + 1: v for i, v in enumerate(gen)}
    mp.mp.dps = 30
    rng = np.random.default_rng(run.seed + 6)

    def f2n(Mx):
        return np.array([[float(Mx[i, j]) for j in range(Mx.cols)] for i in range(Mx.rows)])

    def frames(bnd_xyz, oc):
        """output system card (about an offset origin, random orientation) and the displacement frame of every boundary grid"""
        if oc == 1 and rng.uniform() < 0.5:
            return 0, [np.eye(3) for _ in bnd_xyz]
        A = np.array([-7.0, -5.0, -6.0]) + rng.uniform(-1, 1, 3)
        q, _ = np.linalg.qr(rng.standard_normal((3, 3)))
        onaxis = None
        if oc in (2, 3) and rng.uniform() < 0.35:
            # put the FIRST boundary grid exactly on the polar axis of the output system (positive or negative side): exact
            # arithmetic needs axis-parallel directions, so the system is axis-aligned with the basic system here
            q = np.eye(3)[:, rng.permutation(3)] * rng.choice([-1.0, 1.0], 3)
            if np.linalg.det(q) < 0:
                q[:, 0] = -q[:, 0]
            side = float(rng.choice([-1.0, 1.0]))
            A = np.array(bnd_xyz[0], float) - side * 3.7 * q[:, 2]
            onaxis = 0
        card = np.array([[9, oc, 0], A, A + 3 * q[:, 2], A + 3 * q[:, 0] + 0.5 * q[:, 2]])
        z = (card[2] - card[1]) / np.linalg.norm(card[2] - card[1])
        y = np.cross(z, card[3] - card[1])
        y /= np.linalg.norm(y)
        Tm = np.column_stack((np.cross(y, z), y, z))
        Gs = []
        for jx, x in enumerate(bnd_xyz):
            which = "frameaxis" if jx == onaxis else "frame"
            if jx != onaxis and oc in (2, 3):
                dloc = Tm.T @ (np.array(x, float) - A)
                if abs(dloc[0]) + abs(dloc[1]) < 1e-6:
                    which = "frameaxis"          # another boundary grid happens to lie on the axis as well
            G = terms.evm(gen[oc][which], {"O": mp.matrix(A.tolist()), "T": mp.matrix(Tm.tolist()), "x": mp.matrix([float(v) for v in x])}, mp)
            Gs.append(f2n(G))
        return card, Gs

    def make_case(d, grids):
        """physical model -> CB model with boundary in d['bnd'] order, local frames applied; returns dict"""
        N = d["n"]
        M, K = build_structure(np, rng, grids)
        bnd = [g - 1 for g in d["bnd"]]
        bdof = np.hstack([np.arange(6 * g, 6 * g + 6) for g in bnd])
        card, Gs = frames([grids[g][0] for g in bnd], d["outcs"])
        ni = 6 * (N - len(bnd))
        nmodes = ni if d["modes"] == "all" else max(1, ni // 2)
        Mcb, Kcb, T, frq = cb_reduce(np, la, M, K, bdof, nmodes)
        # boundary DOF in each grid's own displacement frame
        Gb = np.eye(Mcb.shape[0])
        for j, G in enumerate(Gs):
            Gb[6 * j: 6 * j + 3, 6 * j: 6 * j + 3] = G
            Gb[6 * j + 3: 6 * j + 6, 6 * j + 3: 6 * j + 6] = G
        Mcb = Gb.T @ Mcb @ Gb
        Kcb = Gb.T @ Kcb @ Gb
        ids = [100 + g for g in d["bnd"]]
        uset = n2p.addgrid(None, ids, "b", 0, [grids[g][0] for g in bnd], card)
        return dict(M=M, K=K, Mcb=Mcb, Kcb=Kcb, uset=uset, nb=6 * len(bnd), frq=frq, ids=ids, bnd=bnd, Gb=Gb, T=T, nmodes=nmodes)

    def chk_valid(out, want6, scale_m, scale_l, what, tags, kscale):
        """cbcheck result of a VALID model against the spec's integer mass matrix (scaled by the unit exponents)"""
        nb = len(out.bset)
        rbs, rbg, rbe, m, k = out.rbs, out.rbg, out.rbe, out.m, out.k
        B = out.bset
        sc = max(np.abs(rbg).max(), 1.0)
        if not (np.abs(rbs[B] - rbg).max() <= 1e-7 * sc and np.abs(rbe[B] - rbg).max() <= 1e-6 * sc):
            return run.violation("%s: stiffness- / geometry- / eigenvalue-based rigid-body modes differ on a valid model (max |rbs - rbg| = %.3g, |rbe - rbg| = %.3g)" % (
                what, np.abs(rbs[B] - rbg).max(), np.abs(rbe[B] - rbg).max()), {}, tags)
        W = np.array(want6, float)
        S = np.ones((6, 6)) * scale_m
        S[:3, 3:] *= scale_l
        S[3:, :3] *= scale_l
        S[3:, 3:] *= scale_l ** 2
        W = W * S
        for nm, mm in (("stiffness", rbs.T @ m @ rbs), ("geometry", rbg.T @ m[np.ix_(B, B)] @ rbg), ("eigenvalue", rbe.T @ m @ rbe)):
            if not np.abs(mm - W).max() <= 1e-7 * np.abs(W).max():
                return run.violation("%s: mass matrix implied by the %s-based rigid-body modes is not the structure's (max dev %.3g of %.3g)" % (
                    what, nm, np.abs(mm - W).max(), np.abs(W).max()), {"got": mm, "want": W}, tags)
        # mass, cg, inertia from cgmass of the implied matrix = the spec's numbers
        mcg, dxyz, gyr, pgyr, Icg, pI = cb.cgmass(rbg.T @ m[np.ix_(B, B)] @ rbg, all6=True)
        mt = W[0, 0]
        dw = np.array([W[1, 5], W[2, 3], W[0, 4]]) / mt
        Iw = W[3:, 3:] - mt * (np.dot(dw, dw) * np.eye(3) - np.outer(dw, dw))
        if not (np.allclose(dxyz, dw, atol=1e-8 * scale_l * 10) and np.allclose(Icg, Iw, atol=1e-7 * np.abs(W).max()) and abs(mcg[0, 0] - mt) <= 1e-9 * mt
                and np.abs(mcg[:3, 3:]).max() <= 1e-7 * np.abs(W).max()):
            return run.violation("%s: cgmass does not recover mass / centre of gravity / inertia of the structure" % what, {"d": dxyz, "want": dw}, tags)
        for nm, frc in (("stiffness", k @ rbs), ("geometry", k[np.ix_(B, B)] @ rbg), ("eigenvalue", k @ rbe)):
            if not np.abs(frc).max() <= 1e-7 * kscale * sc:
                return run.violation("%s: %s-based rigid-body motion produces stiffness force %.3g on a valid model" % (what, nm, np.abs(frc).max()), {}, tags)
        return None

    descs = res.tagged("DESC")
    if quick:
        descs = [x for i, x in enumerate(descs) if i % 3 == 0 or len(x[0]["bnd"]) == 3 and i % 2 == 0]
    for d, gtab, m6, m6b, m6i in descs:
        grids = [(g[0], g[1], g[2]) for g in gtab]
        run.case(("desc", json.dumps(d, sort_keys=True)), part="cbcheck on valid models")
        tags = {"nbnd": len(d["bnd"]), "modes": d["modes"], "outcs": d["outcs"], "fn": "cbcheck"}
        c = make_case(d, grids)
        nb = c["nb"]
        n = c["Mcb"].shape[0]
        # hand the matrices over with the b-set at arbitrary positions: grid blocks (6 contiguous DOF each) and modal DOF are
        # shuffled symmetrically; bseto points at the boundary DOF in the descriptor's order
        blocks = [list(range(6 * j_, 6 * j_ + 6)) for j_ in range(nb // 6)] + [[j_] for j_ in range(nb, n)]
        orderb = rng.permutation(len(blocks)) if rng.uniform() < 0.7 else np.arange(len(blocks))
        layout = np.array([x for b_ in orderb for x in blocks[b_]])
        pos = np.empty(n, int)
        pos[layout] = np.arange(n)              # DOF j of the CB model sits at row pos[j]
        Mh = c["Mcb"][np.ix_(layout, layout)]
        Kh = c["Kcb"][np.ix_(layout, layout)]
        bseto = pos[:nb]
        # the USET table is the b-set table in the matrices' own (ascending position) order
        gorder = np.argsort([pos[6 * j_] for j_ in range(nb // 6)])
        uset_h = c["uset"].loc[[c["ids"][j] for j in gorder]]
        ref_xyz = np.array(grids[c["bnd"][0]][0], float)
        kscale = np.abs(Kh).max()
        try:
            out = cb.cbcheck(io.StringIO(), Mh, Kh, bseto, bseto[:6], uset_h, uref=c["ids"][0], rb_norm=True)
            out2 = cb.cbcheck(io.StringIO(), Mh, Kh, bseto, bseto[:6], uset_h, uref=ref_xyz, rb_norm=True)
        except Exception as ex:
            run.violation("cbcheck raised %r" % ex, {"desc": d}, tags)
            continue
        if chk_valid(out, m6, 1.0, 1.0, "cbcheck (reference = grid id, rb_norm)", tags, kscale) is None:
            chk_valid(out2, m6, 1.0, 1.0, "cbcheck (reference = xyz)", tags, kscale)
        # effective mass: sum over retained modes + boundary part = total (all modes), <= (some modes); percent table consistent
        em = out.effmass.values
        tot = np.diag(np.array(m6, float))
        bpart = np.diag(np.array(m6b, float))
        ipart = np.diag(np.array(m6i, float))
        ssum = em.sum(axis=0) if em.size else np.zeros(6)
        if d["modes"] == "all":
            ok = np.allclose(ssum + bpart, tot, rtol=1e-7, atol=1e-7 * tot.max())
        else:
            ok = np.all(ssum <= ipart * (1 + 1e-9) + 1e-9) and np.all(ssum >= -1e-12)
        if not ok:
            run.violation("cbcheck: modal effective mass %s + boundary residual %s does not account for the total mass %s per direction (%s modes retained)" % (
                ssum.round(6).tolist(), bpart.tolist(), tot.tolist(), d["modes"]), {"desc": d}, dict(tags, clause="effmass"))
        if em.size and not np.allclose(out.effmass_percent.values * tot / 100.0, em, rtol=1e-9, atol=1e-12):
            run.violation("cbcheck: effective mass in percent is not effmass / total mass", {"desc": d}, dict(tags, clause="effmass"))
        if not np.allclose(np.sort(out.cb_frq), np.sort(c["frq"]), rtol=1e-8):
            run.violation("cbcheck: fixed-base frequencies differ from the fixed-interface eigenvalues", {"desc": d}, dict(tags, clause="cb_frq"))
        # the print filter em_filt decides which modes are LISTED in the report; the returned tables keep every mode
        if em.size:
            try:
                filt = float(np.median(out.effmass_percent.values.max(axis=1))) + 1e-9
                outf = cb.cbcheck(io.StringIO(), Mh, Kh, bseto, bseto[:6], uset_h, uref=c["ids"][0], rb_norm=True, em_filt=filt)
                if outf.effmass.shape != out.effmass.shape or not np.allclose(outf.effmass.values, em, rtol=1e-9, atol=1e-12) or \
                        not np.allclose(outf.effmass_percent.values, out.effmass_percent.values, rtol=1e-9, atol=1e-12) or \
                        len(outf.cb_frq) != len(out.cb_frq) or not np.allclose(outf.cb_frq, out.cb_frq, rtol=1e-10):
                    run.violation("cbcheck(em_filt=%.3g): the returned effective-mass tables / fixed-base frequencies (%d modes) differ from those without a "
                                  "print filter (%d modes): the modal effective mass no longer accounts for the total" % (filt, outf.effmass.shape[0], em.shape[0]),
                                  {"desc": d}, dict(tags, clause="effmass", em_filt=True))
            except Exception as ex:
                run.violation("cbcheck(em_filt > 0) raised %r" % ex, {"desc": d}, dict(tags, clause="effmass"))
        run.trace_validated()
        # ---- cbtf: full equations of motion with the enforced boundary acceleration, at every frequency
        if len(descs) and (hash(json.dumps(d, sort_keys=True)) % 3 == 0 or not quick):
            run.case(("cbtf", json.dumps(d, sort_keys=True)), part="cbtf residual")
            nq = n - nb
            zeta = rng.uniform(0.01, 0.05, nq)
            bq = 2 * zeta * np.sqrt(np.abs(np.diag(c["Kcb"])[nb:]))
            Bcb = np.zeros((n, n))
            Bcb[nb:, nb:] = np.diag(bq) + (0.05 * np.sqrt(np.outer(bq, bq)) * (1 - np.eye(nq)) if nq > 1 else 0)
            # damping that couples boundary and modal DOF as well (the statement says: any m, b, k)
            cpl = 0.1 * np.sqrt(bq.mean()) * rng.standard_normal((n, 2))
            Bcb = Bcb + cpl @ cpl.T
            Bh = Bcb[np.ix_(layout, layout)]
            for cplx in (False, True):
                Kx = Kh * (1 + 0.02j) if cplx else Kh
                freq = np.r_[0.0, np.sort(rng.uniform(0.2, 3.0, 5)) * max(c["frq"].min(), 0.1)]
                acc = rng.standard_normal((nb, len(freq))) + 1j * rng.standard_normal((nb, len(freq)))
                try:
                    tf = cb.cbtf(Mh, Bh, Kx, acc, freq, bseto)
                except Exception as ex:
                    run.violation("cbtf raised %r" % ex, {"desc": d}, dict(tags, fn="cbtf"))
                    continue
                Om = 2 * np.pi * freq
                Fb = np.zeros((n, len(freq)), complex)
                Fb[bseto] = tf.frc
                resid = Mh @ tf.a + Bh @ tf.v + Kx @ tf.d - Fb
                fs = max(np.abs(Mh @ tf.a).max(), np.abs(Kx @ tf.d).max(), 1e-300)
                nz = Om != 0
                bad = None
                if np.abs(resid).max() > 1e-8 * fs:
                    bad = "the full equations of motion are not satisfied (residual %.3g of %.3g)" % (np.abs(resid).max(), fs)
                elif np.abs(tf.a[bseto] - acc).max() != 0:
                    bad = "boundary acceleration is not the enforced one"
                elif np.abs(tf.v[:, nz] - 1j * Om[nz] * tf.d[:, nz]).max() > 1e-10 * np.abs(tf.v).max() or np.abs(tf.a[:, nz] + Om[nz] ** 2 * tf.d[:, nz]).max() > 1e-9 * np.abs(tf.a).max():
                    bad = "v = i W d / a = -W^2 d do not hold"
                if bad:
                    run.violation("cbtf (%s stiffness): %s" % ("complex" if cplx else "real", bad), {"desc": d}, dict(tags, fn="cbtf", cplx=cplx))
            run.trace_validated()

    # ---- state-machine histories
    hists = res.tagged("HIST")
    hists = [h for i, h in enumerate(hists) if i % (4 if quick else 6) == 0]
    dlook = {json.dumps(x[0], sort_keys=True): x for x in res.tagged("DESC")}
    for d, hist, order, uexp, defect, m6 in hists:
        _d, gtab, m60, m6b, m6i = dlook[json.dumps(d, sort_keys=True)]
        grids = [(g[0], g[1], g[2]) for g in gtab]
        run.case(("hist", json.dumps(d, sort_keys=True), json.dumps(hist)), part="reorder / convert / defect histories")
        tags = {"nbnd": len(d["bnd"]), "ops": [h[0] for h in hist], "fn": "history"}
        c = make_case(d, grids)
        nb = c["nb"]
        n = c["Mcb"].shape[0]
        M1, K1 = c["Mcb"].copy(), c["Kcb"].copy()
        uset = c["uset"]
        ids = list(c["ids"])
        bset = np.arange(nb)
        drm = rng.standard_normal((4, n))
        D1 = drm.copy()
        M0, K0, U0 = M1.copy(), K1.copy(), uset.copy()
        lam0 = np.sort(np.abs(la.eigh(K1, M1, eigvals_only=True)))
        ground_k = 0.0
        moved = 0.0
        try:
            # apply the history with the stand-alone functions; the LAST reorder / convert is instead left to cbcheck's own arguments
            pending_bseto = None
            pending_conv = None
            e = 0
            for hi, h in enumerate(hist):
                last = hi == len(hist) - 1
                if h[0] == "reorder":
                    p = [x - 1 for x in h[1]]
                    bnew = np.hstack([np.arange(6 * j, 6 * j + 6) for j in p])
                    if last:
                        pending_bseto = bnew
                    else:
                        M1, K1, D1 = cb.cbreorder(M1, bnew), cb.cbreorder(K1, bnew), cb.cbreorder(D1, bnew, drm=True)
                        uset = uset.loc[[ids[j] for j in p]]
                        ids = [ids[j] for j in p]
                elif h[0] == "convert":
                    e += 1 if h[1] == "m2e" else -1
                    if last:
                        pending_conv = h[1]
                    else:
                        M1, K1, D1 = cb.cbconvert(M1, bset, h[1]), cb.cbconvert(K1, bset, h[1]), cb.cbconvert(D1, bset, h[1], drm=True)
                        uset = cb.uset_convert(uset, None, h[1])[0]
                elif h[0] == "ground":
                    # a spring to ground on a boundary translation (the structure is no longer free)
                    ground_k = 0.05 * np.abs(K1).max()
                    K1 = K1.copy()
                    K1[1, 1] += ground_k
                elif h[0] == "break":
                    # the second boundary grid is moved in the USET table only
                    moved = 0.5 * (LCONV_M2E ** e)
                    uset = uset.copy()
                    row = list(uset.index.get_level_values("id")).index(ids[1])
                    uset.iloc[row, 1] = uset.iloc[row, 1] + moved
            e_before = e - (0 if pending_conv is None else (1 if pending_conv == "m2e" else -1))
            bseto = pending_bseto if pending_bseto is not None else bset
            ids_final = [ids[j] for j in ([x // 6 for x in bseto[::6]])]
            uref = ids_final[0]
            if len(hist) % 2 == 0 or pending_conv is not None:
                # reference given as a location (in the units BEFORE cbcheck's own conversion, as documented)
                uref = np.array(grids[order[0] - 1][0], float) * (LCONV_M2E ** e_before)
            # hand the matrices over with the b-set NOT in the leading rows (q-set first or interleaved) for most histories: grid blocks and
            # modal DOF shuffled symmetrically, bseto pointing at the boundary DOF in the wanted order, USET table in matrix order
            if (len(hist) + len(order) + uexp) % 4 != 0:
                blocks = [list(range(6 * j_, 6 * j_ + 6)) for j_ in range(nb // 6)] + [[j_] for j_ in range(nb, n)]
                orderb = rng.permutation(len(blocks))
                if rng.uniform() < 0.5:
                    orderb = np.r_[np.arange(nb // 6, len(blocks)), np.arange(nb // 6)]     # all modal DOF first, b-set last
                layout = np.array([x for b_ in orderb for x in blocks[b_]])
                pos = np.empty(n, int)
                pos[layout] = np.arange(n)
                M1 = M1[np.ix_(layout, layout)]
                K1 = K1[np.ix_(layout, layout)]
                bseto = pos[bseto]
                cur_ids = list(uset.index.get_level_values("id")[::6])
                gorder = np.argsort([pos[6 * j_] for j_ in range(nb // 6)])
                uset = uset.loc[[cur_ids[j_] for j_ in gorder]]
            snap = [np.array(x, copy=True) for x in (M1, K1, bseto, np.asarray(uref, float), uset.values)]
            out = cb.cbcheck(io.StringIO(), M1, K1, bseto, bseto[:6], uset, uref=uref, conv=pending_conv, rb_norm=True)
            # the call leaves its arguments alone, and the very same call again gives the very same answer
            now = [M1, K1, bseto, np.asarray(uref, float), uset.values]
            if not all(a_.shape == b_.shape and np.array_equal(a_, b_, equal_nan=True) for a_, b_ in zip(snap, now)):
                run.violation("cbcheck modified one of its arguments (Mcb, Kcb, bseto, uref or the USET table)", {"desc": d, "hist": hist}, dict(tags, clause="inputs"))
            out_b = cb.cbcheck(io.StringIO(), M1, K1, bseto, bseto[:6], uset, uref=uref, conv=pending_conv, rb_norm=True)
            # (rbe comes from an iterative eigensolver with a random start vector: equal to round-off only)
            if not (all(np.array_equal(getattr(out, nm_), getattr(out_b, nm_)) for nm_ in ("m", "k", "rbs", "rbg"))
                    and np.allclose(out.rbe, out_b.rbe, rtol=0, atol=1e-7 * max(1.0, np.abs(out.rbe).max()))):
                run.violation("two identical cbcheck calls give different results", {"desc": d, "hist": hist}, dict(tags, clause="repeat"))
        except Exception as ex:
            run.violation("history %s raised %r" % (hist, ex), {"desc": d}, tags)
            continue
        if [100 + g for g in order] != list(out.uset.index.get_level_values("id")[::6]):
            run.violation("after %s the boundary grids are %s, expected order %s" % (hist, list(out.uset.index.get_level_values("id")[::6]), [100 + g for g in order]),
                          {"desc": d}, dict(tags, clause="order"))
            continue
        sm, sl = MCONV_M2E ** uexp, LCONV_M2E ** uexp
        kscale = np.abs(out.k).max()
        if defect == "none":
            chk_valid(out, m6, sm, sl, "cbcheck after %s" % hist, tags, kscale)
            # free-free frequencies unchanged by unit conversion and reordering
            lam = np.sort(np.abs(la.eigh(out.k, out.m, eigvals_only=True)))
            if not np.allclose(lam[6:], lam0[6:], rtol=1e-7):
                run.violation("frequencies changed by %s" % hist, {"desc": d}, dict(tags, clause="frequencies"))
        elif defect == "grounded":
            B = out.bset
            frc = np.abs(out.k[np.ix_(B, B)] @ out.rbg).max()
            gk = ground_k * (MCONV_M2E ** uexp)            # a stiffness scales like mass (time unchanged)
            if not frc > 1e-4 * gk:
                run.violation("grounded model: the grounding check shows only %.3g (added ground stiffness %.3g)" % (frc, gk), {"desc": d}, dict(tags, clause="grounded"))
        elif defect == "geometry":
            B = out.bset
            dev = np.abs(out.rbs[B] - out.rbg).max()
            moved = 0.5 * LCONV_M2E ** uexp          # the 0.5-unit move expressed in the FINAL units (the table is converted after it)
            if not dev > 0.3 * moved:
                run.violation("inconsistent geometry (grid moved by %.3g in the USET table): stiffness- and geometry-based rigid-body modes differ by only %.3g" % (moved, dev),
                              {"desc": d}, dict(tags, clause="geometry"))
        # inverses: undoing every reorder / convert of the history with the stand-alone functions returns the original matrices
        M2, K2, D2 = M0.copy(), K0.copy(), drm.copy()
        stack = []
        for h in hist:
            if h[0] == "reorder":
                p = [x - 1 for x in h[1]]
                bnew = np.hstack([np.arange(6 * j, 6 * j + 6) for j in p])
                M2, K2, D2 = cb.cbreorder(M2, bnew), cb.cbreorder(K2, bnew), cb.cbreorder(D2, bnew, drm=True)
                stack.append(("reorder", np.argsort(bnew)))
            elif h[0] == "convert":
                M2, K2, D2 = cb.cbconvert(M2, bset, h[1]), cb.cbconvert(K2, bset, h[1]), cb.cbconvert(D2, bset, h[1], drm=True)
                stack.append(("convert", "e2m" if h[1] == "m2e" else "m2e"))
        # recovered responses unchanged: DRM x acceleration, with the acceleration expressed in the converted / reordered coordinates
        acc0 = rng.standard_normal(n)
        acc = acc0.copy()
        for h in hist:
            if h[0] == "reorder":
                p = [x - 1 for x in h[1]]
                bnew = np.hstack([np.arange(6 * j, 6 * j + 6) for j in p])
                acc = np.r_[acc[bnew], acc[nb:]]
            elif h[0] == "convert":
                lc, mc = (LCONV_M2E, MCONV_M2E) if h[1] == "m2e" else (1 / LCONV_M2E, 1 / MCONV_M2E)
                cvec = np.ones(n)
                cvec[np.arange(nb).reshape(-1, 6)[:, :3].ravel()] = lc
                cvec[nb:] = np.sqrt(mc) * lc
                acc = acc * cvec
        if not np.allclose(D2 @ acc, drm @ acc0, rtol=1e-10, atol=1e-12):
            run.violation("recovered responses (DRM x acceleration) changed by %s" % hist, {"desc": d}, dict(tags, clause="drm"))
        for kind, arg in reversed(stack):
            if kind == "reorder":
                M2, K2, D2 = cb.cbreorder(M2, arg), cb.cbreorder(K2, arg), cb.cbreorder(D2, arg, drm=True)
            else:
                M2, K2, D2 = cb.cbconvert(M2, bset, arg), cb.cbconvert(K2, bset, arg), cb.cbconvert(D2, bset, arg, drm=True)
        if not (np.allclose(M2, M0, rtol=1e-12, atol=1e-12 * np.abs(M0).max()) and np.allclose(K2, K0, rtol=1e-12, atol=1e-12 * np.abs(K0).max())
                and np.allclose(D2, drm, rtol=1e-12, atol=1e-14)):
            run.violation("reordering / unit conversion is not undone by its inverse (%s)" % hist, {"desc": d}, dict(tags, clause="inverse"))
        run.trace_validated()

    # ---- the stand-alone functions leave their arguments alone (float ndarray reference point included)
    for trial in range(20):
        nbt = 12
        n = nbt + 3
        a_ = rng.standard_normal((n, n))
        Mx = a_ @ a_.T
        bs = np.arange(nbt)[::-1].copy() if trial % 2 else np.arange(nbt)
        ref = rng.uniform(1, 5, 3)
        us = n2p.addgrid(None, [11, 12], "b", 0, rng.uniform(-3, 3, (2, 3)), 0)
        snap = [Mx.copy(), bs.copy(), ref.copy(), us.values.copy()]
        run.case(("immutable", trial), part="arguments untouched")
        cb.cbconvert(Mx, bs, "m2e")
        cb.cbconvert(Mx, bs, "e2m", drm=True)
        cb.cbreorder(Mx, bs, last=bool(trial % 3))
        u2, r2 = cb.uset_convert(us, ref, "m2e")
        u3, r3 = cb.uset_convert(us, ref, "m2e")
        cb.cgmass(Mx[:6, :6])
        now = [Mx, bs, ref, us.values]
        if not all(np.array_equal(x_, y_) for x_, y_ in zip(snap, now)):
            run.violation("cbconvert / cbreorder / uset_convert / cgmass modified an argument", {"trial": trial}, {"fn": "immutability"})
        if not (np.array_equal(r2, r3) and np.array_equal(u2.values, u3.values) and np.allclose(r2, ref * LCONV_M2E, rtol=1e-15)):
            run.violation("uset_convert: the same call twice gives different results / wrong reference point", {"trial": trial}, {"fn": "uset_convert"})
    # ---- cgmass on rigid 6x6 masses (the doc's matrix from mass, cg offset, inertia at cg)
    for trial in range(60):
        mval = float(rng.uniform(0.5, 50))
        dv = rng.uniform(-10, 10, 3)
        a = rng.standard_normal((3, 3))
        Icg = a @ a.T + 3 * np.eye(3)
        S = skew(np, dv)
        M6 = np.zeros((6, 6))
        M6[:3, :3] = mval * np.eye(3)
        M6[:3, 3:] = -mval * S
        M6[3:, :3] = mval * S
        M6[3:, 3:] = Icg + mval * (np.dot(dv, dv) * np.eye(3) - np.outer(dv, dv))
        run.case(("cgmass", trial), part="cgmass")
        mcg, dxyz, gyr, pgyr, I_, pI = cb.cgmass(M6, all6=True)
        if not (np.allclose(dxyz, dv, rtol=1e-10, atol=1e-10) and np.allclose(I_, Icg, rtol=1e-9, atol=1e-9) and np.allclose(mcg[:3, 3:], 0, atol=1e-9 * mval * 10)
                and np.allclose(np.sort(np.diag(pI)), np.sort(la.eigvalsh(Icg)), rtol=1e-9) and np.allclose(gyr, np.sqrt(np.diag(Icg) / mval), rtol=1e-9)):
            run.violation("cgmass does not recover mass / cg / inertia of a rigid 6x6 mass", {"M": M6}, {"fn": "cgmass"})


if __name__ == "__main__":
    main("C06", "exploration", body)
