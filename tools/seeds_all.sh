#!/bin/sh
# re-runs every recorded seeded change (seeded/<id>/patch.diff + demo.py) against the CURRENT quick checks, four at a time, and writes
# seeds_summary.txt (one line per seed: demo rc on unchanged / changed tree, detected or not, first failing clause)
cd "$(dirname "$0")/.." || exit 2
tmpd=$(mktemp -d /tmp/seedsall_XXXXXX)
ls seeded | xargs -P 4 -I{} sh -c 'p=$(echo {} | cut -c1-3); cp seeded/{}/patch.diff '"$tmpd"'/{}.diff; cp seeded/{}/demo.py '"$tmpd"'/{}.py; timeout 3600 tools/seedtest.py $p '"$tmpd"'/{}.diff '"$tmpd"'/{}.py {} 2>&1 | grep -v "^WARN" | tail -2 | tr "\n" " " | cut -c1-330 > '"$tmpd"'/{}.txt'
: > seeds_summary.txt.new
for s in $(ls seeded); do printf "%s  %s\n" "$s" "$(cat $tmpd/$s.txt)" >> seeds_summary.txt.new; done
mv seeds_summary.txt.new seeds_summary.txt
rm -rf $tmpd
echo done
