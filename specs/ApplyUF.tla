------------------------------ MODULE ApplyUF ------------------------------
(***************************************************************************)
(* C16 (uncertainty-factor part).  cla.apply_uf / DR_Event.apply_uf.       *)
(* A caller applies a sequence of uf tuples (ruf, euf, duf, suf) to ONE    *)
(* modal solution, sharing a caller-owned cache dict `save` (filled by the *)
(* first call that reaches the elastic part) or giving a fresh one.        *)
(* Each component of a tuple is either exactly one ("one") or generic      *)
(* ("g1".."g4", instantiated by the driver).                               *)
(* The documented scaling table is written as TERMS over the input         *)
(* solution (RealTerms constructors); TLC enumerates the call histories,   *)
(* checks the term-level laws and exports what each call must return.      *)
(***************************************************************************)
EXTENDS Integers, Sequences, TLC

CONSTANTS MaxCalls, Export

VARIABLES cache,     \* "empty" | "filled"   (the `save` dict)
          calls,     \* sequence of <<uf, mode>>,  mode \in {"shared", "fresh"}
          results    \* sequence of the term records each call must return

vars == <<cache, calls, results>>

Comp == {"one", "gen"}
UFs == {<<r, e, d, s>> : r \in Comp, e \in Comp, d \in Comp, s \in Comp}

\* term constructors with the unit law built in
One == <<"one">>
V(name) == <<"var", name>>
Sym(name, c) == IF c = "one" THEN One ELSE V(name)
Mul2(a, b) == IF a = One THEN b ELSE IF b = One THEN a ELSE <<"mul", a, b>>
Scale(f, x) == IF f = One THEN x ELSE <<"mul", f, x>>

\* F = m a + b v + k d on the elastic equations; avterm = m a + b v
AV == <<"add", <<"matmul", V("M_el"), V("a_el")>>, <<"matmul", V("B_el"), V("v_el")>>>>
GF == <<"add", AV, <<"matmul", V("K_el"), V("d_el")>>>>

Terms(uf) ==
  LET ruf == Sym("ruf", uf[1])  euf == Sym("euf", uf[2])
      duf == Sym("duf", uf[3])  suf == Sym("suf", uf[4])
  IN [ a_rb  |-> Scale(Mul2(ruf, suf), V("a_rb")),
       v_rb  |-> Scale(Mul2(ruf, suf), V("v_rb")),
       ds_rb |-> <<"zero", V("d_rb")>>,
       dd_rb |-> <<"zero", V("d_rb")>>,
       a_el  |-> Scale(Mul2(euf, duf), V("a_el")),
       v_el  |-> Scale(Mul2(euf, duf), V("v_el")),
       ds_el |-> Scale(Mul2(euf, suf), <<"solve", V("K_el"), GF>>),
       dd_el |-> Scale(Mul2(euf, duf), <<"neg", <<"solve", V("K_el"), AV>>>>),
       a_rf  |-> <<"zero", V("a_rf")>>,
       v_rf  |-> <<"zero", V("v_rf")>>,
       ds_rf |-> Scale(Mul2(euf, suf), V("d_rf")),
       dd_rf |-> <<"zero", V("d_rf")>>,
       pg    |-> Scale(suf, V("pg")) ]

Init == cache = "empty" /\ calls = <<>> /\ results = <<>>

Call(uf, mode) ==
  /\ Len(calls) < MaxCalls
  /\ calls' = Append(calls, <<uf, mode>>)
  /\ results' = Append(results, Terms(uf))          \* independent of `cache`: that is the property
  /\ cache' = IF mode = "shared" THEN "filled" ELSE cache

Next == \E uf \in UFs, mode \in {"shared", "fresh"} : Call(uf, mode)
Spec == Init /\ [][Next]_vars

\* unit factors leave a, v (rb, el), the static rf displacement and pg unchanged
UnitIsIdentity == \A i \in 1..Len(calls) :
   calls[i][1] = <<"one", "one", "one", "one">> =>
      /\ results[i].a_rb = V("a_rb") /\ results[i].v_rb = V("v_rb")
      /\ results[i].a_el = V("a_el") /\ results[i].v_el = V("v_el")
      /\ results[i].ds_rf = V("d_rf") /\ results[i].pg = V("pg")
      /\ results[i].ds_el = <<"solve", V("K_el"), GF>>
      /\ results[i].dd_el = <<"neg", <<"solve", V("K_el"), AV>>>>

\* the same tuple gives the same terms wherever it occurs in the history (cache reuse is invisible)
CacheInvisible == \A i, j \in 1..Len(calls) : calls[i][1] = calls[j][1] => results[i] = results[j]

ExportOK == Export =>
   /\ (Len(calls) = 0 => \A uf \in UFs : PrintT(<<"UFT", uf, Terms(uf)>>))
   /\ (Len(calls) = MaxCalls => /\ PrintT(<<"UFC", calls>>)
                               /\ \A i \in 1..Len(calls) : results[i] = Terms(calls[i][1]))
---------------------------------------------------------------------------
(* Merging uncertainty factors (DR_Event.add(..., uf_reds, method)).  A     *)
(* category's factors (rigid, elastic, dynamic, static) are updated entry   *)
(* by entry: None keeps the old value, 'replace' takes the new one,          *)
(* 'multiply' the product - a factor of exactly 0 is a value like any other  *)
(* (it switches a part off), not "no value".  Factors are tenths.            *)
NoneV == 0 - 1
OldVals == {10, 12, 25}
NewVals == {NoneV, 0, 10, 15}
MergeOne(o, n, method) == IF n = NoneV THEN o * 10 ELSE IF method = "replace" THEN n * 10 ELSE o * n       \* result in hundredths
MergeLaws == \A o \in OldVals, n \in NewVals :
   /\ MergeOne(o, NoneV, "multiply") = o * 10 /\ MergeOne(o, NoneV, "replace") = o * 10
   /\ MergeOne(o, 0, "multiply") = 0 /\ MergeOne(o, 0, "replace") = 0
   /\ MergeOne(o, 10, "multiply") = o * 10
ExportMerge == (Export /\ Len(calls) = 0) =>
   PrintT(<<"MERGE", {<<o, n, m, MergeOne(o, n, m)>> : o \in OldVals, n \in NewVals, m \in {"replace", "multiply"}}>>)
=============================================================================
