#!/bin/sh
# runs every mutation control (mutants/Cxx.json) against the quick checks and writes controls_summary.txt
cd "$(dirname "$0")/.." || exit 2
out=controls_summary.txt
: > $out.tmp
for f in mutants/C*.json; do
  p=$(basename $f .json)
  echo "### $p" >> $out.tmp
  timeout 7200 tools/muttest.py $p 2>&1 | grep -v "^WARN" | cut -c1-220 >> $out.tmp
done
mv $out.tmp $out
echo done
