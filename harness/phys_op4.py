"""Neutral physical layer for Nastran OUTPUT4 files: bytes <-> abstract records.
Imports nothing from pyYeti.  Shares no code with it (struct + string formatting only).

abstract matrix block (exactly the shape specs/Op4.tla exports):
  {"hdr": {"ncols", "nrows", "form", "mtype", "name"},
   "cols": [{"icol", "irow", "nw", "strs": [{"hw": [...], "r0", "n", "vals": [numbers]}]}],
   "trailer": {"icol", "irow", "nw"}}
For complex matrices every entry of "vals" is a complex number (two numbers in the file).
"""
import math
import re
import struct


# ---------------------------------------------------------------------------------------------
# rendering
def _fmt_num(x, width, digits, letter):
    s = "%*.*E" % (width, digits, x)
    if len(s) != width:
        raise ValueError("value %r does not fit the announced field width %d.%d (renderer must be given values that fit)" % (x, width, digits))
    if letter == "D":
        s = s.replace("E", "D")
    return s


def render_ascii(blocks, width=23, digits=16, letter="E", perline=None, prefix="1P,", i16=False):
    """blocks: list of abstract matrix blocks with numeric vals."""
    out = []
    if perline is None:
        perline = 80 // width
    for b in blocks:
        h = b["hdr"]
        cplx = h["mtype"] in (3, 4)
        iw = 16 if i16 else 8
        line = "%*d%*d%8d%8d%-8s%s%d%s%d.%d" % (iw, h["ncols"], iw, h["nrows"], h["form"], h["mtype"], h["name"].upper()[:8],
                                               prefix, perline, letter, width, digits)
        if i16:
            line += "|I16"
        out.append(line)

        def numbers(vals):
            nums = []
            for v in vals:
                if cplx:
                    nums += [complex(v).real, complex(v).imag]
                else:
                    nums.append(float(v))
            return nums

        def write_nums(nums):
            for i in range(0, len(nums), perline):
                out.append("".join(_fmt_num(x, width, digits, letter) for x in nums[i : i + perline]))

        for c in b["cols"]:
            out.append("%8d%8d%8d" % (c["icol"], c["irow"], c["nw"]))
            for s in c["strs"]:
                if len(s["hw"]) == 2:
                    out.append("%8d%8d" % (s["hw"][0], s["hw"][1]))
                elif len(s["hw"]) == 1:
                    out.append("%8d" % s["hw"][0])
                write_nums(numbers(s["vals"]))
        t = b["trailer"]
        out.append("%8d%8d%8d" % (t["icol"], t["irow"], t["nw"]))
        out.append(_fmt_num(math.sqrt(2.0), width, digits, letter))
    return ("\n".join(out) + "\n").encode()


def render_binary(blocks, endian="<", bit64=False):
    """Fortran unformatted records.  Precision follows mtype: 1/3 single, 2/4 double; with 64-bit keys every
    word (integer or real) is 8 bytes."""
    E = endian
    ik = "q" if bit64 else "i"
    out = bytearray()

    def rec(payload):
        out.extend(struct.pack(E + "i", len(payload)))
        out.extend(payload)
        out.extend(struct.pack(E + "i", len(payload)))

    for b in blocks:
        h = b["hdr"]
        cplx = h["mtype"] in (3, 4)
        single = h["mtype"] in (1, 3) and not bit64
        rk = "f" if single else "d"
        nm8 = h["name"].upper().encode().ljust(8)
        # 64-bit keys: the 8-character name occupies two 8-byte words, 4 characters + 4 blanks each
        name = (nm8[:4] + b"    " + nm8[4:] + b"    ") if bit64 else nm8
        rec(struct.pack(E + "4" + ik, h["ncols"], h["nrows"], h["form"], h["mtype"]) + name)

        def numbers(vals):
            nums = []
            for v in vals:
                if cplx:
                    nums += [complex(v).real, complex(v).imag]
                else:
                    nums.append(float(v))
            return struct.pack(E + "%d%s" % (len(nums), rk), *nums)

        for c in b["cols"]:
            p = struct.pack(E + "3" + ik, c["icol"], c["irow"], c["nw"])
            for s in c["strs"]:
                if s["hw"]:
                    p += struct.pack(E + "%d%s" % (len(s["hw"]), ik), *s["hw"])
                p += numbers(s["vals"])
            rec(p)
        t = b["trailer"]
        rec(struct.pack(E + "3" + ik, t["icol"], t["irow"], t["nw"]) + struct.pack(E + rk, math.sqrt(2.0)))
    return bytes(out)


# ---------------------------------------------------------------------------------------------
# tokenizing
class FormatError(Exception):
    pass


def tokenize(data):
    """bytes -> (variant dict, list of abstract matrix blocks).  Raises FormatError when the bytes are not a
    word of the OUTPUT4 grammar (record markers inconsistent, word counts not consumed exactly, ...)."""
    if min(data[:4]) == 0:
        return _tok_binary(data)
    return _tok_ascii(data.decode("latin-1"))


def _tok_binary(data):
    le = struct.unpack("<i", data[:4])[0]
    be = struct.unpack(">i", data[:4])[0]
    if le in (24, 48):
        E, rl = "<", le
    elif be in (24, 48):
        E, rl = ">", be
    else:
        raise FormatError("first record length is neither 24 nor 48")
    bit64 = rl == 48
    ik, ib = ("q", 8) if bit64 else ("i", 4)
    pos = 0
    blocks = []

    def rec():
        nonlocal pos
        if pos + 4 > len(data):
            raise FormatError("truncated record marker")
        n = struct.unpack(E + "i", data[pos : pos + 4])[0]
        p = data[pos + 4 : pos + 4 + n]
        if len(p) < n:
            raise FormatError("truncated record")
        n2 = struct.unpack(E + "i", data[pos + 4 + n : pos + 8 + n])[0] if pos + 8 + n <= len(data) else None
        if n2 != n:
            raise FormatError("record markers disagree (%r vs %r at offset %d)" % (n, n2, pos))
        pos += 8 + n
        return p

    while pos < len(data):
        p = rec()
        if len(p) != (48 if bit64 else 24):
            raise FormatError("header record has %d bytes" % len(p))
        ncols, nrows, form, mtype = struct.unpack(E + "4" + ik, p[: 4 * ib])
        raw = p[4 * ib :]
        if bit64:
            raw = raw[:4] + raw[8:12]
        name = raw.decode("latin-1").strip().lower()
        cplx = mtype in (3, 4)
        single = mtype in (1, 3) and not bit64
        rk, rb = ("f", 4) if single else ("d", 8)
        wpv = 1 if (single or bit64) else 2
        W = wpv * (2 if cplx else 1)
        blk = {"hdr": dict(ncols=ncols, nrows=nrows, form=form, mtype=mtype, name=name), "cols": [], "byte_start": pos - len(p) - 8}
        bigmat = nrows < 0 or nrows >= 65536
        while True:
            p = rec()
            icol, irow, nw = struct.unpack(E + "3" + ik, p[: 3 * ib])
            q = 3 * ib
            if icol > ncols:
                blk["trailer"] = dict(icol=icol, irow=irow, nw=nw)
                break

            def reals(n):
                nonlocal q
                k = n * (2 if cplx else 1)
                v = struct.unpack(E + "%d%s" % (k, rk), p[q : q + k * rb])
                q += k * rb
                return [complex(v[2 * i], v[2 * i + 1]) for i in range(n)] if cplx else list(v)

            strs = []
            if irow > 0:
                if nw % W:
                    raise FormatError("dense word count %d not a multiple of %d" % (nw, W))
                n = nw // W
                strs.append(dict(hw=[], r0=irow, n=n, vals=reals(n)))
            else:
                left = nw
                while left > 0:
                    if bigmat:
                        L1, r0 = struct.unpack(E + "2" + ik, p[q : q + 2 * ib])
                        q += 2 * ib
                        L = L1 - 1
                        hw = [L1, r0]
                        left -= L + 2
                    else:
                        (IS,) = struct.unpack(E + ik, p[q : q + ib])
                        q += ib
                        L = IS // 65536 - 1
                        r0 = IS - 65536 * (L + 1)
                        hw = [IS]
                        left -= L + 1
                    if L % W:
                        raise FormatError("string length %d not a multiple of %d" % (L, W))
                    strs.append(dict(hw=hw, r0=r0, n=L // W, vals=reals(L // W)))
                if left != 0:
                    raise FormatError("column word count not consumed exactly (left %d)" % left)
            if q != len(p):
                raise FormatError("column record has %d unread bytes" % (len(p) - q))
            blk["cols"].append(dict(icol=icol, irow=irow, nw=nw, strs=strs))
        blk["byte_end"] = pos
        blocks.append(blk)
    return dict(kind="binary", endian=E, bit64=bit64), blocks


_numre = re.compile(r"[-+ ]?\d?\.\d+[EeDd][-+]\d+")


def _tok_ascii(text):
    lines = text.split("\n")
    if lines and lines[-1] == "":
        lines.pop()
    i = 0
    blocks = []
    variant = dict(kind="ascii")
    while i < len(lines):
        line = lines[i].rstrip()
        start = i
        i += 1
        if line.endswith("|I16"):
            line = line[:-4]
            iw = 16
        else:
            iw = 8
        ncols, nrows = int(line[:iw]), int(line[iw : 2 * iw])
        form, mtype = int(line[2 * iw : 2 * iw + 8]), int(line[2 * iw + 8 : 2 * iw + 16])
        name = line[2 * iw + 16 : 2 * iw + 24].strip().lower()
        fmt = line[2 * iw + 24 :].strip().upper()
        perline, width = 5, 16
        if fmt:
            f2 = fmt[3:] if fmt.startswith("1P,") else fmt
            m = re.match(r"(\d+)([ED])(\d+)\.(\d+)", f2)
            if not m:
                raise FormatError("bad format field %r" % fmt)
            perline, width = int(m.group(1)), int(m.group(3))
            variant.update(letter=m.group(2), width=width, digits=int(m.group(4)), perline=perline, i16=(iw == 16))
        cplx = mtype in (3, 4)
        wpv = 1 if mtype in (1, 3) else 2
        W = wpv * (2 if cplx else 1)
        bigmat = nrows < 0 or nrows >= 65536
        blk = {"hdr": dict(ncols=ncols, nrows=nrows, form=form, mtype=mtype, name=name), "cols": [], "line_start": start}

        def read_nums(k):
            nonlocal i
            vals = []
            while len(vals) < k:
                ln = lines[i]
                i += 1
                take = min(perline, k - len(vals))
                if len(ln.rstrip()) > perline * width:
                    raise FormatError("value line longer than %d x %d characters: %r" % (perline, width, ln))
                for j in range(take):
                    fld = ln[j * width : (j + 1) * width]
                    if not _numre.fullmatch(fld.strip().rjust(1)) and not _numre.fullmatch(fld.strip()):
                        raise FormatError("field %r is not a number of the announced width %d" % (fld, width))
                    vals.append(float(fld.replace("D", "E").replace("d", "e")))
                if ln[take * width :].strip():
                    raise FormatError("extra characters on value line %r" % ln)
            return vals

        def entries(n):
            v = read_nums(n * (2 if cplx else 1))
            return [complex(v[2 * k], v[2 * k + 1]) for k in range(n)] if cplx else v

        while True:
            ln = lines[i]
            i += 1
            icol, irow, nw = int(ln[:8]), int(ln[8:16]), int(ln[16:24])
            if icol > ncols:
                blk["trailer"] = dict(icol=icol, irow=irow, nw=nw)
                read_nums(1)
                break
            strs = []
            if irow > 0:
                cp = 2 if cplx else 1
                if nw % cp:
                    raise FormatError("dense number count %d odd for a complex matrix" % nw)
                strs.append(dict(hw=[], r0=irow, n=nw // cp, vals=entries(nw // cp)))
            else:
                left = nw
                while left > 0:
                    ln = lines[i]
                    i += 1
                    if bigmat:
                        L1, r0 = int(ln[:8]), int(ln[8:16])
                        L = L1 - 1
                        hw = [L1, r0]
                        left -= L + 2
                    else:
                        IS = int(ln)
                        L = IS // 65536 - 1
                        r0 = IS - 65536 * (L + 1)
                        hw = [IS]
                        left -= L + 1
                    if L % W:
                        raise FormatError("string length %d not a multiple of %d" % (L, W))
                    strs.append(dict(hw=hw, r0=r0, n=L // W, vals=entries(L // W)))
                if left != 0:
                    raise FormatError("column word count not consumed exactly (left %d)" % left)
            blk["cols"].append(dict(icol=icol, irow=irow, nw=nw, strs=strs))
        blk["line_end"] = i
        blocks.append(blk)
    return variant, blocks


def place(block):
    """dense matrix (list of lists) described by an abstract block - trivial placement of runs"""
    h = block["hdr"]
    nr, nc = abs(h["nrows"]), h["ncols"]
    cplx = h["mtype"] in (3, 4)
    M = [[(0j if cplx else 0.0)] * nc for _ in range(nr)]
    for c in block["cols"]:
        for s in c["strs"]:
            for k, v in enumerate(s["vals"]):
                M[s["r0"] - 1 + k][c["icol"] - 1] = v
    return M
