CONSTANTS
  Export = TRUE
  Den = 2
  MaxN = 24
INIT Init
NEXT Next
INVARIANT ExportGrid
INVARIANT ExportTerms
INVARIANT ExportLaws
