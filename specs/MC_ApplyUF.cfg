CONSTANTS
  MaxCalls = 3
  Export = TRUE
SPECIFICATION Spec
INVARIANT UnitIsIdentity
INVARIANT CacheInvisible
INVARIANT ExportOK
