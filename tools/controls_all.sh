#!/bin/sh
# runs every mutation control (mutants/Cxx.json) against the quick checks, four properties at a time, and writes controls_summary.txt
cd "$(dirname "$0")/.." || exit 2
out=controls_summary.txt
tmpd=$(mktemp -d /tmp/controls_XXXXXX)
ls mutants/C*.json | sed 's#mutants/##; s#\.json##' | xargs -P 4 -I{} sh -c 'timeout 14400 tools/muttest.py {} 2>&1 | grep -v "^WARN" | cut -c1-220 > '"$tmpd"'/{}.txt'
: > $out.new
for f in mutants/C*.json; do
  p=$(basename $f .json)
  echo "### $p" >> $out.new
  cat $tmpd/$p.txt >> $out.new
done
mv $out.new $out
rm -rf $tmpd
echo done
