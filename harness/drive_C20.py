"""C20: order statistics and tolerance-limit k-factors meet their definitions.

specs/Stats.tla: Conf(p, n, r) = P(Bin(n, 1-p) >= r) in exact integer arithmetic on three grids (p, c in tenths with n <= 8,
quarters with n <= 14, halves with n <= 24); TLC decides monotonicity in r, n, p, total mass and the mutual consistency of the
extreme-integer definitions, and exports for every query the admissible answers (tie intervals where Conf = c exactly).  Beyond the
grids the same definition is exported as a TERM and evaluated in exact rationals.  k-factors: the defining probability statements as
terms with quadrature / root constructors (one-sided: integral of Phi against the chi-square density; two-sided: the documented
Wald-Wolfowitz equations), plus the monotonicity / limit laws on a TLC-exported grid."""
import json
from fractions import Fraction

from . import tlc, terms
from .runner import main, Run


def body(run: Run, replay):
    import numpy as np
    import warnings
    import mpmath as mp
    warnings.simplefilter("ignore")
    from pyyeti import stats as _stats

    class ImplError(Exception):
        pass

    class _G:
        """pyyeti.stats with every exception raised by the implementation turned into ImplError (reported as a violation)"""
        def __getattr__(self, name):
            fn = getattr(_stats, name)

            def call(*a, **k):
                try:
                    return fn(*a, **k)
                except Exception as ex:
                    raise ImplError("%s(%s) raised %r" % (name, ", ".join([repr(x) for x in a] + ["%s=%r" % kv for kv in k.items()])[:200], ex))
            return call
    stats = _G()

    def guarded(tags, fn):
        try:
            fn()
        except ImplError as ex:
            run.violation(str(ex), {}, tags)
    quick = run.tier == "quick"
    run.rule = ("order_stats r/n/c/p against TLC's exact tables on the grids tenths (n<=8), quarters (n<=14), halves (n<=24) - every grid "
                "point; against the exact-rational evaluation of the Conf term for random (p, c, n<=300 quick / 1500 thorough, r<=25); scalar = broadcast; "
                "ksingle / kdouble: defining probability statements by quadrature / root terms (|residual| <= 1e-8) on the law grid, "
                "monotone in p and c, limit z_p from above for c >= 1/2. distinct non-trivial = queries")
    run.assumptions = ["exact ties Conf = c admit both neighbours (binary64 cannot resolve them)",
                       "quadrature (mpmath tanh-sinh, 25 digits) is a numerical primitive of the generic evaluator: the k-factor clauses are "
                       "tested, not proved; residual tolerance 1e-8",
                       "trusted: TLC, mpmath, fractions"]
    T = None
    laws = None
    for grid in ("tenths", "quarters", "halves"):
        cfg = "MC_Stats_%s.cfg" % grid
        res = tlc.run("Stats", cfg, timeout=900)
        run.add_tlc(cfg, res, "ASSUME MonotoneInR, MonotoneInNExact, MonotoneInP, TotalMass, Consistent; exports rank / size / conf tables")
        if res.violation:
            run.violation("TLC: %s on the Stats model (%s)" % (res.violation, grid), {"tlc": res.error_text()}, {"where": "model"})
            return
        T = T or res.tagged("TERMS")[0][0]
        laws = laws or res.tagged("LAWS")[0]
        maxn = None
        for den, a, cc, tab in res.tagged("RANK"):
            try:
                p, c = a / den, cc / den
                maxn = len(tab)
                ns = np.arange(1, maxn + 1)
                got_arr = stats.order_stats("r", p=p, c=c, n=ns)
                for n, (lo, hi) in zip(ns, tab):
                    run.case(("r", den, a, cc, int(n)), part="order_stats on the TLC grids")
                    got = stats.order_stats("r", p=p, c=c, n=int(n))
                    tags = {"which": "r", "grid": grid}
                    if not isinstance(got, (int, np.integer)):
                        run.violation("order_stats('r') scalar call does not return an integer (%r)" % (got,), {"p": p, "c": c, "n": int(n)}, tags)
                        continue
                    if not (lo <= got <= hi):
                        run.violation("order_stats('r', p=%g, c=%g, n=%d) = %d; the largest rank meeting the confidence is %d%s" % (
                            p, c, n, got, hi, "" if lo == hi else " (tie: %d also admissible)" % lo), {"p": p, "c": c, "n": int(n)}, tags)
                    if got_arr[n - 1] != got:
                        run.violation("order_stats('r') broadcast result differs from the scalar call", {"p": p, "c": c, "n": int(n)}, tags)
                    run.trace_validated()
            except ImplError as ex:
                run.violation(str(ex), {}, {"raised": True})
        for den, a, cc, tab in res.tagged("SIZE"):
            try:
                p, c = a / den, cc / den
                rs = np.arange(1, len(tab) + 1)
                got_arr = stats.order_stats("n", p=p, c=c, r=rs)
                for r, (weak, strict) in zip(rs, tab):
                    run.case(("n", den, a, cc, int(r)), part="order_stats on the TLC grids")
                    got = int(stats.order_stats("n", p=p, c=c, r=int(r)))
                    tags = {"which": "n", "grid": grid}
                    if weak == 0:
                        ok = got > maxn
                    elif strict == 0:
                        ok = got >= weak
                    else:
                        ok = weak <= got <= strict
                    if not ok:
                        run.violation("order_stats('n', p=%g, c=%g, r=%d) = %d; the smallest sample size meeting the confidence is %s" % (
                            p, c, r, got, weak if weak else "> %d" % maxn), {"p": p, "c": c, "r": int(r)}, tags)
                    if int(got_arr[r - 1]) != got:
                        run.violation("order_stats('n') broadcast result differs from the scalar call", {"p": p, "c": c, "r": int(r)}, tags)
                    run.trace_validated()
            except ImplError as ex:
                run.violation(str(ex), {}, {"raised": True})
        for den, a, tab in res.tagged("CONF"):
            try:
                p = a / den
                for n, row in enumerate(tab, 1):
                    for r, num in enumerate(row, 1):
                        run.case(("c", den, a, n, r), part="order_stats on the TLC grids")
                        want = Fraction(num, den ** n)
                        got = float(stats.order_stats("c", p=p, n=n, r=r))
                        tags = {"which": "c", "grid": grid}
                        if abs(got - float(want)) > 1e-12:
                            run.violation("order_stats('c', p=%g, n=%d, r=%d) = %.15g, exact %.15g" % (p, n, r, got, float(want)), {"p": p, "n": n, "r": r}, tags)
                        # coverage: the root of Conf(., n, r) = c; bracket it with the exact Conf term
                        if 0 < num < den ** n and (n * 7 + r) % 3 == 0:
                            cq = float(want)
                            pgot = float(stats.order_stats("p", c=cq, n=n, r=r))
                            d = Fraction(1, 10 ** 9)
                            env = {"n": n, "r": r}
                            up = terms.evq(T["conf"], dict(env, p=Fraction(pgot) - d))
                            dn = terms.evq(T["conf"], dict(env, p=Fraction(pgot) + d))
                            if not (up >= Fraction(cq) >= dn):
                                run.violation("order_stats('p', c=%g, n=%d, r=%d) = %.12g does not solve Conf(p, n, r) = c" % (cq, n, r, pgot),
                                              {"c": cq, "n": n, "r": r}, {"which": "p", "grid": grid})
                            run.case(("p", den, a, n, r), part="order_stats on the TLC grids")
                        run.trace_validated()
            except ImplError as ex:
                run.violation(str(ex), {}, {"raised": True})
    import time as _t
    if __import__("os").environ.get("VERIF_DEBUG"): print("  grids done %.1fs" % (_t.time() - run.t0))
    # ---- beyond the grids: the Conf term in exact rationals
    rng = np.random.default_rng(run.seed + 20)
    for trial in range(int(__import__('os').environ.get('C20_TRIALS', 100 if quick else 250))):
        try:
            p = float(rng.integers(500, 1000)) / 1000 if trial % 3 else float(rng.choice([0.9, 0.95, 0.99, 0.9973, 0.999]))
            c = float(rng.integers(50, 999)) / 1000 if trial % 3 else float(rng.choice([0.5, 0.9, 0.95, 0.99]))
            n = int(rng.integers(2, (300 if quick else 1500) if trial % 2 else 60))
            pq, cq = Fraction(p), Fraction(c)
            slack = Fraction(1, 10 ** 10)

            def conf(n_, r_, p_=pq):
                if r_ <= 0:
                    return Fraction(1)
                if r_ > n_:
                    return Fraction(0)
                return terms.evq(T["conflow"] if r_ < n_ - r_ else T["conf"], {"p": p_, "n": n_, "r": r_})
            # rank
            run.case(("R", p, c, n), part="order_stats vs the exact Conf term")
            r = stats.order_stats("r", p=p, c=c, n=n)
            tags = {"which": "r", "grid": "term"}
            if r < 0 or r > n or (r > 0 and conf(n, r) < cq * (1 - slack)) or (r < n and conf(n, r + 1) > cq * (1 + slack)):
                run.violation("order_stats('r', p=%g, c=%g, n=%d) = %d is not the largest rank with Conf >= c (Conf(r) = %.12g, Conf(r+1) = %.12g)" % (
                    p, c, n, r, float(conf(n, r)), float(conf(n, r + 1))), {"p": p, "c": c, "n": n}, tags)
            # size
            r2 = int(rng.integers(1, 26))
            if (1.5 * r2 + 10) / (1 - p) <= (400 if quick else 4000):
                nn = int(stats.order_stats("n", p=p, c=c, r=r2))
                run.case(("N", p, c, r2), part="order_stats vs the exact Conf term")
                if nn < r2 or conf(nn, r2) < cq * (1 - slack) or (nn > r2 and conf(nn - 1, r2) > cq * (1 + slack)):
                    run.violation("order_stats('n', p=%g, c=%g, r=%d) = %d is not the smallest size with Conf >= c" % (p, c, r2, nn),
                                  {"p": p, "c": c, "r": r2}, {"which": "n", "grid": "term"})
                # mutual consistency: the rank question at that size returns at least r
                back = stats.order_stats("r", p=p, c=c, n=nn)
                if back < r2 and conf(nn, r2) > cq * (1 + slack):
                    run.violation("order_stats: n = %d answers (p=%g, c=%g, r=%d) but the rank at that n is %d" % (nn, p, c, r2, back),
                                  {"p": p, "c": c, "r": r2}, {"which": "r", "grid": "term"})
            # confidence and coverage
            r3 = int(rng.integers(1, min(n, 25) + 1))
            cg = float(stats.order_stats("c", p=p, n=n, r=r3))
            run.case(("C", p, n, r3), part="order_stats vs the exact Conf term")
            if abs(cg - float(conf(n, r3))) > 1e-11:
                run.violation("order_stats('c', p=%g, n=%d, r=%d) = %.15g, exact %.15g" % (p, n, r3, cg, float(conf(n, r3))), {"p": p, "n": n, "r": r3},
                              {"which": "c", "grid": "term"})
            if 1e-6 < cg < 1 - 1e-6:
                pg = float(stats.order_stats("p", c=cg, n=n, r=r3))
                d = Fraction(1, 10 ** 8)
                if not (conf(n, r3, Fraction(pg) - d) >= Fraction(cg) >= conf(n, r3, Fraction(pg) + d)):
                    run.violation("order_stats('p', c=%g, n=%d, r=%d) = %.12g does not solve Conf = c" % (cg, n, r3, pg), {"c": cg, "n": n, "r": r3},
                                  {"which": "p", "grid": "term"})
            run.trace_validated()
        except ImplError as ex:
            run.violation(str(ex), {}, {"raised": True})
    # high coverage asked with LOW confidence: few samples suffice, the bracket of the root finder starts near them
    for p in (0.9, 0.95, 0.99, 0.995):
        for c in (0.02, 0.05, 0.1, 0.2):
            for r2 in (1, 2, 3):
                try:
                    nn = int(stats.order_stats("n", p=p, c=c, r=r2))
                except ImplError as ex:
                    run.violation(str(ex), {}, {"raised": True})
                    continue
                run.case(("Ncorner", p, c, r2), part="order_stats vs the exact Conf term")
                pq, cq = Fraction(p), Fraction(c)
                def conf2(n_):
                    return Fraction(0) if r2 > n_ else terms.evq(T["conflow"] if r2 < n_ - r2 else T["conf"], {"p": pq, "n": n_, "r": r2})
                if nn < r2 or conf2(nn) < cq * (1 - Fraction(1, 10 ** 10)) or (nn > r2 and conf2(nn - 1) >= cq * (1 + Fraction(1, 10 ** 10))):     # decimal ties (0.1 = 1 - 0.9) go either way in binary64
                    run.violation("order_stats('n', p=%g, c=%g, r=%d) = %d is not the smallest sample size with Conf >= c (Conf(n-1) = %.6g)" % (
                        p, c, r2, nn, float(conf2(nn - 1)) if nn > r2 else -1.0), {"p": p, "c": c, "r": r2}, {"which": "n", "grid": "corner"})
    if __import__("os").environ.get("VERIF_DEBUG"): print("  term part done %.1fs" % (_t.time() - run.t0))
    # ---- k-factors
    mp.mp.dps = 25
    pairs, sizes, percents = laws
    sizes = sorted(sizes)
    percents = sorted(percents)
    kgrid = [(p / 100, c / 100, n) for p in percents for c in percents for n in sizes if n <= 100]
    if quick:
        kgrid = kgrid[::3]
    # the defining statements far beyond the tabulated sample sizes, on both sides of 50 % confidence
    kgrid += [(p / 100, c / 100, n) for p in (25, 90, 99) for c in (10, 50, 95) for n in sizes if n > 1000]
    for p, c, n in kgrid:
        try:
            env = {"p": mp.mpf(p), "c": mp.mpf(c), "n": mp.mpf(n)}
            zp = terms.evm(T["zp"], env, mp)
            k1 = float(stats.ksingle(p, c, n))
            run.case(("ksingle", p, c, n), part="k-factor defining statements")
            nu_ = mp.mpf(max(n - 1, 1))
            sd_ = mp.sqrt(2 * nu_)
            qp = [nu_ / 2, nu_, 2 * nu_ + 10] if n <= 100 else [nu_ - 12 * sd_, nu_ - 4 * sd_, nu_, nu_ + 4 * sd_, nu_ + 12 * sd_]
            prob = terms.evm(T["onesided"], dict(env, k=mp.mpf(k1), zp=zp, __quadpts=qp), mp)
            if abs(prob - c) > 1e-8:
                run.violation("ksingle(%g, %g, %d) = %.12g: P(mean + k s bounds the %g quantile) = %.12g, not %g" % (p, c, n, k1, p, float(prob), c),
                              {"p": p, "c": c, "n": n}, {"fn": "ksingle"})
            if n > 1000:
                run.trace_validated()
                continue                       # the incomplete-gamma primitive does not converge for 3e6 degrees of freedom
            k2 = float(stats.kdouble(p, c, n))
            run.case(("kdouble", p, c, n), part="k-factor defining statements")
            chi = terms.evm(T["chiroot"], env, mp)
            R = terms.evm(T["rfromk"], dict(env, k=mp.mpf(k2), chi=chi), mp)
            cov = terms.evm(T["coverage"], dict(env, R=R), mp)
            if abs(cov - p) > 1e-8:
                run.violation("kdouble(%g, %g, %d) = %.12g does not solve the documented coverage equations (coverage %.12g)" % (p, c, n, k2, float(cov)),
                              {"p": p, "c": c, "n": n}, {"fn": "kdouble"})
            run.trace_validated()
        except ImplError as ex:
            run.violation(str(ex), {}, {"raised": True})
    if __import__("os").environ.get("VERIF_DEBUG"): print("  k defining part done %.1fs" % (_t.time() - run.t0))
    # laws: monotone in p and c; limit from above; broadcast
    for fn, name in ((stats.ksingle, "ksingle"), (stats.kdouble, "kdouble")):
        try:
            for lo, hi in pairs:
                for other in percents:
                    for n in sizes:
                        run.case((name, "mono", lo, hi, other, n), part="k-factor laws")
                        if not fn(hi / 100, other / 100, n) > fn(lo / 100, other / 100, n):
                            run.violation("%s is not increasing in coverage (p %g -> %g at c=%g, n=%d)" % (name, lo / 100, hi / 100, other / 100, n), {"n": n}, {"fn": name})
                        if not fn(other / 100, hi / 100, n) > fn(other / 100, lo / 100, n):
                            run.violation("%s is not increasing in confidence (c %g -> %g at p=%g, n=%d)" % (name, lo / 100, hi / 100, other / 100, n), {"n": n}, {"fn": name})
            for p in percents:
                z = float(terms.evm(T["zp"], {"p": mp.mpf(p) / 100 if name == "ksingle" else (1 + mp.mpf(p) / 100) / 2}, mp))
                for c in percents:
                    ks = [float(fn(p / 100, c / 100, n)) for n in sizes + [10 ** 6, 10 ** 8]]
                    run.case((name, "limit", p, c), part="k-factor laws")
                    if abs(ks[-2] - z) > 5e-3 * (1 + abs(z)) or abs(ks[-1] - z) > 5e-4 * (1 + abs(z)) or abs(ks[-1] - z) > abs(ks[-2] - z) + 1e-12:
                        run.violation("%s(%g, %g, n) does not converge to the normal quantile %.9g (n=1e6: %.9g, n=1e8: %.9g)" % (name, p / 100, c / 100, z, ks[-2], ks[-1]),
                                      {"p": p, "c": c}, {"fn": name})
                    # "from above when c >= 50 %": at exactly 50 % the factor is the median of the scaled non-central t, z_p (1 + 1/(4 nu) + ...),
                    # which lies BELOW z_p when z_p < 0 - the clause is checked where it is a mathematical fact (c > 50 %, or p >= 50 %)
                    if (c > 50 or (c == 50 and z >= 0)) and not all(k >= z - 1e-9 for k in ks):
                        run.violation("%s(%g, %g, n) approaches the normal quantile from below although c >= 0.5" % (name, p / 100, c / 100), {"p": p, "c": c}, {"fn": name})
            P = np.array(percents)[:, None] / 100
            N = np.array(sizes)[None, :]
            arr = fn(P, 0.9, N)
            ref = np.array([[float(fn(p / 100, 0.9, n)) for n in sizes] for p in percents])
            run.case((name, "broadcast"), part="k-factor laws")
            if arr.shape != ref.shape or not np.allclose(arr, ref, rtol=1e-12, atol=0):
                run.violation("%s broadcast result differs from scalar calls" % name, {}, {"fn": name})
        except ImplError as ex:
            run.violation(str(ex), {}, {"raised": True})


if __name__ == "__main__":
    main("C20", "exploration", body)
