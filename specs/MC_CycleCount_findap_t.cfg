CONSTANTS
  MaxLen = 7
  MaxVal = 3
  Export = TRUE
  Mode = "findap"
INIT Init
NEXT Next
INVARIANT TypeOK
INVARIANT DefaultTolOK
INVARIANT Conservation
INVARIANT ExportOK
INVARIANT ExportBins
