"""Regenerates /verif/MANIFEST.json from the table below (run: /venv/bin/python -m harness.manifest_gen)."""
import json
import os

VERIF = os.path.dirname(os.path.dirname(os.path.abspath(__file__)))

BASE_OFF = ("cd /repo && env -u PYYETI_VERIF /venv/bin/python -m pytest -ra -q -p no:cacheprovider --timeout=900 "
            "--continue-on-collection-errors")

CHECKS = {
    "C05": dict(
        cat="model_checking",
        text=("TLC proves on the model, for EVERY integer reversal sequence up to the bound (quick: length<=6 over 0..4; "
              "thorough: <=7 over 0..4, <=9 over 0..2, <=5 over 0..8), that the implementation-shaped state machine "
              "(specs/Rainflow.tla: in-place pts/cidx arrays, j==2 shift, tail loop, final slice) equals the ASTM E1049 "
              "reference written on sequences, plus the counting identity, offsets-name-their-points, largest-range and "
              "negate/shift/scale laws. TLC exports the expected table per input and every implementation built from the "
              "working tree (c_rain fast + two-pass macro variant, py_rain, cyclecount.rainflow) is replayed on every input "
              "and on exact affine images, with and without offsets; tables must match exactly. Memory layouts (spec Layouts / LayoutLaw / "
              "InputNeverWritten): a sample of the inputs is also passed as non-contiguous float64 / int64 views (every second cell, a column of a "
              "row-major table, a reversed view) of a buffer whose other cells hold a filler; the table must be the one of the plain sequence and "
              "the whole buffer must be unchanged after the call."),
        ref="4/C05",
        note=("Trusted: TLC, gcc build of c_rain.c from the working tree, the 40-line ASTM reference in the spec. numba absent: "
              "decorated definitions run undecorated. Real-valued inputs are covered only through dyadic affine images and "
              "C-vs-Python bit agreement on random reals."),
        technique="TLA+ refinement check (TLC) + exhaustive spec-to-code replay of exported behaviours",
    ),
    "C08": dict(
        cat="model_checking",
        text=("specs/OdeGen.tla models the generator interface as a state machine over SYMBOLIC columns (terms ic / zero / "
              "step(prev,f0,f1)) with the hidden cdforces cache; TLC checks on every history of send(i)/add-on/finalize up to the "
              "bound (quick NT=4, 7 actions: 4500 states; thorough NT=5, 9 actions: 88k states) that completed columns equal the "
              "batch recursion of the force history in effect (Valid, FinalIsBatch), the cache is coherent whenever used, and no "
              "action touches a column beyond the one addressed. Every exported maximal history is then replayed into the real "
              "generators (SolveUnc real / complex / cd_as_force, SolveCDF, SolveExp2; order 0/1; rb/el/rf blocks; m None/vector/"
              "matrix / matrix that is not symmetric (coupled kinds); the 7 initial-condition rules exported by the spec - zero, d0, v0, d0+v0, static, static+d0, static+v0) and after EVERY action ts._force (exactly), d and v (all columns incl. the stale ones "
              "the spec predicts) are compared with the terms interpreted by the batch solver's two-sample tsolve; finalize() d,v,a "
              "vs batch tsolve; get_f2x vs measured unit add-on increments (order 1). Growth (specs/OdeReuse.tla): ONE solver object used "
              "for a history of public calls (tsolve / fsolve / complete generator session / get_f2x; hidden slots modelled by their last "
              "writer, NoStaleRead checked by TLC on every history of length 3, thorough 4); every history is replayed on SolveUnc (diag, "
              "complex-eigenvalue path with conjugate-pair bookkeeping, cd_as_force), SolveCDF, SolveExp2, SolveNewmark with a nonlinear "
              "term and FreqDirect: each call's result must be bit-identical to the same call on a fresh object, and results handed out "
              "earlier must not be modified by later calls."),
        ref="4/C08",
        note=("Trusted: TLC; the batch solver as oracle for Step (the property's own oracle); tolerance 1e-9 relative to the history norm. "
              "Quick replays a seeded sample of maximal histories per configuration, thorough replays 200 per configuration of the larger model."),
        technique="TLA+ model of call histories with symbolic terms (TLC exhaustive) + replay of exported histories into the real generators",
    ),
    "C16": dict(
        cat="model_checking",
        text=("specs/ClaExtrema.tla: the running-extrema update (two-column, one-column abs-extreme, frequency-domain +/-max) as an "
              "AddCase state machine; TLC checks for EVERY assignment of per-case maxima/minima over small alphabets incl. NaN and ties "
              "and EVERY order of adding 3 cases (1-2 rows; thorough also 4 cases) that the table holds the true extremes, labels and "
              "abscissae name an attaining case, and per-case columns are in case order; every state is exported. Each complete order is "
              "replayed into cla.extrema, DR_Results.time_data_recovery / frf_data_recovery (crafted response matrices, stored "
              "histories, SRS envelope = max over cases) and merge + form_extreme over events (NaN = row absent in an event), with the "
              "abstract state compared after every action. specs/ApplyUF.tla: call histories of uf tuples sharing one cache, documented "
              "scaling exported as terms; apply_uf / DR_Event.apply_uf replayed: terms (1e-10), cached = fresh bit-for-bit, d = d_static "
              "+ d_dynamic, unit factors, input untouched. Cases WITHOUT abscissae (constant XLess: add_maxmin without x-values, PSD events) are mixed with "
              "cases that have them (invariant AbscissaKnownIffHolderHasOne). specs/ResultsTree.tla: a DR_Results hierarchy (2-3 levels) as a "
              "tree that is edited and re-enveloped - actions form_extreme(doappend 0-3, case_order) / delete_extreme / split+merge of a base "
              "results object / del of an event; TLC checks on every tree reachable by the structural actions x 256 data assignments that the "
              "code-shaped fold is the declarative envelope (first attaining base case in traversal order), order independence, the label law of "
              "each doappend mode, idempotence / delete / clean-slate laws and merge(split(R)) = R; every history of 2 (thorough 3) actions is "
              "replayed on real hierarchies built with merge(), the whole tree (keys, presence of 'extreme', ext, ext_x, labels, cases, mx/mn "
              "columns, names, base results untouched) compared after every action, stale entries included. ApplyUF MergeLaws: the merge of an "
              "old uf tuple with a new one per method (replace / multiply / callable; None keeps, 0 is a value) over None / 0 / values in "
              "hundredths is exported and bound to DR_Event.add on events that already hold definitions."),
        ref="4/C16",
        note=("Trusted: TLC, the generic term evaluator (numpy). Ties: any attaining case/abscissa accepted. One-column semantics as in "
              "the repo's own test (col 1 largest |v| keeping sign, col 2 smallest). psd_data_recovery only through the shared "
              "extrema/_store_maxmin path. Three genuine defects found by this check were repaired (known_findings.json: d921fe8 one-column extrema, "
              "387710a x-values copied wholesale, 19bd364 split() without case labels)."),
        technique="TLA+ state machine over case histories (TLC exhaustive) + replay into cla.extrema/DR_Results; term export for uncertainty factors",
    ),
    "C09": dict(
        cat="model_checking",
        text=("specs/ParPool.tla models mp.Pool.imap_unordered (chunksize 1) as Dispatch/Complete/Collect over LF tasks and W workers, "
              "with the fdepsd read-modify-write row update; TLC checks for every interleaving AtMostOnce, ExactlyOnce, OwnRowOnly, "
              "Confluence (the parent's result equals the serial result), InFlight and termination under weak fairness (quick: LF=4 "
              "W=2,3 and LF=3 W=1; thorough adds LF=5 W=3 and LF=6 W=4), and exports every feasible completion order. Each order is "
              "FORCED on the real pool through hook H1 (a turnstile at the workers' shared-array writes) and srs (6 stype x 4 ic x 3 "
              "time x getresp, all peak methods) and fdepsd outputs are compared bit-for-bit with parallel='no'. The (pid, task, "
              "ticket) events recorded at the linearisation point are validated as behaviours of the model (forced and natural runs). The model "
              "also marshals the inputs (action Share: shared copies are binary64 whatever the caller passed; SerialRep: the serial loop works on "
              "the same representation): frequency vectors given as float32 and int64 are run serially and in parallel (genuine defect repaired, "
              "fix: 77f40a0). Decide / DecideLaws: the decision table of parallel = auto / yes / no x frequencies x signal size around the 50000 "
              "threshold x getresp x processors x maxcpu is exported and replayed (simulated processor count, requested pool size observed, worker "
              "events through H1, result = serial). Signals given as float32 / int64 / int16 are run serially and in parallel (the shared copy "
              "is a conversion, not a block copy)."),
        ref="4/C09",
        note=("Trusted: TLC; fork start method; visibility of RawArray writes after Pool exit; hook H1 (commit in MANIFEST.hooks) placed "
              "around the writes. A turnstile time-out is exit 2 (machinery), never a violation. Differences that need an exact tie "
              "between a cycle amplitude and a bin edge are not reachable through filtered random signals."),
        technique="TLA+ pool model (TLC, all interleavings + liveness) + schedule forcing through a hook + trace membership validation",
    ),
    "C18": dict(
        cat="model_checking",
        text=("specs/Uset.tla: every assignment of the 8 base sets to K=3 DOF slots (512); TLC checks OneBase, the disjoint-union "
              "lattice identities and PVLaws and exports the expected partition vector or refusal for all 22x22 (major, minor) set "
              "expressions; replayed exhaustively into make_uset / addgrid (6-letter strings, also with every DOF's letter different from its "
              "neighbours' and as a list of per-grid strings) / mksetpv (names and bit masks), "
              "exception <=> refusal; mkusetmask's bit table is bound by membership of every base set in every named set. "
              "specs/Locate.tla: defining equations of mkdofpv/expanddof (2-D id/component requests, 1-D ids, strict/non-strict, "
              "DataFrame and ndarray tables) and find_duplicates, flippv, index2bool, index2slice, find_subseq, find_vals, "
              "mat_intersect (vectors and matrices, keep 0/1/2), list_intersect, merge_lists for EVERY query over sequences up to "
              "length 3 over 0..2 (thorough: 4 over 0..2, 54k queries); 8.9k queries replayed, admissible sets where the code may choose."),
        ref="4/C18",
        note=("Trusted: TLC and the two specs' definitions (independent set-theoretic definitions, not the code's searchsorted/bit tricks). "
              "User sets u1..u6 and float tolerances of find_duplicates/find_unique are not covered. A genuine defect found here was "
              "repaired (find_subseq with a longer subsequence, fix: f44d712)."),
        technique="TLA+ case enumeration with declarative definitions (TLC) + exhaustive replay of every exported case",
    ),
    "C04": dict(
        cat="model_checking",
        text=("specs/Op4.tla: OUTPUT4 as a grammar with a nondeterministic encoder (every partition of a column into strings, zeros "
              "inside strings, null columns skipped; dense/bigmat/nonbigmat; words-per-value, complex, ASCII vs binary word counting, "
              "high row offsets) and the reader's arithmetic; TLC checks DecodeIsIdentity, LayoutRecognised, SkipExact and FieldRanges "
              "for every encoding of every small matrix. code -> spec: pyYeti's writer is run for every non-zero pattern of 3x2 and "
              "5x1 matrices x real/complex x stress values over the whole double range x binary/ASCII x endian x "
              "dense/bigmat/nonbigmat/auto x digits x ndarray/scipy-sparse x forms x 1-3 matrices per file (duplicate names); the "
              "bytes are tokenised by a neutral tokenizer (a word of the grammar?), the abstract records must be a member of the "
              "TLC-exported set of legal encodings of THAT matrix, values exact; then read back dense/sparse/auto. Special shapes: "
              "rows over the fromfile cut-over, >= 65536 rows, the nonbigmat string limit, auto form."),
        ref="4/C04-C11",
        note=("Trusted: TLC, the neutral tokenizer (struct + string formatting; validated on the 61 shipped sample files). ASCII "
              "identity = the printed digits. One genuine defect repaired (3-digit exponents, fix: 4e8fd46), one recorded as known "
              "finding (binary nonbigmat string >= 16384 values)."),
        technique="TLA+ format grammar with nondeterministic encoder (TLC) + trace validation of the writer's tokenised output + read-back replay",
    ),
    "C11": dict(
        cat="model_checking",
        text=("spec -> code: every encoding exported by TLC from specs/Op4.tla (9 model configurations: binary/ASCII x words per value "
              "x real/complex x row offsets up to 65000) is rendered by a neutral renderer that shares no code with pyYeti in every "
              "compatible physical variant (byte order x 32/64-bit keys x single/double; ASCII E/D x 5 announced widths x 1P prefix "
              "x |I16 header) with stress values, three matrices per file incl. duplicate names, and read with load (dense, sparse, "
              "auto), read, dir and named subsets (skipper must land on the next header). code <- files: all shipped OUTPUT4 sample "
              "files are tokenised as words of the grammar and the neutral decode is compared with pyYeti's reads and listings. "
              "OUTPUT2: see level note (incl. skip-then-read: skipping a record of 1-3 physical parts leaves the next read on the next record)."),
        ref="4/C04-C11",
        note=("Trusted: TLC; harness/phys_op4.py. OUTPUT2 matrix/table framing is covered by the OP2 part of the driver "
              "(harness/drive_C11_op2.py); table CONTENT decoding (GEOM1, BGPDT, ...) is not in scope."),
        technique="TLA+ format grammar (TLC) + replay of every exported encoding through a neutral renderer into the readers; trace validation of shipped files",
    ),
    "C12": dict(
        cat="model_checking",
        text=("specs/NasField.tla: (1) MaxSig(width, sign, exponent) - the number of significant digits the field width allows, for "
              "the single-precision style (fixed and d.ddd+ee forms) and the double-precision D style - exported as a table over "
              "exponents -310..310 with its laws checked; (2) the Nastran real-field grammar as a DFA: every string produced by "
              "format_float8 / format_float16 / format_double16 on the value lattice (both signs x decades x 37 mantissa classes incl. "
              "k nines that round up across a decade at either rounding stage) is trace-validated by TLC for exact width and grammar; "
              "nas_sscanf must return the real the string denotes, and the error against the binary64 argument is checked in exact "
              "rational arithmetic against half a unit (x1.01) of digit MaxSig. (3) card layout laws + enumerated kind-mixes (all up to "
              "5 fields, boundary lengths 7..60 x 5 patterns): wtcard8/16/16d -> rdcards field for field, line count and continuation "
              "marks, neighbouring cards neither swallowed nor skipped, fixed form = comma form. Growth (specs/BulkInclude.tla): the "
              "INCLUDE-following reader as an explicit stack machine over 3 files (INCLUDE by file name -> relative to the current file, "
              "with directories -> relative to the root, by symbol; quoted path split over two lines; cards with continuation lines and "
              "foreign cards around the INCLUDE): TLC checks DeliversExpansion, PrefixSoFar, DepthBound, Terminates on every tree (1330 "
              "quick / 12103 thorough); every tree is written to disk and read back by rdcards. Growth (spec deviations only): every exported card also in a tab-padded rendering of its fixed-field lines."),
        ref="4/C12",
        note=("Trusted: TLC, fractions.Fraction arithmetic. 'What the width allows' = normalised fixed / exponent forms (moving the "
              "decimal point to save an exponent digit is not demanded). A genuine defect was repaired (values rounding up into a new "
              "integer digit lost the decimal point / overflowed the field, fix: cec0786)."),
        technique="TLA+ grammar DFA + MaxSig table (TLC trace validation of every formatted field) + exhaustive card replay",
    ),
    "C13": dict(
        cat="model_checking",
        text=("specs/BulkLists.tla enumerates id lists by run structure (every gap pattern up to 10 ids, thorough 13, x 3 start "
              "magnitudes), table lengths and DMIG matrices up to 3x3 over value ids x column-index kind (forms 1/2/6/9), checks "
              "Expand(ThruItems(ids)) = ids and Rebuild(Entries(M, form)) = M, and exports every case. Each is written by the real "
              "writer and read by the matching reader: SPOINT with THRU, CSUPER, EXTRN (id/DOF pairs, expanded and not), case-control "
              "SET at three wrap widths, TABLED1 in both field widths for 1..N points (data-line count from the spec), DMIG for four "
              "dtypes (types 1-4; entry coordinates on the cards must equal the spec's Entries, e.g. lower triangle only for form 6), "
              "GRID and CORD2x sweeps. Mode `perms`: every ARRANGEMENT of up to 5 (thorough 6) distinct ids out of 6 (7) at two offsets "
              "(PermLaws: THRU items are maximal stretches of adjacent +1 steps, expansion gives the ids in the given order) through SPOINT "
              "(list and ndarray), SET (two widths) and CSUPER. Mode `ints`: the cell of every integer of a wrapped list (wtnasints, start field "
              "2..9 x 0..27 integers; IntLaws: no cell skipped or used twice, fields 2..9, line count) - the card's fields must be the given "
              "integers in order (layout itself is reported as a spec deviation). Mode `layouts` (spec deviations only): field layouts of "
              "RBE2 / MPC / TABDMP1 / CONM2 / TLOAD1 / TLOAD2 / RBE3 (UM, ALPHA) written by their writers and read by the generic card reader. USET tables of 2-6 grids whose input / output systems are drawn from basic "
              "and a CORD2R <- CORD2C <- CORD2S chain in any arrangement go through uset2bulk / bulk2uset (same grids, locations, transforms) "
              "and mkcordcardinfo / wtcoordcards / rdcord2cards (every system read back = the one in the table). The written text is also parsed by a neutral fixed-column cell splitter so that a compensating "
              "writer+reader pair of bugs is still seen."),
        ref="4/C13",
        note=("Trusted: TLC, the neutral cell splitter. Values to the precision of the written format. USET tables are in grid-id order (what a "
              "USET table is; bulk2uset sorts). A genuine defect was repaired (wttabled1 with fewer "
              "points than one line, fix: 3f60caa)."),
        technique="TLA+ enumeration of list/table/matrix shapes with declarative content laws (TLC) + write->read replay and neutral text parse",
    ),
    "C10": dict(
        cat="model_checking",
        text=("specs/CycleCount.tla transcribes both shipped findap algorithms (vectorised; loop = the numba-decorated body) and the "
              "declarative requirement Req (first sample selected, strict alternation of the selected values, global extremes within "
              "tolerance); TLC evaluates them for EVERY integer signal of length <= 6 over 0..3 (thorough: 7) at three tolerance "
              "levels (12.5k cases), proves DefaultTolOK (at the default-like tolerance both variants agree and meet Req) and exports "
              "per input the selections and verdicts. The real findap and the loop body extracted with ast from the working tree are "
              "run on exact dyadic images; the verdict is always TLC's Req/agreement judgement (real selections that differ from the "
              "transcription are re-judged by TLC in trace mode). binify: half-open interval membership and conservation for every "
              "cycle pair x 15 bin specifications x right/left (TLC invariant Conservation) replayed exactly, plus auto-bin "
              "conservation sweeps. fdepsd: option lattice; integer facts of every count row trace-validated by TLC "
              "(CycleCountTrace.tla), real-valued clauses (Amax <= SRS, G2 >= G1, damage sums, variance relation, amplitude^2 "
              "scaling) as comparisons on the run's own outputs. Growth (spec deviations only): the bins binify reports for automatically generated bins cover the data, are strictly "
              "increasing and give the same table when used explicitly."),
        ref="4/C10",
        note=("Trusted: TLC. numba absent: the accelerated findap is its undecorated definition. Known findings (known_findings.json): with "
              "tolerances coarse enough to merge unequal neighbours both findap variants violate Req on drift families and disagree; "
              "one genuine defect repaired (unassigned variable in the loop variant, fix: 51d2056). The variance clause is checked "
              "for resp='absacce' (the pvelo indicator is rescaled for output)."),
        technique="TLA+ transcription + declarative requirement checked exhaustively by TLC; replay + TLC trace judgement of real selections",
    ),
    "C01": dict(
        cat="exploration",
        text=("specs/OdeModel.tla: problems = sequences of equation kinds (rigid-body undamped / damped above and far below the "
              "documented cut-off, under-, critically, over-damped, within 1e-6 of critical on both sides of the regime switch, "
              "optional residual-flexibility) x hold order x initial-condition rule; representations = SolveUnc / SolveExp2 / "
              "SolveExp1 x mass None/vector/matrix x diagonal or congruence-coupled matrices x pre_eig x rigid-body set given/auto "
              "x contiguous/interleaved order, with the documented legality rules. TLC checks that every problem has >= 2 legal "
              "representations (non-vacuous equivalence classes) and exports problems, representations and the exact one-step "
              "solution of each kind as TERMS written from the characteristic roots. All 18.6k (problem, representation) pairs "
              "(thorough: 3 equations) are run: d, v, a histories vs the terms evaluated at 50 digits, and the equation-of-motion "
              "residual at every sample. The statement is tested on every enumerated case, not proved. Grown since: the 7 initial-condition "
              "rules (zero, d0, v0, d0+v0, static, static+d0, static+v0) are exported by the spec (IcRule) and crossed with every problem; "
              "layouts with the rf equation first and with rb/el/rf interleaved; extra kinds 'rbv' (damped rigid-body mode between the two "
              "documented cut-offs, 200 steps) and 'soft' (a soft heavy equation at a large step, rb set given or not) with their "
              "legality rules in the spec; coupling 'kcoupled' (a diagonal NON-UNIFORM mass handed over as a vector next to full damping and "
              "stiffness, T = Q sqrt(D)), which is the mass form under which the modal pre-transformation weights initial conditions by a vector; coupling 'ncoupled' "
              "(the coupled system with the equations of its elastic block combined by a conditioned L: m, b, k full and not symmetric, same "
              "solution - a transposed mass solve is then visible). Random congruences are conditioned (cond(T) <= 30)."),
        ref="4/C01",
        note=("Trusted: TLC, the generic term evaluator (mpmath, 50 digits). Tolerance 1e-9 of the history scale; 5e-8 within 1e-6 of "
              "critical damping; 2e-3 for rigid-body damping below the documented cut-off. SolveUnc's coupled path is not asked to "
              "handle (nearly) defective systems. Two genuine defects repaired (rb indices with rf in front, fix: bbfb298; pre_eig "
              "initial conditions, fix: 930e72c)."),
        technique="TLA+ configuration lattice + exact step terms exported by TLC, evaluated by a generic 50-digit evaluator against every representation",
    ),
    "C02": dict(
        cat="exploration",
        text=("specs/OdeFreq.tla: every legal configuration - block layout (0-1 rigid-body, 1-2 elastic, 0-1 residual-flexibility "
              "equations) x the 8 incrb subsets plus the deprecated integers x rf_disp_only x {SolveUnc.fsolve, FreqDirect.fsolve} x "
              "diagonal / congruence-coupled x mass None/vector/matrix x pre_eig x complex stiffness (2508 configurations) - with "
              "the EXACT-ZERO pattern (which (block, quantity, 0 Hz) entries must be exactly 0) and the response as terms "
              "(F/(k - W^2 m + iWb), v = iWd, a = -W^2 d; rb a = F/m, v = a/(iW), d = -a/W^2; rf static). Each configuration is "
              "instantiated with seeded systems and complex force spectra at {0 Hz where in the solver's domain, below, at, above "
              "resonance}: zero pattern exact, values vs the evaluated terms (1e-9), so both solvers and every representation are "
              "tied to one definition. solvepsd = sum_i PSD_i |H_i|^2 from the terms, rms = sqrt(trapezoid). Grown since (Stress tuples of "
              "the spec): solver objects built with a time step (hgiven), real and complex roots mixed, frequency vectors in any order "
              "(0 Hz not first), rb/el/rf interleaved and non-contiguous rb index arrays, non-symmetric (gyroscopic) damping compared with "
              "full-matrix terms MatD/MatV/MatA, solvepsd with a force that excites nothing modally but feeds through drmf and on four "
              "frequency-grid families (random, uniform, logarithmic, coarse with a refined band); one solver object called twice with the SAME "
              "frequency / force arrays whose contents were changed in place. Thorough: sixteen independent instantiations per configuration. Stress `lmul`: the equations of the elastic block of a coupled system combined by a conditioned L (M, B, K full and not "
              "symmetric, same response) for both solvers."),
        ref="4/C02",
        note=("Trusted: TLC, generic term evaluator (numpy complex). Rigid-body equations undamped (modal-space rb); resonance is "
              "sampled on damped modes only. One genuine defect repaired (complex uncoupled system with rb and given mass, fix: "
              "f2129c0)."),
        technique="TLA+ option lattice with exact-zero pattern + response terms (TLC) replayed against both solvers",
    ),
    "C17": dict(
        cat="exploration",
        text=("specs/Newmark.tla: the run as a state machine Start / Step x (nt-2) / Finish (TLC checks the schedule for nt in "
              "{2,3,4,7}) and the documented recurrence as rule terms (u_-1, F_-1, replaced F_0, the three-force average with A, "
              "A1, A0, extrapolated last force, central differences, static rf). The driver applies the rules with the generic "
              "evaluator and compares SolveNewmark's d, v, a and z[...] over a lattice {diagonal, full} x mass {None, vector, "
              "matrix, singular} x rf x start {zero, d0+v0, d0 only, v0 only} x 0-3 nonlinear terms (cubic, gap, velocity-dependent backward "
              "difference reading column j-1, i.e. the u_-1 column at the first call) x nt; every other full system is not symmetric. CDF: every step of SolveCDF / cd_as_force must satisfy the "
              "defining implicit relation (exact diagonal step driven by f - C_od v at both ends), with the exact diagonal step "
              "from the terms of specs/OdeModel.tla at 40 digits - for histories produced by tsolve and by the generator with steps "
              "taken again after stepping ahead (different force the first time). Laws: diagonal damping => SolveCDF bit-identical to SolveUnc; "
              "error ladder h..h/32 against the exact solver (first order for Newmark, second order with a consistent start); "
              "boundedness for w*h up to 5e3 incl. a massless DOF."),
        ref="4/C17",
        note=("Trusted: TLC, generic term evaluator. Convergence and stability are observed on finite ladders, not proved. Nonlinear "
              "terms together with rf are outside the documented domain."),
        technique="TLA+ run schedule + recurrence rule terms (TLC) applied by a generic evaluator; defining-relation residual for CDF",
    ),
    "C07": dict(
        cat="exploration",
        text=("specs/ExpmInt.tla: the power-series DEFINITIONS of exp(Ah), int exp(At) dt, int t exp(At) dt and of P, Q / one hold step as "
              "terms; the expmint algorithm as a state machine (Pade order from the eta/ell classes, scaling count, squaring phase with "
              "the integral propagated on equal spans - TLC: SpanLaw, DoneOK, I2PadeUnless13, termination, 41k states); the case lattice 8 "
              "structures (generic, singular, nilpotent 2/3, Jordan, upper triangular, stiff, oscillator state matrix) x 12 norm classes "
              "1e-6..1e3 incl. both sides of the getEPQ switch x order x B x half (768 cases) with the predicted route. The definitions are "
              "evaluated by the generic evaluator at 40+0.9||Ah|| digits; expmint, expmint_pow, getEPQ, getEPQ1, getEPQ2, getEPQ_pow are "
              "compared with them (E, I1, I2, P, Q, one zoh/foh step), the Pade branch / I2 formula / route taken by the real code is "
              "recorded and validated by TLC against specs/ExpmIntTrace.tla (every Pade order must be reached). specs/SSModel.tla: every "
              "conversion history (c2d/d2c x zoh/zoha/foh/tustin x prewarp none/0/w, incl. calls on a model already in the target domain) "
              "of length 2 (thorough 3) with its reduction (inverse pairs cancel in either direction): final model = reduced history "
              "replayed; each method's discrete matrices vs terms; exactly sampled response under the method's hold; tustin transfer "
              "function = bilinear transform at 5-6 points of the unit circle incl. the prewarp frequency. specs/SSObjects.tla: models as "
              "objects on a heap - any earlier object may be converted again; TLC checks Immutable / DerivationExtendsSource / "
              "CallsConsistent on every history of 3 (thorough 4) calls, and each history is replayed on real SSModel objects (row- and "
              "column-major inputs): every object is re-read after every call and compared with a fresh replay of its derivation. The expmint "
              "lattice carries the structure `diagonal` (exactly uncoupled A, singular class) and splits the scale of A h between A and h "
              "(A x 2^-10, 2^10, 2^-30 with h compensating): classification by absolute size of A's entries is then observable. Growth (spec "
              "deviations only): the Query action of SSObjects - getlti() interleaved with the conversions of every history."),
        ref="4/C07",
        note=("Trusted: TLC, mpmath, the generic term evaluator. Tolerance = 10 x (measured change of the exact result under a 64-ulp "
              "dense relative perturbation of A + 40 ulp): loss of 1-2 digits beyond that is not detected; comparisons whose sensitivity "
              "exceeds 1e-9 relative are skipped and counted. One genuine defect repaired (nilpotent A, fix: 93514af); two known findings "
              "(I2 with Pade 13 for singular / ill-conditioned A, direct expmint/getEPQ1 calls only)."),
        technique="TLA+ algorithm machine + series-definition terms (TLC) evaluated at high precision against every variant; TLC trace validation of recorded branch events; conversion histories replayed",
    ),
    "C20": dict(
        cat="exploration",
        text=("specs/Stats.tla: Conf(p, n, r) = P(Bin(n, 1-p) >= r) in exact integer arithmetic on three grids (p, c in tenths with n <= 8, "
              "quarters n <= 14, halves n <= 24). TLC decides on every grid point: Conf monotone in r, n and p, total mass, and the mutual "
              "consistency of the extreme-integer definitions (rank answer meets c and rank+1 does not; size answer meets c and size-1 does "
              "not; size fed back into the rank question returns >= r), and exports the admissible answers (tie intervals where Conf = c "
              "exactly). order_stats r / n / c / p is replayed on EVERY grid point (scalar and broadcast). Beyond the grids the same "
              "definition is a term evaluated in exact rationals for random (p, c, n <= 300 quick / 3000 thorough, r <= 25). k-factors: "
              "the defining probability statements as terms with quadrature / root constructors - one-sided: integral of Phi(sqrt(n) k "
              "sqrt(v/nu) - sqrt(n) z_p) against the chi-square density = c; two-sided: the documented Wald-Wolfowitz equations - "
              "residual <= 1e-8 on the law grid; monotone in p and c on all ordered pairs; limit z_p as n -> 1e6, 1e8, from above for c >= 1/2; "
              "scalar = broadcast."),
        ref="4/C20",
        note=("Trusted: TLC, mpmath (erf, gamma, incomplete gamma, tanh-sinh quadrature, bracketed root finding), fractions. The k-factor "
              "clauses are tested against their definitions, not proved. One genuine defect repaired (order_stats('n') when r samples "
              "already suffice, fix: e1cdda6)."),
        technique="TLA+ exact binomial model decided by TLC on grids + exported answer tables replayed; definition terms (exact rationals / quadrature) beyond the grids",
    ),
    "C19": dict(
        cat="exploration",
        text=("specs/PsdDsp.tla (one TLC configuration per part). rescale: linear band layouts on an integer tick grid - kept bands, per-band "
              "mean square = sum_j P_j |band /\\ inband_j|, densities, the extendends rule; TLC checks Conservation (output tiling the "
              "input keeps the total), NoCreation and contiguity on 576 layouts and exports the expected values; every layout replayed "
              "(vector and matrix input, exact to 1e-13), plus seeded logarithmic layouts with geometric-mean edges as terms and the "
              "default octave scales. resample: index model for n <= 12, p, q <= 6 (reduced ratio, ceil(n p/q), FIR length, which "
              "outputs are original samples; LengthLaw by TLC); shape along every axis position, constants bit-exact, originals kept, "
              "and EVERY output sample against the Kaiser-windowed-sinc FIR definition (term, 30 digits); tone accuracy vs pts. "
              "fixtime: tick grid dt = 8: every step pattern over {8,7,9,10,16,0,4,20} up to 5 (thorough 6) samples with expected "
              "length, turning points, alignment shift (fraction of a tick), nearest-time map (ties to the earlier time) and "
              "previous-value maps for tolerances 0, 0.001, 0.25; UniformUnchanged by TLC; replayed into fixtime and into both helper "
              "variants (vectorised + numba bodies extracted from the tree); unsorted / drop-out / base / packaging laws. area / "
              "interp: 13 slopes (both sides of the s = -1 switch, exactly -3 dB/octave) x 4 ratios against the quadrature of the "
              "log-log interpolant, additivity, reproduction at own frequencies, end-point round-off, trapezoid cross-check. Growth (spec deviations only): fixtime's outlier-time heuristic as an exact integer 3-sigma rule (part outtimes, 96 records)."),
        ref="4/C19",
        note=("Trusted: TLC, mpmath, generic evaluator. Inside psd.area's |s+1| < 1e-5 switch the s = -1 formula is accepted to "
              "1e-5 ln(f2/f1). fixtime's despiking / outlier-time heuristics are off or cannot trigger. resample's `tnew` positions "
              "are outside the statement (observation in DESIGN 9.2). Two genuine defects repaired (fixtime previous-value boundary, "
              "fix: dc0d341; psd.interp end-point round-off, fix: 161f28c)."),
        technique="TLA+ integer band/index/tick models decided by TLC and replayed exhaustively; definition terms (quadrature, FIR) evaluated by the generic evaluator",
    ),
    "C14": dict(
        cat="exploration",
        text=("specs/CoordSys.tla: every chain topology of 3 coordinate systems (type R/C/S x reference = basic or an earlier system: "
              "162 topologies, WellFounded checked by TLC) with T(k), O(k) exported as terms over the A, B, C point symbols through the "
              "reference chain, and the type-generic definitions Rect, Basic, Frame (a grid's displacement frame from geometry alone: "
              "radial / tangential unit vectors, no angles) and the rigid-body rows [G', -G' skew(r); 0, G']. Every topology is "
              "instantiated with seeded points and built in pyYeti by build_coords, by nested 4x3 cards found by id in the growing "
              "USET table, and queried: coordinfo = (O, T); basic location of grids entered in every system; getcoordinates in EVERY "
              "system maps back (through the spec's Basic) to the same point and returns the entered numbers in the definition "
              "system; rbgeom_uset rows (reference = xyz and = grid id) vs the spec rows; blockdiag(G) rb = rbgeom; rbmove; rbcoords; "
              "formrbe3 (three independent-DOF selections with weights; determinate or over-determinate) reproduces rigid motion; "
              "replace_basic_cs preserves distances, relative orientations and rigid-body modes about the moved point; scalar "
              "points and q-set grids stay zero. Growth (spec deviations only): the UM option of formrbe3 (UmLaws: every m-set of two DOF blocks, same constraint as the plain "
              "element) and the row scanner of find_xyz_triples (ScanLaws: 120 layout words of translation / rotation / foreign rows)."),
        ref="4/C14",
        note=("Trusted: TLC, mpmath (30 digits), generic evaluator. Locations away from the polar singularities (as the statement says). "
              "Quick: 5 (input, output) system pairs per topology; thorough: all 16 pairs twice. One genuine defect repaired "
              "(replace_basic_cs under pandas 3, fix: 652b3a2)."),
        technique="TLA+ topology lattice with geometry definition terms (TLC) evaluated at 30 digits against every construction route; rigid-motion laws",
    ),
    "C15": dict(
        cat="exploration",
        text=("specs/NTFL.tla: the configuration lattice - interface size 1-3 x how Source and Load are handed over (free-free matrices "
              "with a selection or a general full-row-rank recovery matrix, or Craig-Bampton form with a partition vector at permuted "
              "positions) x damping kind (proportional, full, none on the Load, non-symmetric so that response / input indices are "
              "distinguishable) x force position: 120 legal configurations; TLC checks that every class of equivalent hand-overs is "
              "non-trivial and contains BOTH computation routes (unit boundary forces through SolveUnc/FreqDirect, cbtf). Definitions "
              "as terms: dynamic stiffness, boundary accelerance, apparent mass = its inverse, free acceleration, the NT equations, "
              "the CB congruence, and the DIRECT solution of the physically coupled system with a Lagrange multiplier for Ts xs = Tl xl "
              "(shares nothing with ntfl / calcAM). Every configuration x 6 (thorough 40) seeded network pairs x 6 frequencies: calcAM "
              "vs the term; ntfl A, F vs the direct solution (1e-6); TAM = SAM + LAM bit-exact; R; precomputed-array inputs; "
              "FreqDirect route; apparent mass at vanishing frequency = physical rigid-body mass."),
        ref="4/C15",
        note=("Trusted: TLC, generic evaluator (numpy complex). Scalar-DOF spring-mass networks with one rigid-body mode; interface "
              "sizes 1-3 (6-DOF interfaces are exercised by C06's cbtf clause). The rigid-mass law is checked for a statically determinate "
              "physical interface only."),
        technique="TLA+ configuration lattice with route coverage (TLC) + definition terms incl. an independent Lagrange-multiplier coupled solution, replayed on every configuration",
    ),
    "C06": dict(
        cat="exploration",
        text=("specs/CraigBampton.tla: descriptors of free 3-D structures (4-5, thorough 6, six-DOF joints at integer coordinates with "
              "lumped masses and inertias; every ordered boundary of 1-3 grids; all / some modes; boundary output system R/C/S) with "
              "the exact 6x6 rigid-body mass matrix about the reference grid, its boundary and interior parts computed by TLC in "
              "integers (MassSplits, TotalMassInvariant, ParallelAxis on every descriptor), and the state machine Reorder / Convert / "
              "Ground / BreakGeometry (BoundaryIsPermutation, UnitsBounded, DefectSticky on every history). The driver builds each "
              "structure with springs K_e = L' k L (rigid motion exactly in the null space), does its own CB reduction, applies the "
              "grids' displacement frames (terms of specs/CoordSys.tla), shuffles the matrix layout, and runs cbcheck: rbs = rbg = "
              "rbe; rb' m rb = the spec's integer matrix for all three; cgmass recovers mass / cg / inertia; K rb = 0; sum of "
              "effective mass + boundary part = total (all modes) or <= interior part (some); fixed-base frequencies. Every history "
              "is replayed through cbreorder / cbconvert / uset_convert with the last step through cbcheck's own bseto / conv "
              "arguments: order, scaled mass properties, free-free frequencies, DRM responses, inverses; grounded / broken-geometry "
              "models must show it in the grounding force / rigid-body mode mismatch. cbtf: residual of the full equations with "
              "boundary-coupled damping, real and complex stiffness, 0 Hz included. cgmass on random rigid 6x6 masses."),
        ref="4/C06",
        note=("Trusted: TLC, the driver's own CB reduction (scipy.linalg.eigh / solve), generic evaluator. Report text is not compared. "
              "One genuine defect repaired (USET reorder for non-involutive boundary permutations, fix: b05a341)."),
        technique="TLA+ descriptor model with exact integer mass properties + reorder/convert/defect state machine (TLC) replayed through cbcheck, cbconvert, cbreorder; cbtf equation residual",
    ),
    "C03": dict(
        cat="exploration",
        text=("specs/Srs.tla: the option lattice 6 stype x 4 ic x 3 time x 6 peak x eqsine (864 points), the integer index model "
              "(appended cycle ceil(sr/fmin), window start, history shape) with its laws checked by TLC on 24 index cases, and per "
              "stype the response quantity and steady-state offset as terms over (z, z', a). The history oracle is the exact "
              "oscillator step of specs/OdeModel.tla (m=1, b=w/Q, k=w^2, f=-a; 0 Hz = rigid-body step), started from rest one "
              "sample before the record - it shares nothing with the ramp-invariant filter coefficients the code uses. For every "
              "option point x index case (quick: 1/8 sample): resp['hist'] vs oracle (1e-9), shapes, resp['t'], spectrum = the "
              "stated statistic of the returned history over the stated window (exact), getresp on/off, packaging 1-D/Nx1/NxH. "
              "Laws: abs = max(pos,neg), total = max(primary,residual), pvelo = w reldisp, pacce = w^2 reldisp, eqsine = srs/Q, "
              "linearity, column permutation, packaging, resampling sr contract; vrs / Miles / srs_frf closed forms. Rolloff index model "
              "(UpWindow, UpLaws checked by TLC on 600 cases): factor ceil(ppc fmax / sr), resampled length per method (lanczos kM, fft "
              "k(M - M mod 2), linear kM - 1), appended cycle and window start of the RESAMPLED record at the new rate - replayed for every "
              "option point (quick 1/48): resp['sr'], shapes, resp['t'], spectrum = statistic of the returned history, and for ic='zero' "
              "the history equals the exact response to the record resampled by the public linroll / lanroll / fftroll. Frequency vectors are "
              "given ascending and reversed (the appended cycle is one period of the LOWEST positive frequency wherever it stands)."),
        ref="4/C03",
        note=("Trusted: TLC, generic evaluator. rolloff='none' for exactness (resampling accuracy is C19). ic='steady' at exactly 0 Hz "
              "is not compared for reldisp/pvelo/pacce (singular static offset). vrs to 1% (end-band quadrature detail)."),
        technique="TLA+ option lattice + index model (TLC) with the exact oscillator terms as history oracle; algebraic laws",
    ),
}

NOT_YET = {}


def build():
    props = [json.loads(l) for l in open(os.path.join(VERIF, "properties.jsonl"))]
    checks = []
    na = []
    for p in props:
        pid = p["id"]
        have = os.path.exists(os.path.join(VERIF, "harness", "drive_%s.py" % pid)) and pid in CHECKS
        if have:
            c = CHECKS[pid]
            checks.append({
                "property_id": pid,
                "quick_cmd": "./check %s --tier quick" % pid,
                "thorough_cmd": "./check %s --tier thorough" % pid,
                "evidence_file": "evidence/%s.json" % pid,
                "replay_cmd_template": "./check %s --replay {path}" % pid,
                "engine": "tlc+replay",
                "level_claimed": {"category": c["cat"], "text": c["text"], "design_ref": c["ref"]},
                "level_note": c["note"],
                "technique": c["technique"],
            })
        else:
            na.append({"property_id": pid, "reason": NOT_YET.get(pid, "check not built yet in this round (planned: DESIGN.md section 4/%s)" % pid)})
    hooks_commits = []
    hc = os.path.join(VERIF, "hook_commits.txt")
    if os.path.exists(hc):
        hooks_commits = [l.split()[0] for l in open(hc) if l.strip()]
    man = {
        "version": 1,
        "setup_cmd": "./setup.sh",
        "hooks": {
            "guard": "PYYETI_VERIF",
            "enable": "environment variable PYYETI_VERIF=1 at interpreter start (pure Python, no rebuild); ./check sets it",
            "baseline_off_cmd": BASE_OFF,
            "source_commits": hooks_commits,
            "add_only": True,
        },
        "engines": [
            {"name": "tlc+replay", "path": "check", "serves_properties": [c["property_id"] for c in checks],
             "kind_free_text": "explicit TLA+ specs in specs/ checked by TLC; behaviours/cases/terms exported by TLC are replayed "
                               "into the real code and traces recorded from the real code are validated against trace specs"},
        ],
        "checks": checks,
        "notes": ("All checks import pyYeti from $VERIF_REPO (default /repo) working tree; c_rain.c is compiled from the working tree per run. "
                  "Every check ends with the purity part (specs/Purity.tla, harness/purity.py): a recorded trace of representative public "
                  "calls of the property's functions - the call, the repeated call, the call after unrelated calls and the same call in a "
                  "forked fresh process - is validated by TLC against a memo-table machine (arguments untouched, same arguments -> same "
                  "answer); the key is the LOGICAL value of the arguments, so the same call with column-major copies, non-contiguous views or "
                  "non-native byte order must give the same answer too; a rejected line is a VIOLATION of the property the call belongs to. "
                  "VERIF_NO_PURITY=1 skips it. "
                  "Departures from a growth specification on behaviour the property does not speak about (pool heuristics, INCLUDE look-up, "
                  "card layout, resampled lengths, naming) are printed as SPEC-DEVIATION lines and recorded in the evidence; they never "
                  "produce a VIOLATION line or a non-zero exit (DESIGN.md 9.65)."),
        "not_applicable": na,
    }
    with open(os.path.join(VERIF, "MANIFEST.json"), "w") as f:
        json.dump(man, f, indent=1)
    return man


if __name__ == "__main__":
    import sys
    sys.path.insert(0, os.path.join(VERIF, ".pydeps"))
    m = build()
    try:
        import jsonschema
        jsonschema.validate(m, json.load(open("/root/.vp/MANIFEST.schema.json")))
        print("MANIFEST valid: %d checks, %d not_applicable" % (len(m["checks"]), len(m["not_applicable"])))
    except ImportError:
        print("written (jsonschema not available)")
