#!/bin/sh
# MANIFEST.setup_cmd: offline; installs mpmath from the wheelhouse into /verif/.pydeps, parses all specs.
HERE="$(cd "$(dirname "$0")" && pwd)"
cd "$HERE" || exit 2
if [ ! -d .pydeps/mpmath ]; then
  /venv/bin/pip install --no-index --find-links /opt/veriftools/wheels --target .pydeps mpmath jsonschema >/dev/null 2>&1 || { echo "pip failed"; exit 2; }
fi
rc=0
for f in specs/*.tla; do
  m=$(basename "$f" .tla)
  (cd specs && java -cp /opt/veriftools/tla/tla2tools.jar:/opt/veriftools/tla/CommunityModules-deps.jar tla2sany.SANY "$m.tla" >/tmp/sany.$$ 2>&1) 
  if grep -q -E "Semantic errors|Parse Error|Could not|Fatal|Lexical error" /tmp/sany.$$; then echo "SANY failed: $m"; cat /tmp/sany.$$; rc=2; fi
done
rm -f /tmp/sany.$$
mkdir -p evidence
echo "setup done rc=$rc"
exit $rc
