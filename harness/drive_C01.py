"""C01: exact time-domain solution for piecewise-linear / piecewise-constant forcing.

specs/OdeModel.tla: problems = sequences of equation kinds (rb0, rbl, rbd, und, crit, over, optional rf) x hold order x
initial-condition rule; representations = solver x mass form x coupling x pre_eig x rb given/auto x layout with the
documented legality rules; TLC checks that every problem has >= 2 legal representations and exports problems,
representations and the exact one-step solution of every kind as TERMS.  The driver instantiates every problem with
seeded parameters (incl. the regime boundaries), evaluates the terms at 50 digits (generic evaluator, mpmath), and
requires every representation's d, v, a histories to equal them (1e-9 of the history scale; 1e-3 class for damped
rigid-body modes below the documented cut-off) and to satisfy the equation of motion at every sample."""
import json
import multiprocessing as mp_
import os

from . import tlc, terms
from .runner import main, Run, setup_paths

H = 0.01
NT = 10


def step_of(kinds):
    """time step and number of steps of a problem: the dedicated kinds bring their own (see specs/OdeModel.tla ExtraLong)"""
    return (0.5 if "soft" in kinds else 0.01), (200 if "rbv" in kinds else 10)


def params_for(kind, rng, variant, H=0.01):
    """(m, b, k) for one equation of the given kind.  `variant` rotates through boundary values."""
    m = float(rng.choice([1.0, 0.5, 2.0, 1.7]))
    if kind == "rbv":
        # |b/(2m)| between 1e-5/sqrt(h) = 1e-4 and 10 (1e-10/h)^(1/3) = 0.0215 for h = 0.01
        return m, 2 * m * [0.002, 0.01, 0.02][variant % 3], 0.0
    if kind == "soft":
        m = 100.0
        w = 0.06
        return m, 2 * 0.05 * w * m, w * w * m
    if kind == "rb0":
        return m, 0.0, 0.0
    if kind == "rbl":
        return m, 2 * m * 1e-7, 0.0
    if kind == "rbd":
        return m, 2 * m * float(rng.choice([0.5, 2.0, 5.0])), 0.0
    if kind == "crit":
        w = float(rng.choice([16.0, 64.0, 128.0]))       # dyadic: b*b == 4*m*k exactly in binary64
        m = float(rng.choice([1.0, 0.5, 2.0]))
        return m, 2 * m * w, m * w * w
    w = float(rng.uniform(0.05, 2.5)) / H
    if kind == "und":
        z = [0.0, 0.01, 0.3, 0.9, 0.05][variant % 5]
    elif kind == "undn":
        z = [1 - 1e-6, 1 - 2e-8, 1 - 5e-9][variant % 3]
    elif kind == "overn":
        z = [1 + 1e-6, 1 + 2e-8, 1 + 5e-9][variant % 3]
    else:
        z = [1.5, 3.0, 1.1][variant % 3]
    return m, 2 * z * w * m, w * w * m


def exact_history(step_terms, kinds, rf, order, ic, prm, frc, q0, mpm, H=0.01):
    """modal histories d, v, a (lists of mp numbers per equation) from the spec's terms"""
    mpf = mpm.mpf
    n = len(kinds)
    D, Vv, Aa = [], [], []
    for i, kd in enumerate(kinds):
        m, b, k = (mpf(x) for x in prm[i])
        f = [mpf(x) for x in frc[i]]
        tD, tV = step_terms[(kd, order)][:2]
        d0given, v0given, static = ic
        # documented rule (specs/OdeModel.tla IcRule): d0 wins over static_ic; static: elastic equations start at f0/k, rigid-body at 0
        d = mpf(q0[0][i]) if d0given else ((f[0] / k if k != 0 else mpf(0)) if static else mpf(0))
        v = mpf(q0[1][i]) if v0given else mpf(0)
        ds, vs = [d], [v]
        for j in range(1, len(f)):
            env = dict(m=m, b=b, k=k, h=mpf(H), d0=d, v0=v, f0=f[j - 1], f1=f[j])
            d1 = terms.evmp(tD, env, mpm)
            v1 = terms.evmp(tV, env, mpm)
            d, v = mpm.re(d1), mpm.re(v1)
            ds.append(d)
            vs.append(v)
        acc = [(f[j] - b * vs[j] - k * ds[j]) / m for j in range(len(f))]
        D.append(ds)
        Vv.append(vs)
        Aa.append(acc)
    return D, Vv, Aa


def one_problem(job):
    setup_paths()
    import warnings
    warnings.simplefilter("ignore")
    import numpy as np
    import mpmath as mpm
    from pyyeti import ode
    mpm.mp.dps = 50
    (pi, problem, reps, step_terms, seed, icrule) = job
    step_terms = {(k, o): v for (k, o, *v) in step_terms}
    kinds, rf, order, ic = problem
    rng = np.random.default_rng(seed * 100003 + pi)
    n = len(kinds)
    H, NT = step_of(kinds)
    prm = [params_for(kd, rng, pi + i, H) for i, kd in enumerate(kinds)]
    frc = rng.standard_normal((n, NT)) * rng.uniform(0.5, 2.0, (n, 1))
    if NT > 50:
        frc = frc * 0 + rng.standard_normal((n, 1)) + 0.2 * rng.standard_normal((n, NT))     # a sustained force: the drift must be visible
    q0 = (rng.standard_normal(n) * 1e-3, rng.standard_normal(n) * 1e-1)
    ic = tuple(bool(x) for x in icrule)            # <<d0 given, v0 given, static_ic>> as exported by the spec
    D, Vv, Aa = exact_history(step_terms, kinds, rf, order, ic, prm, frc.tolist(), q0, mpm, H)
    Dm = np.array([[float(x) for x in r] for r in D])
    Vm = np.array([[float(x) for x in r] for r in Vv])
    Am = np.array([[float(x) for x in r] for r in Aa])
    krf = 4.0e7
    frf = rng.standard_normal(NT)
    loose = 2e-3 if any(kd in ("rbl", "rbv") for kd in kinds) else (3e-7 if any(kd in ("undn", "overn") for kd in kinds) else 1e-9)
    results = []
    for r in reps:
        res = run_rep(np, ode, rng, kinds, rf, order, ic, prm, frc, q0, Dm, Vm, Am, krf, frf, r, loose, H)
        results.append((r, res))
    return pi, problem, [list(p) for p in prm], results


def run_rep(np, ode, rng, kinds, rf, order, ic, prm, frc, q0, Dm, Vm, Am, krf, frf, r, loose, H=0.01):
    n = len(kinds)
    isrb = [kd in ("rb0", "rbl", "rbv", "rbd") for kd in kinds]
    md = np.array([p[0] for p in prm])
    bd = np.array([p[1] for p in prm])
    kd_ = np.array([p[2] for p in prm])
    f = frc.copy()
    if r["mform"] == "none" or r["coupling"] == "kcoupled":
        bd, kd_, f, md = bd / md, kd_ / md, f / md[:, None], np.ones(n)
    # equation order
    idx = list(range(n))
    if r["layout"] == "contiguous":
        idx = [i for i in idx if isrb[i]] + [i for i in idx if not isrb[i]]
    ntot = n + (1 if rf else 0)
    # positions: contiguous -> rb, el, rf ; interleaved -> rf in the middle of the problem order
    order_eq = idx[:]
    rfpos = None
    if rf:
        rfpos = ntot - 1 if r["layout"] == "contiguous" else (0 if r["layout"] == "rffirst" else max(1, n // 2))
        order_eq.insert(rfpos, "rf")
    M = np.zeros((ntot, ntot)); B = np.zeros((ntot, ntot)); K = np.zeros((ntot, ntot)); F = np.zeros((ntot, f.shape[1]))
    modal_of = {}
    for pos, e in enumerate(order_eq):
        if e == "rf":
            M[pos, pos] = 1.0; B[pos, pos] = 0.02 * np.sqrt(krf); K[pos, pos] = krf; F[pos] = frf
        else:
            M[pos, pos] = md[e]; B[pos, pos] = bd[e]; K[pos, pos] = kd_[e]; F[pos] = f[e]
            modal_of[pos] = e
    elpos = [pos for pos, e in enumerate(order_eq) if e != "rf" and not isrb[e]]
    rbpos = [pos for pos, e in enumerate(order_eq) if e != "rf" and isrb[e]]
    T = np.eye(ntot)
    if r["coupling"] == "kcoupled":
        # unit modal masses, T = Q sqrt(D) with Q orthogonal: the physical mass T'T = D is diagonal and NOT uniform, damping and
        # stiffness are full
        ne = len(elpos)
        Q, _ = np.linalg.qr(rng.standard_normal((ne, ne)))
        T[np.ix_(elpos, elpos)] = Q * np.sqrt(rng.uniform(0.5, 3.0, ne))[None, :]
        M = T.T @ M @ T; B = T.T @ B @ T; K = T.T @ K @ T; F = T.T @ F
        M = np.diag(np.diag(M))
    if r["coupling"] in ("coupled", "ncoupled"):
        ne = len(elpos)
        if r["mform"] == "none":
            Q, _ = np.linalg.qr(rng.standard_normal((ne, ne)))
            Te = Q
        else:
            # a congruence with a moderate condition number: the answer's sensitivity to one ulp of the coupled matrices grows like
            # cond(T)^2 (measured: 1e-11 at cond 165), so an occasional nearly singular draw would test conditioning, not the solver
            for _ in range(50):
                Te = np.eye(ne) + 0.3 * rng.standard_normal((ne, ne))
                if np.linalg.cond(Te) <= 30:
                    break
        T[np.ix_(elpos, elpos)] = Te
        M = T.T @ M @ T; B = T.T @ B @ T; K = T.T @ K @ T; F = T.T @ F
        if r["coupling"] == "ncoupled":
            # the equations of the elastic block combined by a conditioned L: same solution, matrices no longer symmetric
            Lm = np.eye(ntot)
            for _ in range(50):
                Le = np.eye(ne) + 0.3 * rng.standard_normal((ne, ne))
                if np.linalg.cond(Le) <= 10:
                    break
            Lm[np.ix_(elpos, elpos)] = Le
            M = Lm @ M; B = Lm @ B; K = Lm @ K; F = Lm @ F
    Ti = np.linalg.inv(T)
    # expected physical histories
    Dq = np.zeros((ntot, F.shape[1])); Vq = np.zeros_like(Dq); Aq = np.zeros_like(Dq)
    for pos, e in modal_of.items():
        Dq[pos], Vq[pos], Aq[pos] = Dm[e], Vm[e], Am[e]
    if rf:
        Dq[rfpos] = frf / krf
    De, Ve, Ae = Ti @ Dq, Ti @ Vq, Ti @ Aq
    if r["mform"] == "none":
        marg = None
    elif r["mform"] == "vec":
        marg = np.diag(M).copy()
    else:
        marg = M
    barg = np.diag(B).copy() if r["coupling"] == "diag" and r["mform"] != "mat" else B
    karg = np.diag(K).copy() if r["coupling"] == "diag" and r["mform"] != "mat" else K
    rb = rbpos if r["rbgiven"] else None
    if r["pre_eig"] and r["rbgiven"]:
        rb = list(range(len(rbpos)))           # after pre_eig the rigid-body modes are the first (zero) eigenvalues
    rfarg = [rfpos] if rf else None
    d0 = v0 = None
    d0given, v0given, static = ic
    if d0given or v0given:
        q0d = np.zeros(ntot); q0v = np.zeros(ntot)
        for pos, e in modal_of.items():
            q0d[pos], q0v[pos] = q0[0][e], q0[1][e]
        d0 = Ti @ q0d if d0given else None
        v0 = Ti @ q0v if v0given else None
    try:
        if r["solver"] == "SolveExp1":
            Mi = np.linalg.inv(M)
            A = np.block([[np.zeros((ntot, ntot)), np.eye(ntot)], [-Mi @ K, -Mi @ B]])
            ts = ode.SolveExp1(A, H, order=order)
            y0 = None if (d0 is None and v0 is None) else np.concatenate((np.zeros(ntot) if d0 is None else d0, np.zeros(ntot) if v0 is None else v0))
            sol = ts.tsolve(np.vstack((np.zeros_like(F), Mi @ F)), y0)
            d, v, a = sol.d[:ntot], sol.d[ntot:], sol.v[ntot:]
        else:
            cls = ode.SolveUnc if r["solver"] == "SolveUnc" else ode.SolveExp2
            ts = cls(marg, barg, karg, H, rb=rb, rf=rfarg, order=order, pre_eig=r["pre_eig"])
            sol = ts.tsolve(F, d0, v0, static_ic=static)
            d, v, a = sol.d, sol.v, sol.a
    except Exception as ex:
        return "raised %r" % ex
    # 1e-9 of the history scale; 5e-8 where an equation is within 1e-6 of critical damping (the closed-form coefficients
    # divide by the damped frequency ~ 1e-4 w there, and the regime switch itself is at |1 - zeta^2| = 1e-8);
    # 2e-3 where a rigid-body equation is damped below the documented cut-off
    tol = loose
    nonrf = [p for p in range(ntot) if p != rfpos]
    sd = max(np.abs(De).max(), H * np.abs(Ve).max(), H * H * np.abs(Ae).max(), 1e-300)
    sv = max(np.abs(Ve).max(), np.abs(De).max() / H, H * np.abs(Ae).max(), 1e-300)
    sa = max(np.abs(Ae).max(), np.abs(Ve).max() / H, np.abs(De).max() / H / H, 1e-300)
    for nm, got, exp, sc in (("d", d, De, sd), ("v", v, Ve, sv), ("a", a, Ae, sa)):
        rows = list(range(ntot)) if nm == "d" else nonrf
        err = np.abs(got[rows] - exp[rows]).max() / sc
        if not err <= tol:
            j = int(np.argmax(np.abs(got[rows] - exp[rows]).max(axis=0)))
            return "%s differs from the closed-form solution: relative error %.3g (first bad sample ~%d)" % (nm, err, j)
    # equation of motion at every sample (non-rf equations)
    res = (M @ a + B @ v + K @ d - F)[nonrf]
    fs = max(np.abs(F).max(), np.abs(K @ d).max(), np.abs(B @ v).max(), 1e-300)
    if not np.abs(res).max() <= max(tol, 1e-8) * fs:
        return "returned acceleration does not satisfy the equation of motion: residual %.3g of the force scale" % (np.abs(res).max() / fs)
    return None


def body(run: Run, replay):
    cfg = "MC_OdeModel.cfg" if run.tier == "quick" else "MC_OdeModel_t.cfg"
    res = tlc.run("OdeModel", cfg, timeout=1500, heap="8g")
    if res.violation:
        run.add_tlc(cfg, res)
        run.violation("TLC: %s on the OdeModel" % res.violation, {"tlc": res.error_text()}, {"where": "model"})
        return
    run.add_tlc(cfg, res, "problems x legal representations; invariants ClassesNonTrivial PartitionTotal; step terms exported")
    step_terms = [tuple(x) for x in res.tagged("STEP")]
    probs = res.tagged("PROBLEM")
    run.rule = ("every problem (sequence of <= 2 (thorough 3) equation kinds x rf x hold order x ic rule) x every legal representation "
                "(SolveUnc/SolveExp2/SolveExp1 x m None/vector/matrix x diagonal/congruence-coupled x pre_eig x rb given/auto x "
                "contiguous/interleaved), seeded parameters incl. zeta = 1 +- {0, 5e-9, 2e-8, 1e-6}; histories vs the spec's exact "
                "step terms at 50 digits + equation-of-motion residual. distinct non-trivial = (problem, representation) pairs")
    run.assumptions = ["terms evaluated with mpmath at 50 digits; tolerance 1e-9 of the history scale (2e-3 where a rigid-body mode is "
                       "damped below the documented cut-off)", "w*h in [0.05, 2.5] (the well-conditioned range the statement names)",
                       "coupled representations are congruences T^T M T with cond(T) <= 30 (sensitivity of the answer to one ulp of the matrices grows like cond(T)^2)",
                       "statement is tested on enumerated cases, not proved"]
    jobs = []
    for pi, (problem, reps, icrule) in enumerate(probs):
        reps = list(reps)
        jobs.append((pi, problem, reps, step_terms, run.seed, icrule))
    nsample = 0
    with mp_.get_context("fork").Pool(16) as pool:
        for pi, problem, prm, results in pool.imap_unordered(one_problem, jobs, chunksize=4):
            for r, msg in results:
                run.case((json.dumps(problem), json.dumps(r, sort_keys=True)), part=r["solver"] + "/" + r["coupling"])
                run.trace_validated()
                if msg:
                    tags = {"solver": r["solver"], "pre_eig": r["pre_eig"], "ic": problem[3]}
                    run.violation("%s: %s" % (r["solver"], msg), {"problem": problem, "representation": r, "params(m,b,k)": prm}, tags)
            if nsample < 3:
                nsample += 1
                run.sample({"problem(kinds, rf, order, ic)": problem, "representations": len(results), "params(m,b,k)": prm})


if __name__ == "__main__":
    main("C01", "exploration", body)
