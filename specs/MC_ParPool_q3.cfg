CONSTANTS
  LF = 3
  W = 1
  RMW = TRUE
  Export = TRUE
  InRep = "f8"
SPECIFICATION Spec
INVARIANT AtMostOnce
INVARIANT ExactlyOnce
INVARIANT Confluence
INVARIANT InFlight
INVARIANT SharedBeforeWork
INVARIANT SameRepresentation
INVARIANT DecideLaws
INVARIANT ExportDecide
INVARIANT ExportOK
PROPERTY OwnRowOnly
PROPERTY Terminates
