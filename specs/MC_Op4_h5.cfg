CONSTANTS
  NR = 3
  NC = 1
  NV = 1
  WPV = 1
  CPLX = 1
  Ascii = TRUE
  PerLine = 3
  RowOffset = 65533
  WriterOnly = FALSE
  Export = TRUE
INIT Init
NEXT Next
INVARIANT DecodeIsIdentity
INVARIANT LayoutRecognised
INVARIANT SkipExact
INVARIANT FieldRanges
INVARIANT ExportOK
