"""Representative calls of the public functions behind each property, for harness/purity.py (specs/Purity.tla).
Each entry: (name, builder) with builder() -> (fn, [args], {kwargs}[, approx]).  Argument objects are created once per entry and
reused for every call of that entry."""
import io
import os
import tempfile


def calls_for(pid, seed=0):
    import numpy as np
    import warnings
    warnings.simplefilter("ignore")
    rng = np.random.default_rng(1000 + seed)
    out = []

    def add(name, fn, args, kwargs=None, approx=False):
        out.append((name, (lambda fn=fn, args=args, kwargs=kwargs or {}, approx=approx: (fn, args, kwargs, approx))))

    if pid in ("C01", "C17", "C02", "C08"):
        from pyyeti import ode
        from . import odesys
        s = odesys.make_system(rng, "coupled", 1, 3, 1, "mat", zetas=[0.02, 0.05, 0.1])
        sd = odesys.make_system(rng, "diag", 1, 3, 1, "vec")
        sc = odesys.make_system(rng, "cdamp", 1, 3, 0, "vec")
        n = s["n"]
        F = rng.standard_normal((n, 12))
        d0 = rng.standard_normal(n) * 1e-3
        v0 = rng.standard_normal(n) * 1e-1
        if pid in ("C01", "C17", "C08"):
            add("SolveUnc(coupled).tsolve", ode.SolveUnc(s["m"], s["b"], s["k"], s["h"], rf=s["rf"]).tsolve, [F, d0, v0])
            add("SolveUnc(diag).tsolve", ode.SolveUnc(sd["m"], sd["b"], sd["k"], sd["h"], rf=sd["rf"]).tsolve, [F[: sd["n"]], None, None], {"static_ic": True})
            add("SolveExp2.tsolve", ode.SolveExp2(s["m"], s["b"], s["k"], s["h"], rf=s["rf"]).tsolve, [F, d0, v0])
            add("SolveCDF.tsolve", ode.SolveCDF(sc["m"], sc["b"], sc["k"], sc["h"]).tsolve, [F[: sc["n"]], d0[: sc["n"]], v0[: sc["n"]]])
            add("SolveNewmark.tsolve", ode.SolveNewmark(sc["m"], sc["b"], sc["k"], sc["h"]).tsolve, [F[: sc["n"]], d0[: sc["n"]], v0[: sc["n"]]])
            add("SolveUnc constructor", lambda *a, **k: vars(ode.SolveUnc(*a, **k).pc) and 1, [s["m"], s["b"], s["k"], s["h"]], {"rf": s["rf"]})
            ts = ode.SolveExp2(s["m"], s["b"], s["k"], s["h"], rf=s["rf"])
            add("SolveExp2.get_f2x", ts.get_f2x, [rng.standard_normal((2, n))])
        if pid == "C02":
            freq = np.array([0.0, 2.0, 9.0, 31.0])
            Fc = rng.standard_normal((n, 4)) + 1j * rng.standard_normal((n, 4))
            add("SolveUnc(coupled).fsolve", ode.SolveUnc(s["m"], s["b"], s["k"], rf=s["rf"]).fsolve, [Fc, freq], {"incrb": "dva"})
            add("SolveUnc(h given).fsolve", ode.SolveUnc(s["m"], s["b"], s["k"], s["h"], rf=s["rf"]).fsolve, [Fc, freq], {"incrb": "av"})
            add("FreqDirect.fsolve", ode.FreqDirect(s["m"], s["b"], s["k"], rf=s["rf"]).fsolve, [Fc[:, 1:], freq[1:]])
            tsd = ode.SolveUnc(sd["m"], sd["b"], sd["k"])
            fr2 = np.sort(rng.uniform(2.0, 60.0, 12))
            add("solvepsd", ode.solvepsd, [tsd, rng.uniform(0.1, 2.0, (2, 12)), rng.standard_normal((sd["n"], 2)), fr2,
                                           [[rng.standard_normal((2, sd["n"])), None, None, None]]], {"incrb": "dva"})
    if pid in ("C03", "C09"):
        from pyyeti import srs
        sr = 400.0
        sig = rng.standard_normal(300)
        fr = np.array([0.0, 12.0, 40.0, 90.0])
        for st in ("absacce", "relvelo", "pvelo"):
            add("srs(%s)" % st, srs.srs, [sig, sr, fr, 20.0], {"stype": st, "parallel": "no"})
        add("srs(getresp, residual)", srs.srs, [np.column_stack((sig, sig[::-1])), sr, fr, 10.0], {"getresp": True, "time": "residual", "parallel": "no"})
        F = np.linspace(2.0, 200.0, 200)
        add("vrs", srs.vrs, [(F, rng.uniform(0.01, 0.2, F.size)), F, 10.0], {"linear": True, "Fn": np.array([90.0, 10.0, 35.0]), "getmiles": True})
        add("srs_frf", srs.srs_frf, [rng.standard_normal(F.size) + 0j, F, np.array([10.0, 35.0]), 15.0])
    if pid in ("C04", "C11"):
        from pyyeti.nastran import op4
        import scipy.sparse as sp
        mats = {"a": rng.standard_normal((5, 3)), "b": sp.random(40, 6, 0.2, random_state=3).tocsr(), "c": rng.standard_normal((4, 4)) + 1j * rng.standard_normal((4, 4))}

        def wr(mats, **kw):
            fd, p = tempfile.mkstemp(suffix=".op4")
            os.close(fd)
            try:
                op4.write(p, mats, **kw)
                return open(p, "rb").read()
            finally:
                os.unlink(p)
        add("op4.write(binary)", wr, [mats], {"binary": True})
        add("op4.write(ascii, bigmat)", wr, [mats], {"binary": False, "sparse": "bigmat"})
        add("op4.write(names, vars lists)", lambda names, vars_, **kw: wr(dict(zip(names, vars_)), **kw), [["x", "y"], [mats["a"], mats["c"]]], {"binary": True, "sparse": "nonbigmat"})
    if pid in ("C05", "C10"):
        from pyyeti import cyclecount
        sigp = rng.standard_normal(200)
        pk = cyclecount.findap(sigp)
        peaks = sigp[pk]
        add("findap", cyclecount.findap, [sigp])
        add("rainflow", cyclecount.rainflow, [peaks], {"getoffsets": True})
        rf = cyclecount.rainflow(peaks, use_pandas=False)
        add("binify", cyclecount.binify, [rf, 6, 4], {"use_pandas": False})
        add("sigcount", cyclecount.sigcount, [sigp, 5, 3])
        if pid == "C10":
            from pyyeti import fdepsd
            add("fdepsd", fdepsd.fdepsd, [rng.standard_normal(600), 400.0, np.array([20.0, 50.0]), 12.0], {"parallel": "no", "nbins": 8})
    if pid == "C07":
        from pyyeti import expmint
        from pyyeti.ssmodel import SSModel
        A = rng.standard_normal((4, 4)) - 2 * np.eye(4)
        B = rng.standard_normal((4, 2))
        add("expmint", expmint.expmint, [A, 0.3, True])
        add("getEPQ(B)", expmint.getEPQ, [A, 0.01], {"order": 1, "B": B})
        add("getEPQ(half, large step)", expmint.getEPQ, [A, 2.5], {"order": 1, "half": True})
        add("getEPQ_pow", expmint.getEPQ_pow, [A, 0.05], {"order": 0})
        S = SSModel(A, B, rng.standard_normal((1, 4)), np.zeros((1, 2)))
        add("SSModel.c2d(foh)", lambda S, h: vars(S.c2d(h, method="foh")), [S, 0.05])
        Z = S.c2d(0.05, method="tustin")
        add("SSModel.d2c(tustin)", lambda Z: vars(Z.d2c(method="tustin")), [Z])
    if pid in ("C12", "C13"):
        from pyyeti.nastran import bulk

        def text(fn, *a, **k):
            f = io.StringIO()
            fn(f, *a, **k)
            return f.getvalue()
        add("wtcard8", lambda fields: text(bulk.wtcard8, fields), [["FORCE", 1, 2, -999999.5, "", 3.25e-7, 5, 6, 7, 8, 9]])
        add("wtcard16d", lambda fields: text(bulk.wtcard16d, fields), [["TGT*", 1, 2.5, 1e-10, 7]])
        add("rdcards", lambda s: bulk.rdcards(io.StringIO(s), "tgt", return_var="list"), ["TGT,1,2\n+,9,10\nTGT,7,8.5\n"])
        if pid == "C13":
            ids = np.array([1, 2, 3, 4, 7, 9, 10, 11, 12, 20])
            add("wtnasints", lambda ids: text(bulk.wtnasints, 2, ids), [ids])
            add("wtset", lambda ids: text(bulk.wtset, 10, ids), [ids])
            t = np.arange(7.0)
            add("wttabled1", lambda t, d: text(bulk.wttabled1, 5, t, d), [t, t ** 2])
            grids = np.array([[100, 0, 1.0, 2.0, 3.0, 0], [200, 0, 4.0, 5.0, 6.0, 0]])
            add("wtgrids", lambda g, xyz: text(bulk.wtgrids, g, xyz=xyz), [np.array([100, 200]), grids[:, 2:5].copy()])
            add("rdsets", lambda s: bulk.rdsets(io.StringIO(s)), ["SET 10 = 1 THRU 4, 7, 9 THRU 12,\n 20\n"])
    if pid in ("C14", "C06"):
        from pyyeti.nastran import n2p
        cyl = np.array([[1, 2, 0], [0, 0, 0], [0, 0, 1.0], [1.0, 0, 0]])
        uset = n2p.addgrid(None, [300, 100, 200], "b", [0, cyl, 0], [[5.0, 10.0, 15.0], [32.0, 90.0, 10.0], [1.0, 2.0, 3.0]], [0, cyl, cyl])
        add("addgrid", n2p.addgrid, [None, [1, 2], "b", [0, cyl], np.array([[1.0, 2, 3], [4.0, 30.0, 5]]), [cyl, 0]])
        add("rbgeom_uset(xyz)", n2p.rbgeom_uset, [uset, np.array([1.0, 0.0, 2.0])])
        add("rbgeom_uset(id)", n2p.rbgeom_uset, [uset, 100])
        add("getcoordinates", n2p.getcoordinates, [uset, np.array([300, 200]), cyl])
        add("formrbe3", n2p.formrbe3, [uset, 300, 123456, [123456, [100, 200]]])
        add("replace_basic_cs", lambda u, cs: n2p.replace_basic_cs(u, cs), [uset, np.array([[50, 1, 0], [10.0, 10, 10], [10.0, 10, 11], [11.0, 10, 10]])])
        add("rbmove", n2p.rbmove, [n2p.rbgeom_uset(uset), np.zeros(3), np.array([1.0, 2.0, 3.0])])
        add("rbcoords", n2p.rbcoords, [n2p.rbgeom_uset(uset)], {"verbose": 0}, True)      # least-squares residues at round-off level
    if pid in ("C06", "C15"):
        from pyyeti import cb
        nb, nq = 6, 4
        a = rng.standard_normal((nb + nq, nb + nq))
        M = a @ a.T + 5 * np.eye(nb + nq)
        K = np.zeros_like(M)
        K[nb:, nb:] = np.diag(rng.uniform(100, 900, nq))
        Bd = np.zeros_like(M)
        Bd[nb:, nb:] = np.diag(0.05 * np.sqrt(np.diag(K)[nb:]))
        bset = np.arange(nb)
        add("cbtf", cb.cbtf, [M, Bd, K, np.eye(nb)[0], np.array([0.0, 1.0, 3.0]), bset])
        add("cbconvert", cb.cbconvert, [M, bset, "m2e"])
        add("cbreorder", cb.cbreorder, [M, bset[::-1].copy()], {"last": True})
        add("cgmass", cb.cgmass, [M[:6, :6].copy()], {"all6": True})
        if pid == "C06":
            from pyyeti.nastran import n2p as _n2p
            us = _n2p.addgrid(None, [11, 12], "b", 0, rng.uniform(-3, 3, (2, 3)), 0)
            add("uset_convert", cb.uset_convert, [us, rng.uniform(1, 5, 3), "m2e"])
            Kc = np.zeros((12, 12))
            a6 = rng.standard_normal((6, 6))
            kk = a6 @ a6.T + 6 * np.eye(6)
            xy = us.values[::6, 1:]
            R = np.eye(6)
            r = xy[1] - xy[0]
            R[:3, 3:] = -np.array([[0, -r[2], r[1]], [r[2], 0, -r[0]], [-r[1], r[0], 0]])
            L = np.hstack((-R, np.eye(6)))
            Kc = np.zeros((14, 14))
            Kc[:12, :12] = L.T @ kk @ L
            Kc[12:, 12:] = np.diag([400.0, 900.0])
            Mc = np.diag(np.r_[rng.uniform(1, 3, 12), 1.0, 1.0])
            Mc[12:, :12] = 0.1 * rng.standard_normal((2, 12))
            Mc[:12, 12:] = Mc[12:, :12].T
            add("cbcheck", lambda *a_, **k_: (lambda o: [o.m, o.k, o.rbs, o.rbg, o.rbe])(cb.cbcheck(io.StringIO(), *a_, **k_)),
                [Mc, Kc, np.arange(12), np.arange(6), us], {"uref": np.array([0.5, 0.0, 1.0]), "conv": "m2e", "rb_norm": True}, True)
        if pid == "C15":
            from pyyeti import frclim
            ns = 5
            Ms = np.diag(rng.uniform(1, 3, ns))
            Ks = np.zeros((ns, ns))
            for i in range(ns - 1):
                e = np.zeros(ns)
                e[i], e[i + 1] = 1, -1
                Ks += 3000.0 * np.outer(e, e)
            Bs = 3e-4 * Ks
            T = np.zeros((1, ns))
            T[0, 0] = 1.0
            fq = np.array([0.5, 3.0, 9.0])
            add("calcAM", frclim.calcAM, [[Ms, Bs, Ks, T], fq])
            add("ntfl", frclim.ntfl, [[Ms, Bs, Ks, T], [Ms * 0.7, Bs, Ks * 1.3, T], np.ones((1, 3)) + 0j, fq])
    if pid == "C16":
        from pyyeti import cla
        resp = rng.standard_normal((4, 30))
        add("maxmin", cla.maxmin, [resp, np.arange(30.0)])
    if pid == "C18":
        from pyyeti import locate
        from pyyeti.nastran import n2p
        a = np.array([[1, 2], [3, 4], [5, 6], [1, 2]])
        b = np.array([[5, 6], [9, 9], [1, 2]])
        add("mat_intersect", locate.mat_intersect, [a, b, 2])
        add("find_duplicates", locate.find_duplicates, [np.array([3, 1, 3, 2, 1])])
        add("flippv", locate.flippv, [np.array([0, 3, 4]), 7])
        add("find_subseq", locate.find_subseq, [np.array([1, 2, 1, 2, 3]), np.array([1, 2])])
        uset = n2p.addgrid(None, [10, 20], ["b", "q"], 0, [[0.0, 0, 0], [1.0, 1, 1]], 0)
        add("mksetpv", n2p.mksetpv, [uset, "a", "b"])
        add("mkdofpv", n2p.mkdofpv, [uset, "p", np.array([[20, 3], [10, 123]])])
        add("mkusetmask", n2p.mkusetmask, ["a+e"])
    if pid == "C19":
        from pyyeti import psd, dsp
        spec = np.array([[20.0, 0.0053, 0.01], [150.0, 0.04, 0.04], [600.0, 0.04, 0.08], [2000.0, 0.0036, 0.0072]])
        add("psd.area", psd.area, [spec])
        add("psd.interp", psd.interp, [spec, np.array([20.0, 100.0, 2000.0, 2500.0])])
        Fp = np.arange(1.0, 300.0, 1.0)
        add("psd.rescale", psd.rescale, [rng.uniform(0.5, 2.0, Fp.size), Fp], {"n_oct": 3})
        add("dsp.resample", dsp.resample, [rng.standard_normal((3, 40)), 3, 2], {"axis": 1, "t": np.arange(40.0)})
        t = np.array([0.0, 1.0, 2.1, 2.9, 4.0, 6.0, 7.0])
        add("dsp.fixtime", dsp.fixtime, [(t, t ** 2)], {"sr": 1.0, "verbose": False})
    if pid == "C20":
        from pyyeti import stats
        add("ksingle", stats.ksingle, [np.array([0.9, 0.99]), 0.9, np.array([[5], [50]])])
        add("kdouble", stats.kdouble, [0.95, np.array([0.5, 0.9]), 21])
        add("kdouble(coarse tol)", stats.kdouble, [0.9, 0.9, 7], {"tol": 0.05})      # the same p, n with another option BEFORE the default call
        add("kdouble(scalar)", stats.kdouble, [0.9, 0.9, 7])
        add("order_stats(r)", lambda **k: stats.order_stats("r", **k), [], {"p": np.array([0.9, 0.99]), "c": 0.9, "n": 700})
        add("order_stats(n)", lambda **k: stats.order_stats("n", **k), [], {"p": 0.99, "c": 0.9, "r": np.array([1, 4])})
    return out
