CONSTANTS
  NT = 4
  MaxActs = 7
  Export = TRUE
SPECIFICATION Spec
INVARIANT TypeOK
INVARIANT Valid
INVARIANT FinalIsBatch
INVARIANT CacheCoherent
INVARIANT Col0Fixed
INVARIANT IcLaws
INVARIANT ExportIc
INVARIANT ExportOK
PROPERTY OnlyCurrentColumn
