"""Neutral physical layer for Nastran OUTPUT2 files: bytes <-> token stream.
Imports nothing from pyYeti.

A file is a sequence of Fortran unformatted records  [len:i4][payload][len:i4].  A record whose payload is one
integer of the file's key width is a KEY; everything else is a data record.  tokens:  ("K", value) | ("R", bytes)
(the grammar over these tokens is specs/Op2.tla).
"""
import struct


class FormatError(Exception):
    pass


def detect(data):
    le = struct.unpack("<i", data[:4])[0]
    be = struct.unpack(">i", data[:4])[0]
    if le in (4, 8):
        return "<", le
    if be in (4, 8):
        return ">", be
    raise FormatError("first record length is neither 4 nor 8")


def records(data):
    """list of (offset, payload) Fortran records"""
    E, ib = detect(data)
    pos = 0
    out = []
    n = len(data)
    while pos < n:
        if pos + 4 > n:
            raise FormatError("truncated record marker at %d" % pos)
        ln = struct.unpack(E + "i", data[pos:pos + 4])[0]
        if ln < 0 or pos + 8 + ln > n:
            raise FormatError("bad record length %d at %d" % (ln, pos))
        p = data[pos + 4:pos + 4 + ln]
        ln2 = struct.unpack(E + "i", data[pos + 4 + ln:pos + 8 + ln])[0]
        if ln2 != ln:
            raise FormatError("record markers disagree at %d" % pos)
        out.append((pos, p))
        pos += 8 + ln
    return E, ib, out


def render(tokens, endian="<", ib=4):
    """tokens: ("K", int) | ("R", bytes) -> bytes"""
    ik = "q" if ib == 8 else "i"
    out = bytearray()
    for kind, v in tokens:
        p = struct.pack(endian + ik, v) if kind == "K" else v
        out += struct.pack(endian + "i", len(p)) + p + struct.pack(endian + "i", len(p))
    return bytes(out)
