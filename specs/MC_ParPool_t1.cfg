CONSTANTS
  LF = 5
  W = 3
  RMW = TRUE
  Export = TRUE
  InRep = "f8"
SPECIFICATION Spec
INVARIANT AtMostOnce
INVARIANT ExactlyOnce
INVARIANT Confluence
INVARIANT InFlight
INVARIANT SharedBeforeWork
INVARIANT SameRepresentation
INVARIANT ExportOK
PROPERTY OwnRowOnly
PROPERTY Terminates
