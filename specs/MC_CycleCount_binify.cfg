CONSTANTS
  MaxLen = 6
  MaxVal = 3
  Export = TRUE
  Mode = "binify"
INIT Init
NEXT Next
INVARIANT TypeOK
INVARIANT DefaultTolOK
INVARIANT Conservation
INVARIANT ExportOK
INVARIANT ExportBins
