CONSTANTS
  MaxN = 12
  Mode = "layouts"
  Export = TRUE
  Big = FALSE
INIT Init
NEXT Next
INVARIANT LayoutLaws
INVARIANT ExportLayouts
