----------------------------- MODULE BulkLists -----------------------------
(***************************************************************************)
(* C13.  Bulk-data id lists, tables and DMIG matrices: what the writers    *)
(* must put on the cards so that the readers recover the same content.     *)
(*                                                                          *)
(* Id lists are enumerated by RUN STRUCTURE: an increasing list of n ids   *)
(* is a start value and a gap pattern (gap 1 = consecutive, gap 2 = hole), *)
(* so every combination of singletons and THRU-compressible runs falling   *)
(* on every position of an 8-field line is a distinct state.               *)
(*   Runs(ids)      maximal runs <<first, last>>                           *)
(*   ThruItems(ids) the items a THRU-compressing writer may emit           *)
(*   Expand(items)  what a reader reconstructs;  Expand(ThruItems) = ids   *)
(* TABLED1-style tables: npts (x, y) pairs, 4 pairs per small-field line   *)
(* (2 per large-field line), ENDT after the last pair.                     *)
(* DMIG: matrix over value ids, form 1/2/6/9; Entries(M, form) are the     *)
(* (row, col) positions written: all non-zeros, for the symmetric form 6   *)
(* only the lower triangle incl. the diagonal; Rebuild restores M.         *)
(***************************************************************************)
EXTENDS Integers, Sequences, FiniteSets, TLC

CONSTANTS MaxN, Mode, Export, Big

RECURSIVE MkIds(_, _, _)
MkIds(start, gaps, i) == IF i > Len(gaps) THEN <<start>> ELSE <<start>> \o MkIds(start + gaps[i], gaps, i + 1)

RECURSIVE Runs(_)
Runs(ids) == IF ids = <<>> THEN <<>>
             ELSE LET RECURSIVE End(_) End(i) == IF i < Len(ids) /\ ids[i + 1] = ids[i] + 1 THEN End(i + 1) ELSE i
                      e == End(1)
                  IN <<<<ids[1], ids[e]>>>> \o Runs(SubSeq(ids, e + 1, Len(ids)))
RECURSIVE Expand(_)
Expand(items) == IF items = <<>> THEN <<>>
                 ELSE [k \in 1..(items[1][2] - items[1][1] + 1) |-> items[1][1] + k - 1] \o Expand(Tail(items))
ThruItems(ids) == Runs(ids)         \* <<a, a>> = single id, <<a, b>> = a THRU b

TableLines(npts, perline) == (npts + perline - 1) \div perline

\* ---- DMIG ----------------------------------------------------------------
Dims == {<<2, 2>>, <<3, 3>>, <<2, 3>>, <<3, 2>>}
Mats(r, c) == [(1..r) \X (1..c) -> (IF r * c = 9 /\ ~Big THEN 0..1 ELSE 0..2)]
Sym(M, n) == \A i, j \in 1..n : M[<<i, j>>] = M[<<j, i>>]
\* column kinds: "plain" (column numbers), "dof" (columns on the SAME (id, dof) labels as the rows), "dof2" (columns on other DOF: a
\* square array whose rows and columns live on different DOF is rectangular in the DMIG sense, whatever its values)
Form(M, r, c, colkind) == IF colkind = "plain" THEN 9 ELSE IF r # c \/ colkind = "dof2" THEN 2 ELSE IF Sym(M, r) THEN 6 ELSE 1
Entries(M, r, c, form) == {p \in (1..r) \X (1..c) : M[p] # 0 /\ (form = 6 => p[1] >= p[2])}
Rebuild(E, M, r, c, form) == [p \in (1..r) \X (1..c) |->
     IF p \in E THEN M[p] ELSE IF form = 6 /\ <<p[2], p[1]>> \in E THEN M[<<p[2], p[1]>>] ELSE 0]

VARIABLE q
Init == CASE Mode = "lists" -> q \in UNION {{<<s, g>> : s \in {1, 9997, 99999900}, g \in [1..(n - 1) -> {1, 2}]} : n \in 1..MaxN}
          [] Mode = "perms" -> q \in UNION {{<<s, g>> : s \in {0, 1000}, g \in {f \in [1..n -> 1..(MaxN + 1)] : \A i, j \in 1..n : i # j => f[i] # f[j]}} : n \in 1..MaxN}
          [] Mode = "layouts" -> q \in 1..MaxN
          [] Mode = "ints" -> q \in (2..9) \X (0..MaxN)
          [] Mode = "dmig" -> q \in UNION {{<<d, M, k>> : M \in Mats(d[1], d[2]), k \in {"dof", "plain", "dof2"}} : d \in Dims}
Next == UNCHANGED q

Ids == IF Mode = "perms" THEN [i \in 1..Len(q[2]) |-> q[1] + q[2][i]] ELSE MkIds(q[1], q[2], 1)
\* id lists in ANY order (a writer is handed the ids as the caller has them): THRU items are maximal stretches of adjacent +1 steps, and the
\* reader's expansion gives the same ids in the same order; no law about the runs being separated holds here (3, 1, 2 has runs 3 and 1-2)
PermLaws == Mode = "perms" =>
   /\ Expand(ThruItems(Ids)) = Ids
   /\ \A i \in 1..Len(Runs(Ids)) : Runs(Ids)[i][1] <= Runs(Ids)[i][2]
ExportPerms == (Mode = "perms" /\ Export) => PrintT(<<"PERM", Ids, Runs(Ids)>>)
ListLaws == Mode = "lists" =>
   /\ Expand(ThruItems(Ids)) = Ids
   /\ \A i \in 1..Len(Runs(Ids)) : Runs(Ids)[i][1] <= Runs(Ids)[i][2]
   /\ \A i \in 1..(Len(Runs(Ids)) - 1) : Runs(Ids)[i][2] + 1 < Runs(Ids)[i + 1][1]
DmigLaws == Mode = "dmig" =>
   LET r == q[1][1] c == q[1][2] M == q[2] f == Form(M, r, c, q[3]) IN
   Rebuild(Entries(M, r, c, f), M, r, c, f) = M
\* ---- integer lists wrapped over continuation lines (wtnasints): the i-th integer of a list that starts in field `start` of the
\* card's first line stands at <<line, field>>; continuation lines use fields 2..9
IntPos(start, i) == LET first == 10 - start IN
   IF i <= first THEN <<1, start + i - 1>> ELSE <<2 + (i - first - 1) \div 8, 2 + ((i - first - 1) % 8)>>
IntLines(start, n) == IF n = 0 THEN 1 ELSE IntPos(start, n)[1]
NextCell(p) == IF p[2] = 9 THEN <<p[1] + 1, 2>> ELSE <<p[1], p[2] + 1>>
IntLaws == Mode = "ints" =>
   LET start == q[1] n == q[2] IN
   /\ n > 0 => IntPos(start, 1) = <<1, start>>
   /\ \A i \in 1..n : IntPos(start, i)[2] \in 2..9
   /\ \A i \in 1..(n - 1) : IntPos(start, i + 1) = NextCell(IntPos(start, i))        \* no cell skipped, none used twice, order kept
   /\ IntLines(start, n) = IF n <= 10 - start THEN 1 ELSE 1 + (n - (10 - start) + 7) \div 8
ExportInts == (Mode = "ints" /\ Export) => PrintT(<<"INTS", q[1], q[2], [i \in 1..q[2] |-> IntPos(q[1], i)], IntLines(q[1], q[2])>>)
\* ---- field layouts of element / load cards written by dedicated writers and read by the generic card reader (growth) --------------------
\* a layout is the sequence of field names of the card after its name ("" = a field left blank); trailing blanks are not part of a card
Rep(x, n) == [i \in 1..n |-> x]
Rbe2Layout(n) == <<"eid", "indep", "dof">> \o [i \in 1..n |-> "dep" \o ToString(i)]
Conm2Layout == <<"eid", "gid", "cid", "mass", "x1", "x2", "x3", "", "i11", "i21", "i22", "i31", "i32", "i33">>
Term(k) == <<"g" \o ToString(k), "c" \o ToString(k), "a" \o ToString(k)>>
RECURSIVE MpcTerms(_, _)
\* two terms per line; every line ends with a blank field and every continuation line starts with one
MpcTerms(k, n) == IF k > n THEN <<>> ELSE
                  IF k + 1 > n THEN Term(k) ELSE Term(k) \o Term(k + 1) \o (IF k + 2 > n THEN <<>> ELSE <<"", "">> \o MpcTerms(k + 2, n))
MpcLayout(n) == <<"sid">> \o MpcTerms(1, n)
Tabdmp1Layout(n) == <<"id", "type">> \o Rep("", 6) \o [i \in 1..(2 * n) |-> (IF i % 2 = 1 THEN "f" ELSE "g") \o ToString((i + 1) \div 2)] \o <<"ENDT">>
Tload1Layout == <<"sid", "exciteid", "delay", "type", "tid">>
Tload2Layout == <<"sid", "exciteid", "delay", "type", "t1", "t2", "f", "p", "c", "b">>
\* RBE3: element id, a blank, the dependent grid and its DOF, then groups <<weight, DOF, grids...>> one after the other across continuation
\* lines; the optional "UM" list (pairs grid, DOF) and "ALPHA" each start in field 2 of a NEW line (the line before is padded with blanks)
PadToLine(L) == L \o Rep("", (8 - (Len(L) % 8)) % 8)
Rbe3Base(n) == <<"eid", "", "refg", "refc", "wt1", "c1">> \o [i \in 1..n |-> "g" \o ToString(i)] \o <<"wt2", "c2", "h1", "h2">>
Rbe3Um == <<"UM", "m1", "mc1", "m2", "mc2", "m3", "mc3">>
Rbe3Layout(n, um, alpha) == LET b0 == Rbe3Base(n)
                                b1 == IF um THEN PadToLine(b0) \o Rbe3Um ELSE b0
                            IN IF alpha THEN PadToLine(b1) \o <<"ALPHA", "alpha">> ELSE b1
LayoutLaws == Mode = "layouts" =>
   /\ \A n \in 1..MaxN : LET L == Rbe3Layout(n, TRUE, TRUE) IN
         \A i \in 1..Len(L) : L[i] \in {"UM", "ALPHA"} => i % 8 = 1                 \* keywords stand in field 2 of their line
   /\ \A n \in 1..MaxN : Len(Rbe2Layout(n)) = n + 3 /\ Len(Tabdmp1Layout(n)) = 2 * n + 9
   /\ \A n \in 1..MaxN : LET L == MpcLayout(n) IN
         /\ Len(SelectSeq(L, LAMBDA x : x # "")) = 3 * n + 1
         /\ \A i \in 1..Len(L) : L[i] = "" => (i % 8 = 0 \/ i % 8 = 1)           \* blanks only in fields 9 and 2 of the lines (name = field 1)
ExportLayouts == (Mode = "layouts" /\ Export) =>
   PrintT(<<"LAYOUT", q, [rbe2 |-> Rbe2Layout(q), mpc |-> MpcLayout(q), tabdmp1 |-> Tabdmp1Layout(q), conm2 |-> Conm2Layout,
                          tload1 |-> Tload1Layout, tload2 |-> Tload2Layout,
                          rbe3 |-> Rbe3Layout(q, FALSE, FALSE), rbe3um |-> Rbe3Layout(q, TRUE, FALSE), rbe3umalpha |-> Rbe3Layout(q, TRUE, TRUE),
                          rbe3alpha |-> Rbe3Layout(q, FALSE, TRUE)]>>)
ExportLists == (Mode = "lists" /\ Export) => PrintT(<<"IDS", Ids, Runs(Ids), TableLines(Len(Ids), 4), TableLines(Len(Ids), 2)>>)
ExportDmig == (Mode = "dmig" /\ Export) =>
   LET r == q[1][1] c == q[1][2] M == q[2] f == Form(M, r, c, q[3]) IN
   PrintT(<<"DMIG", r, c, q[3], f, [i \in 1..r |-> [j \in 1..c |-> M[<<i, j>>]]], Entries(M, r, c, f)>>)
=============================================================================
