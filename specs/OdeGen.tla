------------------------------ MODULE OdeGen ------------------------------
(***************************************************************************)
(* C08.  The step-at-a-time generator interface of the time-domain ODE      *)
(* solvers (SolveUnc real/complex/cdforces, SolveCDF, SolveExp2).           *)
(*                                                                          *)
(* The caller owns arrays d, v (columns 0..NT-1) that the generator updates *)
(* in place; the solver object also keeps the force array and - for the     *)
(* coupled-damping-as-force path - a hidden cache (dmpfrc1, i_last).        *)
(*                                                                          *)
(* Real-valued content is kept SYMBOLIC: column i holds a *term*            *)
(*      <<"ic">>                      initial conditions                    *)
(*      <<"zero">>                    never written (arrays start at zero)  *)
(*      <<"step", prev, f0, f1>>      one exact step from term `prev` under *)
(*                                    force bags f0 (old) and f1 (new)      *)
(* A force bag is a sequence of force ids whose sum is the force vector     *)
(* (the step is linear in f1, so an add-on simply extends the bag).  Every  *)
(* send carries a FRESH id (= the action number), which makes any use of a  *)
(* wrong/stale force visible in replay.                                     *)
(*                                                                          *)
(* Actions = the public calls:  SendStep(i), SendAddon, Finalize.           *)
(* Documented deviations are part of the model: columns beyond `cur` keep   *)
(* their stale terms after a jump back; column 0 cannot be re-sent.         *)
(***************************************************************************)
EXTENDS Integers, Sequences, FiniteSets, TLC

CONSTANTS NT,        \* number of time steps (columns 0..NT-1)
          MaxActs,   \* bound on the history length
          Export

VARIABLES cur,       \* index of the step most recently sent (the generator's `i`)
          n,         \* number of actions so far = next fresh force id
          force,     \* [0..NT-1 -> bag]   the solver's force array (ts._force)
          x,         \* [0..NT-1 -> term]  the caller-visible d/v columns
          cacheIdx,  \* cdforces: i_last
          cacheOf,   \* cdforces: the term whose damping force dmpfrc1 currently is
          cacheOK,   \* cdforces: every use of the cache so far was coherent
          hist,      \* the call history
          fin        \* finalize() was called

vars == <<cur, n, force, x, cacheIdx, cacheOf, cacheOK, hist, fin>>

Cols == 0..(NT - 1)

Step(prev, f0, f1) == <<"step", prev, f0, f1>>

Init == /\ cur = 0
        /\ n = 1                                     \* id 0 is the initial force F0
        /\ force = [i \in Cols |-> IF i = 0 THEN <<0>> ELSE <<>>]
        /\ x = [i \in Cols |-> IF i = 0 THEN <<"ic">> ELSE <<"zero">>]
        /\ cacheIdx = 0
        /\ cacheOf = <<"ic">>                        \* dmpfrc1 = bo @ V[:, 0]
        /\ cacheOK = TRUE
        /\ hist = <<>>
        /\ fin = FALSE

(* gen.send((i, F1)),  1 <= i <= cur + 1                                    *)
SendStep(i) ==
  /\ ~fin /\ Len(hist) < MaxActs
  /\ i \in 1..(NT - 1) /\ i <= cur + 1
  /\ cur' = i
  /\ n' = n + 1
  /\ force' = [force EXCEPT ![i] = <<n>>]
  /\ x' = [x EXCEPT ![i] = Step(x[i - 1], force[i - 1], <<n>>)]   \* later columns go stale
  \* cdforces: dmpfrc0 = dmpfrc1 if i_last == i-1 else bo @ v[:, i-1]
  /\ cacheOK' = (cacheOK /\ (cacheIdx = i - 1 => cacheOf = x[i - 1]))
  /\ cacheIdx' = i
  /\ cacheOf' = Step(x[i - 1], force[i - 1], <<n>>)
  /\ hist' = Append(hist, <<"send", i, n>>)
  /\ UNCHANGED fin

(* gen.send((-1, F_addon)): add to the current step; only after a first send *)
SendAddon ==
  /\ ~fin /\ Len(hist) < MaxActs
  /\ cur >= 1
  /\ n' = n + 1
  /\ force' = [force EXCEPT ![cur] = Append(@, n)]
  /\ x' = [x EXCEPT ![cur] = Step(@[2], @[3], Append(@[4], n))]
  /\ cacheOf' = Step(x[cur][2], x[cur][3], Append(x[cur][4], n))   \* dmpfrc1 += addon
  /\ hist' = Append(hist, <<"addon", n>>)
  /\ UNCHANGED <<cur, cacheIdx, cacheOK, fin>>

Finalize ==
  /\ ~fin
  /\ fin' = TRUE
  /\ hist' = Append(hist, <<"finalize">>)
  /\ UNCHANGED <<cur, n, force, x, cacheIdx, cacheOf, cacheOK>>

Next == (\E i \in 1..(NT - 1) : SendStep(i)) \/ SendAddon \/ Finalize

Spec == Init /\ [][Next]_vars

---------------------------------------------------------------------------
RECURSIVE Batch(_, _)
Batch(F, j) == IF j = 0 THEN <<"ic">> ELSE Step(Batch(F, j - 1), F[j - 1], F[j])

\* The arrays visible after each send hold the batch values of the force history in effect
\* for all completed steps.
Valid == \A j \in 0..cur : x[j] = Batch(force, j)

\* finalize() returns the batch solution of the final force history on columns 0..cur
FinalIsBatch == fin => \A j \in 0..cur : x[j] = Batch(force, j)

\* hidden cache of the coupled-damping-as-force generator is coherent whenever it is used,
\* and always describes the current column
CacheCoherent == cacheOK /\ cacheIdx = cur /\ cacheOf = x[cur]

\* an action never touches a column beyond the one it addresses (stale columns stay as they are)
OnlyCurrentColumn == [][\A j \in Cols : (j # cur' => x'[j] = x[j] /\ force'[j] = force[j])]_vars

\* column 0 (initial conditions) is never rewritten
Col0Fixed == x[0] = <<"ic">> /\ force[0] = <<0>>

TypeOK == cur \in Cols /\ cacheIdx \in Cols /\ n \in 1..(MaxActs + 1)

\* the meaning of the column <<"ic">>: the generator's first column under an initial-condition rule <<d0 given, v0 given, static_ic>> is the
\* batch solver's first column under the SAME rule (specs/OdeModel.tla IcRule: d0 wins over static_ic; v0 does not switch static_ic off)
IcRule == [zero |-> <<FALSE, FALSE, FALSE>>, d0v0 |-> <<TRUE, TRUE, FALSE>>, static |-> <<FALSE, FALSE, TRUE>>,
           v0static |-> <<FALSE, TRUE, TRUE>>, d0static |-> <<TRUE, FALSE, TRUE>>, d0only |-> <<TRUE, FALSE, FALSE>>,
           v0only |-> <<FALSE, TRUE, FALSE>>]
StaticApplies(rule) == IcRule[rule][3] /\ ~IcRule[rule][1]
IcLaws == /\ \A r \in DOMAIN IcRule : StaticApplies(r) <=> r \in {"static", "v0static"}
          /\ Cardinality(DOMAIN IcRule) = 7
ExportIc == (Export /\ hist = <<>>) => PrintT(<<"ICRULES", IcRule>>)
ExportOK == Export => PrintT(<<"GEN", hist, cur, force, x>>)

=============================================================================
