"""Common run bookkeeping: evidence file, VIOLATION / KNOWN-FINDING lines, replay files, exit codes.

exit 0 = property held on everything explored (known findings printed)
exit 1 = violation (VIOLATION line printed)
exit 2 = machinery failure (never reported as a violation)
"""
import hashlib
import json
import os
import sys
import time
import traceback

VERIF = os.path.dirname(os.path.dirname(os.path.abspath(__file__)))
REPO = os.environ.get("VERIF_REPO", "/repo")
EVID = os.environ.get("VERIF_EVID_DIR") or os.path.join(VERIF, "evidence")
REPLAY = os.path.join(EVID, "replay")


def setup_paths():
    """Make `import pyyeti` resolve to the working tree under VERIF_REPO with hooks enabled."""
    os.environ.setdefault("PYYETI_VERIF", "1")
    os.environ.setdefault("MPLBACKEND", "Agg")
    os.environ.setdefault("OMP_NUM_THREADS", "1")
    os.environ.setdefault("OPENBLAS_NUM_THREADS", "1")
    pydeps = os.path.join(VERIF, ".pydeps")
    for p in (pydeps, REPO):
        if p in sys.path:
            sys.path.remove(p)
    sys.path.insert(0, pydeps)
    sys.path.insert(0, REPO)
    sys.dont_write_bytecode = True


def jsonable(x):
    try:
        import numpy as np
    except Exception:  # pragma: no cover
        np = None
    if isinstance(x, dict):
        return {str(k): jsonable(v) for k, v in x.items()}
    if isinstance(x, (list, tuple, set, frozenset)):
        return [jsonable(v) for v in x]
    if np is not None:
        if isinstance(x, np.ndarray):
            return jsonable(x.tolist())
        if isinstance(x, np.generic):
            return jsonable(x.item())
    if isinstance(x, complex):
        return {"re": x.real, "im": x.imag}
    if isinstance(x, float):
        if x != x:
            return "NaN"
        if x in (float("inf"), float("-inf")):
            return "inf" if x > 0 else "-inf"
        return x
    if isinstance(x, (int, str, bool)) or x is None:
        return x
    if isinstance(x, bytes):
        return x.hex()
    return repr(x)


class Run:
    def __init__(self, pid, tier, seed, level):
        self.pid = pid
        self.tier = tier
        self.seed = seed
        self.level = level
        self.t0 = time.time()
        self.evaluations = 0
        self.distinct = set()
        self.samples = []
        self.states = 0
        self.transitions = 0
        self.traces = 0
        self.tlc_runs = []
        self.violations = []
        self.known_hits = {}
        self.assumptions = []
        self.rule = ""
        self.extra = {}
        self.exhaustive = False
        self.parts = {}
        kf = os.path.join(VERIF, "known_findings.json")
        self.known = []
        if os.path.exists(kf):
            with open(kf) as f:
                self.known = [k for k in json.load(f) if k.get("property") == pid]

    # ---- coverage accounting ------------------------------------------------
    def add_tlc(self, name, res, note=""):
        self.states += res.distinct
        self.transitions += res.generated
        self.tlc_runs.append({"model": name, "distinct_states": res.distinct, "states_generated": res.generated,
                              "depth": res.depth, "wall_s": round(res.wall, 2), "note": note,
                              "cmd": res.cmd})

    def case(self, key=None, nontrivial=True, part=None):
        self.evaluations += 1
        if part:
            self.parts[part] = self.parts.get(part, 0) + 1
        if nontrivial and key is not None:
            if not isinstance(key, (str, bytes)):
                key = json.dumps(jsonable(key), sort_keys=True)
            if isinstance(key, str):
                key = key.encode()
            self.distinct.add(hashlib.blake2b(key, digest_size=8).digest())

    def sample(self, obj, limit=6):
        if len(self.samples) < limit:
            self.samples.append(jsonable(obj))

    def trace_validated(self, n=1):
        self.traces += n

    # ---- verdicts -----------------------------------------------------------
    def violation(self, clause, case, tags=None):
        """Record a failing case.  `tags` describes the failing input for known-finding matching."""
        tags = tags or {}
        for k in self.known:
            if k.get("status") != "known":
                continue
            m = k.get("matcher", {})
            if m and all((tags.get(a) in b) if isinstance(b, list) else (tags.get(a) == b) for a, b in m.items()):
                hit = self.known_hits.setdefault(k["key"], {"what": k["what_fails"], "n": 0})
                hit["n"] += 1
                return False
        if os.environ.get("VERIF_DEBUG"):
            print("  [debug] violation: %s tags=%s" % (clause, json.dumps(jsonable(tags))))
        if len(self.violations) < 20:
            self.violations.append({"clause": clause, "case": jsonable(case), "tags": jsonable(tags)})
        else:
            self.violations.append(None)
        return True

    def deviation(self, spec, clause, case=None):
        """The code departs from a growth specification on behaviour that the PROPERTY does not speak about (layout choices,
        heuristics, naming).  Reported on its own channel: a SPEC-DEVIATION line and the evidence file, never a VIOLATION, and it
        does not change the exit code - a change of such behaviour leaves the property true."""
        if not hasattr(self, "deviations"):
            self.deviations = []
        if os.environ.get("VERIF_DEBUG"):
            print("  [debug] deviation from %s: %s" % (spec, clause))
        self.deviations.append({"spec": spec, "clause": clause, "case": jsonable(case) if len(self.deviations) < 10 else None})

    def finish(self):
        wall = time.time() - self.t0
        os.makedirs(EVID, exist_ok=True)
        nviol = len(self.violations)
        cov = {
            "evaluations": self.evaluations,
            "distinct_nontrivial": len(self.distinct),
            "rule": self.rule,
            "samples": self.samples or ["(no sample recorded)"],
            "states": self.states,
            "transitions": self.transitions,
            "traces_validated_against_impl": self.traces,
            "exhaustive": self.exhaustive,
            "tlc_runs": self.tlc_runs,
            "parts": self.parts,
            "explanation": self.rule,
        }
        cov.update(self.extra)
        devs = getattr(self, "deviations", [])
        if devs:
            cov["spec_deviations_outside_the_property"] = {"count": len(devs), "first": [d for d in devs[:10]]}
            seen = set()
            for d in devs:
                k = (d["spec"], d["clause"][:60])
                if k in seen or len(seen) >= 5:
                    continue
                seen.add(k)
                print("SPEC-DEVIATION: spec=%s %s" % (d["spec"], d["clause"]))
        ev = {
            "property_id": self.pid,
            "tier": self.tier,
            "seed": self.seed,
            "level": self.level,
            "coverage": jsonable(cov),
            "assumptions": self.assumptions,
            "wall_s": round(wall, 2),
            "violations": nviol,
            "known_findings_hit": self.known_hits,
            "repo": REPO,
        }
        with open(os.path.join(EVID, self.pid + ".json"), "w") as f:
            json.dump(ev, f, indent=1)
        for key, hit in self.known_hits.items():
            print("KNOWN-FINDING: property=%s %s [%s, %d case(s)]" % (self.pid, hit["what"], key, hit["n"]))
        if nviol:
            os.makedirs(REPLAY, exist_ok=True)
            first = None
            for n, v in enumerate([v for v in self.violations if v][:5]):
                path = os.path.join(REPLAY, "%s-%d.json" % (self.pid, n))
                with open(path, "w") as f:
                    json.dump({"property": self.pid, "seed": self.seed, "tier": self.tier, **v}, f, indent=1)
                first = first or path
                print("  failing clause: %s  tags=%s" % (v["clause"], json.dumps(v["tags"])))
                print("VIOLATION property=%s replay=%s" % (self.pid, path))
            print("%s: %d violation(s) in %d evaluations (%.1fs)" % (self.pid, nviol, self.evaluations, wall))
            return 1
        print("%s OK tier=%s: %d evaluations, %d distinct non-trivial, %d TLC states, %d traces/behaviours bound to code, %.1fs"
              % (self.pid, self.tier, self.evaluations, len(self.distinct), self.states, self.traces, wall))
        return 0


def main(pid, level, body):
    """body(run, replay_path_or_None) does the work."""
    import argparse

    ap = argparse.ArgumentParser()
    ap.add_argument("--tier", default=os.environ.get("VERIF_TIER", "quick"), choices=["quick", "thorough"])
    ap.add_argument("--replay", default=None)
    a = ap.parse_args(sys.argv[2:])
    seed = int(os.environ.get("VERIF_SEED", "0") or 0)
    setup_paths()
    run = Run(pid, a.tier, seed, level)
    try:
        body(run, a.replay)
        if a.replay is None and not os.environ.get("VERIF_NO_PURITY"):
            # cross-cutting growth (specs/Purity.tla): the public functions behind this property leave their arguments alone and give
            # the same answer for the same call, whatever was called in between
            try:
                from . import purity, purity_calls
                try:
                    calls = purity_calls.calls_for(pid, seed)
                except Exception as ex:
                    # the builders only make valid calls that succeed on the unchanged tree
                    run.violation("purity: setting up the representative calls raised %r" % ex, {}, {"part": "purity", "raised": True})
                    calls = []
                if calls:
                    purity.purity_part(run, pid, calls)
            except Exception:
                if not run.violations:
                    raise
                traceback.print_exc()
                print("%s: the purity part could not be completed; the violations found before it stand" % pid)
    except SystemExit:
        raise
    except BaseException:
        traceback.print_exc()
        print("%s: MACHINERY FAILURE (exit 2), not a verdict" % pid)
        sys.exit(2)
    sys.exit(run.finish())
