CONSTANTS
  LF = 4
  W = 2
  RMW = FALSE
  Export = TRUE
SPECIFICATION Spec
INVARIANT AtMostOnce
INVARIANT ExactlyOnce
INVARIANT Confluence
INVARIANT InFlight
INVARIANT ExportOK
PROPERTY OwnRowOnly
PROPERTY Terminates
