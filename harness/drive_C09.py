"""C09: parallel = serial, bit for bit, for every completion order.

specs/ParPool.tla: the pool (Dispatch / Complete / Collect) for LF tasks and W workers; TLC checks AtMostOnce,
ExactlyOnce, OwnRowOnly, Confluence (result = serial result for every interleaving), InFlight and termination, and
exports every reachable completion order.  Replay: hook H1 (srs._verif_hook, PYYETI_VERIF=1) is a turnstile that
makes each worker's shared-array writes wait for its turn in the TLC-chosen order; srs.srs / fdepsd.fdepsd are run
with parallel='yes', maxcpu=W under every exported order and compared bit-for-bit with parallel='no'.
Trace validation: the (pid, task, ticket) events recorded at the linearisation point are checked to be a behaviour
of the model (canonical worker renaming; membership in the exported language), for forced and natural runs."""
import ctypes
import itertools
import json
import multiprocessing as mp
import os
import random
import time

from . import tlc
from .runner import main, Run


class Turnstile:
    def __init__(self, LF, order=None, timeout=30.0):
        self.LF = LF
        self.turn = mp.Value(ctypes.c_long, 0)
        self.log = mp.Array(ctypes.c_long, 2 * LF * 4)   # room for duplicated tasks
        self.pos = mp.Array(ctypes.c_long, [-1] * LF)
        self.failed = mp.Value(ctypes.c_long, 0)
        if order is not None:
            for t, j in enumerate(order):
                self.pos[j] = t
        self.forced = order is not None
        self.timeout = timeout

    def __call__(self, ev, j):
        if ev == "pre":
            if self.forced:
                t0 = time.time()
                while self.turn.value != self.pos[j]:
                    if time.time() - t0 > self.timeout:
                        self.failed.value = 1
                        return
                    time.sleep(0.0001)
        else:
            with self.turn.get_lock():
                k = self.turn.value
                if 2 * k + 1 < len(self.log):
                    self.log[2 * k] = os.getpid()
                    self.log[2 * k + 1] = j
                self.turn.value = k + 1

    def events(self):
        n = self.turn.value
        return [(self.log[2 * k], self.log[2 * k + 1]) for k in range(min(n, len(self.log) // 2))]


def canon(events):
    """rename workers by order of first completion"""
    ids = {}
    out = []
    for w, j in events:
        if w not in ids:
            ids[w] = len(ids) + 1
        out.append((j, ids[w]))
    return tuple(out)


def model(run, cfg):
    res = tlc.run("ParPool", cfg, workers=8, timeout=900, heap="6g")
    if res.violation:
        run.add_tlc(cfg, res)
        run.violation("TLC: %s on the pool model (%s)" % (res.violation, cfg), {"tlc": res.error_text()}, {"where": "model"})
        return None, None
    run.add_tlc(cfg, res, "AtMostOnce ExactlyOnce Confluence InFlight; PROPERTY OwnRowOnly, Terminates (WF)")
    lang = set()
    orders = set()
    for (done, *_rep) in res.tagged("ORDER"):
        lang.add(canon([(w, j) for j, w in done]))
        orders.add(tuple(j for j, w in done))
    return sorted(orders), lang


STYPES = ["absacce", "relacce", "relvelo", "reldisp", "pvelo", "pacce"]
ICS = ["zero", "shift", "mshift", "steady"]
TIMES = ["primary", "total", "residual"]


def srs_cases():
    for stype, ic, tm, gr in itertools.product(STYPES, ICS, TIMES, (False, True)):
        yield dict(stype=stype, ic=ic, time=tm, getresp=gr)


def run_srs(np, srsmod, sig, sr, freq, opts, W, order, natural=False):
    ts = Turnstile(len(freq), None if natural else order)
    srsmod._verif_hook = ts
    try:
        out = srsmod.srs(sig, sr, freq, 12.5, parallel="yes", maxcpu=W, peak=opts.get("peak", "abs"), **{k: v for k, v in opts.items() if k != "peak"})
    except Exception as ex:  # an exception of the code under test is a verdict, not a machinery failure
        if ts.failed.value:
            raise
        out = ("EXC", repr(ex))
    finally:
        srsmod._verif_hook = None
    return out, ts


def flat(np, out):
    """bytes of every output"""
    if isinstance(out, tuple) and out and isinstance(out[0], str) and out[0] == "EXC":
        return [("exception " + out[1], b"EXC")]
    if isinstance(out, tuple):
        sh, resp = out
        return [("sh", np.asarray(sh).tobytes()), ("hist", np.asarray(resp["hist"]).tobytes()),
                ("t", np.asarray(resp["t"]).tobytes()), ("sr", repr(resp["sr"]).encode())]
    return [("sh", np.asarray(out).tobytes())]


def flat_fde(np, out):
    items = []
    for k, v in sorted(vars(out).items()):
        if hasattr(v, "values") and hasattr(v, "columns"):
            items.append((k, np.asarray(v.values).tobytes() + repr(list(v.columns)).encode()))
        elif isinstance(v, np.ndarray):
            items.append((k, v.tobytes()))
        else:
            items.append((k, repr(v).encode()))
    return items


def check_trace(run, ts, order, W, lang, what, natural=False, out=None):
    if isinstance(out, tuple) and out and isinstance(out[0], str) and out[0] == "EXC":
        return True   # reported by the output comparison
    if ts.failed.value:
        raise RuntimeError("turnstile time-out while forcing order %r (%s): machinery failure" % (order, what))
    ev = ts.events()
    tasks = [j for _, j in ev]
    if not natural and tuple(tasks) != tuple(order):
        run.violation("recorded completion order equals the forced (model) order", {"what": what, "order": order, "recorded": tasks},
                      {"part": "trace"})
        return False
    c = canon(ev)
    if c not in lang:
        run.violation("recorded worker events are a behaviour of ParPool (exactly-once, <= W workers, feasible order)",
                      {"what": what, "events(task,worker)": c, "W": W}, {"part": "trace"})
        return False
    run.trace_validated()
    return True


def body(run: Run, replay):
    import numpy as np
    from . import repo_build
    repo_build.install_c_rain()
    import warnings
    warnings.simplefilter("ignore")
    from pyyeti import srs as srsmod, fdepsd as fdemod

    if not getattr(srsmod, "_VERIF", False):
        raise RuntimeError("hook H1 not available (PYYETI_VERIF=1 and the hook commit are required)")
    run.rule = ("TLC enumerates every interleaving of Dispatch/Complete for LF tasks x W workers and exports every feasible completion "
                "order; each is FORCED on the real pool through hook H1 and srs (6 stype x 4 ic x 3 time x getresp) / fdepsd outputs "
                "are compared bit-for-bit with parallel='no'; recorded (pid, task) events must be a behaviour of the model; frequency vectors "
                "given as float32 / int64 (spec: Share normalises the inputs, SerialRep). "
                "distinct non-trivial = (function, options, completion order) with a non-identity order")
    run.assumptions = ["fork start method (Linux default); memory visibility of RawArray writes after Pool exit is assumed",
                       "worker counts above 4 are not forced exhaustively", "hook H1 brackets the shared-array writes of each task"]
    rng = np.random.default_rng(run.seed)
    rnd = random.Random(run.seed)
    sr = 200.0
    sig = rng.standard_normal((60, 2))
    sig[:, 1] += 0.5
    quick = run.tier == "quick"
    plans = [("MC_ParPool_q1.cfg", 4, 2), ("MC_ParPool_q2.cfg", 4, 3)]
    if not quick:
        plans.append(("MC_ParPool_t1.cfg", 5, 3))
    cases = list(srs_cases())
    for cfg, LF, W in plans:
        orders, lang = model(run, cfg)
        if orders is None:
            return
        freq = np.array([5.0, 11.0, 0.0, 23.0, 37.0, 52.0])[:LF] if LF <= 6 else np.linspace(1, 60, LF)
        # tasks with IDENTICAL inputs (repeated frequencies, adjacent and not): RowVal(j) may coincide for different j
        freq_rep = np.array([11.0, 23.0, 23.0, 11.0, 37.0, 37.0])[:LF]
        serial = {}
        njobs = 0
        for ci, opts in enumerate(cases):
            if quick:
                pick = [orders[(ci * 2 + k) % len(orders)] for k in range(2 if W == 2 else 1)]
            else:
                pick = orders if LF <= 4 else rnd.sample(orders, 12)
            key = json.dumps(opts, sort_keys=True)
            if ci % 3 == 2:
                freq, freq_rep = freq_rep, freq     # every third option point runs on the repeated-frequency vector
            ref = srsmod.srs(sig, sr, freq, 12.5, parallel="no", peak="abs", **opts)
            refb = flat(np, ref)
            for order in pick:
                out, ts = run_srs(np, srsmod, sig, sr, freq, opts, W, order)
                njobs += 1
                nontriv = tuple(order) != tuple(range(LF))
                run.case(("srs", key, order, W), nontrivial=nontriv, part="srs W=%d LF=%d" % (W, LF))
                if not check_trace(run, ts, order, W, lang, "srs %s" % key, out=out):
                    return
                for (nm, a), (_, b) in zip(flat(np, out), refb):
                    if a != b:
                        run.violation("srs parallel output `%s` is bit-identical to the serial result" % nm,
                                      {"fn": "srs", "opts": opts, "order": order, "W": W, "LF": LF}, {"fn": "srs", "stype": opts["stype"]})
                        break
                if len(run.violations) >= 5:
                    return
            if ci % 3 == 2:
                freq, freq_rep = freq_rep, freq
            if ci < 2:
                run.sample({"fn": "srs", "opts": opts, "W": W, "forced_completion_orders": pick})
        # other peak statistics and 1-D packaging on a few orders
        for peak in ("pos", "neg", "rms", "poss", "negs"):
            for order in orders[:: max(1, len(orders) // 3)]:
                opts = dict(stype="absacce", ic="zero", time="primary", getresp=False, peak=peak)
                ref = srsmod.srs(sig[:, 0], sr, freq, 12.5, parallel="no", **opts)
                out, ts = run_srs(np, srsmod, sig[:, 0], sr, freq, opts, W, order)
                run.case(("srs-peak", peak, order, W), part="srs peak/1-D")
                if not check_trace(run, ts, order, W, lang, "srs peak"):
                    return
                if np.asarray(out).tobytes() != np.asarray(ref).tobytes():
                    run.violation("srs parallel output (peak=%s, 1-D) is bit-identical to serial" % peak,
                                  {"fn": "srs", "opts": opts, "order": order, "W": W}, {"fn": "srs"})
        # natural (unforced) runs validated against the model
        for k in range(6 if quick else 40):
            opts = cases[(7 * k) % len(cases)]
            out, ts = run_srs(np, srsmod, sig, sr, freq, opts, W, None, natural=True)
            run.case(("srs-natural", k, W), nontrivial=False, part="natural runs")
            if not check_trace(run, ts, None, W, lang, "natural srs", natural=True):
                return
            ref = srsmod.srs(sig, sr, freq, 12.5, parallel="no", peak="abs", **opts)
            if [a for _, a in flat(np, out)] != [b for _, b in flat(np, ref)]:
                run.violation("natural parallel run equals serial", {"fn": "srs", "opts": opts, "W": W}, {"fn": "srs"})
    # ---- fdepsd (read-modify-write rows) -------------------------------------------------------
    plans = [("MC_ParPool_q3.cfg", 3, 1), ("MC_ParPool_q1.cfg", 4, 2)] if quick else [("MC_ParPool_q1.cfg", 4, 2), ("MC_ParPool_q2.cfg", 4, 3), ("MC_ParPool_t1.cfg", 5, 3)]
    fsig = rng.standard_normal(600) + 0.2 * np.sin(np.arange(600) * 0.3)
    for cfg, LF, W in plans:
        orders, lang = model(run, cfg)
        if orders is None:
            return
        for respt, freq in (("absacce", np.array([8.0, 14.0, 22.0, 31.0, 40.0])[:LF]), ("pvelo", np.array([8.0, 14.0, 22.0, 31.0, 40.0])[:LF]),
                            ("absacce", np.array([14.0, 22.0, 22.0, 14.0, 31.0])[:LF]), ("pvelo", np.array([22.0, 22.0, 31.0, 31.0, 8.0])[:LF])):
            kw = dict(resp=respt, nbins=12, hpfilter=None, winends=None, rolloff="none", T0=20.0)
            ref = fdemod.fdepsd(fsig, 200.0, freq, 15.0, parallel="no", **kw)
            refb = flat_fde(np, ref)
            pick = orders if (not quick or len(orders) <= 8) else rnd.sample(orders, 8)
            for order in pick:
                ts = Turnstile(LF, order)
                srsmod._verif_hook = ts
                try:
                    out = fdemod.fdepsd(fsig, 200.0, freq, 15.0, parallel="yes", maxcpu=W, **kw)
                except Exception as ex:
                    if ts.failed.value:
                        raise
                    run.violation("fdepsd(parallel='yes') raised %r" % ex, {"fn": "fdepsd", "resp": respt, "order": order, "W": W}, {"fn": "fdepsd"})
                    return
                finally:
                    srsmod._verif_hook = None
                run.case(("fdepsd", respt, order, W), nontrivial=tuple(order) != tuple(range(LF)), part="fdepsd W=%d LF=%d" % (W, LF))
                if not check_trace(run, ts, order, W, lang, "fdepsd"):
                    return
                for (nm, a), (nm2, b) in zip(flat_fde(np, out), refb):
                    if nm in ("parallel", "ncpu"):  # informational members, not results
                        continue
                    if a != b:
                        run.violation("fdepsd parallel output `%s` is bit-identical to the serial result" % nm,
                                      {"fn": "fdepsd", "resp": respt, "order": order, "W": W, "LF": LF}, {"fn": "fdepsd"})
                        break
            run.sample({"fn": "fdepsd", "resp": respt, "W": W, "LF": LF, "orders_forced": len(pick)})
    # ---- representation of the inputs (spec: Share normalises to binary64; SerialRep) ---------------
    for rep, dt in (("f4", np.float32), ("i8", np.int64)):
        cfg = "MC_ParPool_q3_%s.cfg" % rep
        orders, lang = model(run, cfg)
        if orders is None:
            return
        LF, W = 3, 1
        freqr = np.array([8, 14, 22], dtype=dt)
        for ci, opts in enumerate(cases):
            if ci % (12 if quick else 3):
                continue
            ref = srsmod.srs(sig, sr, freqr, 12.5, parallel="no", peak="abs", **opts)
            for W_, order in ((1, orders[0]), (2, None)):
                out, ts = run_srs(np, srsmod, sig, sr, freqr, opts, W_, order, natural=order is None)
                run.case(("srs-rep", rep, json.dumps(opts, sort_keys=True), W_), part="input representation %s" % rep)
                if order is not None and not check_trace(run, ts, order, W_, lang, "srs (freq as %s)" % rep, out=out):
                    return
                for (nm, a), (_, b) in zip(flat(np, out), flat(np, ref)):
                    if a != b:
                        run.violation("srs parallel output `%s` is bit-identical to the serial result when the frequency vector is %s" % (nm, np.dtype(dt).name),
                                      {"fn": "srs", "opts": opts, "W": W_, "freq_dtype": np.dtype(dt).name}, {"fn": "srs", "rep": rep})
                        break
        for respt in ("absacce", "pvelo"):
            kw = dict(resp=respt, nbins=12, hpfilter=None, winends=None, rolloff="none", T0=20.0)
            ref = fdemod.fdepsd(fsig, 200.0, freqr, 15.0, parallel="no", **kw)
            out = fdemod.fdepsd(fsig, 200.0, freqr, 15.0, parallel="yes", maxcpu=2, **kw)
            run.case(("fdepsd-rep", rep, respt), part="input representation %s" % rep)
            for (nm, a), (nm2, b) in zip(flat_fde(np, out), flat_fde(np, ref)):
                if nm in ("parallel", "ncpu"):
                    continue
                if a != b:
                    run.violation("fdepsd parallel output `%s` is bit-identical to the serial result when the frequency vector is %s" % (nm, np.dtype(dt).name),
                                  {"fn": "fdepsd", "resp": respt, "freq_dtype": np.dtype(dt).name}, {"fn": "fdepsd", "rep": rep})
                    break
    # ---- representation of the SIGNAL: integer and single-precision records (Share normalises them too) ---------------------
    for dt in (np.float32, np.int64, np.int16):
        sigd = (sig * 40).astype(dt)
        for ci, opts in enumerate(cases):
            if ci % (16 if quick else 4):
                continue
            o2 = dict(opts, rolloff="none")
            freqs_ = np.array([8.0, 14.0, 22.0])
            ref = srsmod.srs(sigd, sr, freqs_, 12.5, parallel="no", peak="abs", **o2)
            out, ts = run_srs(np, srsmod, sigd, sr, freqs_, o2, 2, None, natural=True)
            run.case(("srs-sigrep", np.dtype(dt).name, json.dumps(opts, sort_keys=True)), part="signal representation %s" % np.dtype(dt).name)
            for (nm, a), (_, b) in zip(flat(np, out), flat(np, ref)):
                if a != b:
                    run.violation("srs parallel output `%s` is bit-identical to the serial result when the signal is %s" % (nm, np.dtype(dt).name),
                                  {"fn": "srs", "opts": opts, "signal_dtype": np.dtype(dt).name}, {"fn": "srs", "rep": "sig-" + np.dtype(dt).name})
                    break
        kw = dict(resp="absacce", nbins=12, hpfilter=None, winends=None, rolloff="none", T0=20.0, detrend=False) if dt != np.int16 else None
        if kw:
            fs_ = (fsig * 40).astype(dt)
            try:
                ref = fdemod.fdepsd(fs_, 200.0, np.array([8.0, 14.0, 22.0]), 15.0, parallel="no", **kw)
                out = fdemod.fdepsd(fs_, 200.0, np.array([8.0, 14.0, 22.0]), 15.0, parallel="yes", maxcpu=2, **kw)
                bad_ = [nm for (nm, a), (nm2, b) in zip(flat_fde(np, out), flat_fde(np, ref)) if nm not in ("parallel", "ncpu") and a != b]
            except Exception as ex:
                bad_ = ["raised %r" % ex]
            run.case(("fdepsd-sigrep", np.dtype(dt).name), part="signal representation %s" % np.dtype(dt).name)
            if bad_:
                run.violation("fdepsd parallel output `%s` is bit-identical to the serial result when the signal is %s" % (bad_[0], np.dtype(dt).name),
                              {"fn": "fdepsd", "signal_dtype": np.dtype(dt).name}, {"fn": "fdepsd", "rep": "sig-" + np.dtype(dt).name})
    # ---- the decision whether to use a pool and with how many workers (spec Decide / DecideLaws) ---------------------------
    res = tlc.run("ParPool", "MC_ParPool_q3.cfg", workers=4, timeout=300)
    table = res.tagged("DECIDE")
    if res.violation or not table:
        run.violation("TLC: %s on the pool model (decision table)" % (res.violation or "no DECIDE export"), {"tlc": res.error_text()}, {"where": "model"})
        return
    import multiprocessing as _mp
    real_count = _mp.cpu_count
    real_pool = _mp.Pool
    asked = []

    def pool_spy(*a, **k):          # what srs asks of multiprocessing: the number of worker processes
        asked.append(k.get("processes", a[0] if a else None))
        return real_pool(*a, **k)
    rows = sorted(table[0][0], key=repr)
    pick = random.Random(run.seed + 31)
    sigs = {sz: rng.standard_normal(sz) for sz in (50000, 50001)}
    try:
        for g, d in rows:
            par, nf, size, gr, ncpu, mx = g
            if ncpu > real_count() or (quick and pick.random() > 0.2):
                continue
            _mp.cpu_count = lambda n_=ncpu: n_          # srs asks multiprocessing for the processor count
            _mp.Pool = pool_spy
            del asked[:]
            freqd = np.array([4.0, 9.0, 21.0])[:nf]
            ts = Turnstile(nf, None)
            srsmod._verif_hook = ts
            try:
                out = srsmod.srs(sigs[size], 1000.0, freqd, 15.0, parallel=par, maxcpu=(mx or None), getresp=gr)
            except Exception as ex:
                run.violation("srs(parallel=%r, maxcpu=%r) raised %r" % (par, mx or None, ex), {"grid": list(g)}, {"fn": "srs", "part": "decide"})
                continue
            finally:
                srsmod._verif_hook = None
            ev = ts.events()
            pids = {p_ for p_, _ in ev}
            run.case(("decide",) + tuple(g), part="pool decision table")
            msg = None
            if d["mode"] == "no" and ev:
                msg = "worker events were recorded although the decision table says serial"
            elif d["mode"] == "yes" and (sorted(j for _, j in ev) != list(range(nf)) or os.getpid() in pids):
                msg = "the tasks were not all run by pool workers although the decision table says parallel (events %r)" % (ev,)
            elif d["mode"] == "yes" and asked != [d["w"]]:
                msg = "a pool of %r worker processes was requested, the decision table says %d" % (asked, d["w"])
            elif d["mode"] == "no" and asked:
                msg = "a pool was created although the decision table says serial"
            elif d["mode"] == "yes" and len(pids) > d["w"]:
                msg = "%d worker processes took tasks, the decision table allows %d" % (len(pids), d["w"])
            what = "srs(parallel=%r, %d frequencies, %d values, getresp=%s, %d processors, maxcpu=%r)" % (par, nf, size, gr, ncpu, mx or None)
            if msg:
                # whether a pool is used and how large it is are heuristics: the property (parallel = serial, bit for bit) does not
                # depend on them, so a different choice is a deviation from the growth spec, not a violation
                run.deviation("ParPool.Decide", "%s: %s" % (what, msg), {"grid": list(g), "decision": d})
            ref = srsmod.srs(sigs[size], 1000.0, freqd, 15.0, parallel="no", getresp=gr)
            if [a for _, a in flat(np, out)] != [b for _, b in flat(np, ref)]:
                run.violation("%s: the result differs from the serial one" % what, {"grid": list(g), "decision": d}, {"fn": "srs", "part": "decide"})
            run.trace_validated()
    finally:
        _mp.cpu_count = real_count
        _mp.Pool = real_pool
    if not quick:
        orders, lang = model(run, "MC_ParPool_t2.cfg")   # LF=6, W=4: model only + natural runs
        if orders is not None:
            freq = np.array([5.0, 11.0, 0.0, 23.0, 37.0, 52.0])
            for k in range(60):
                opts = cases[(5 * k) % len(cases)]
                out, ts = run_srs(np, srsmod, sig, sr, freq, opts, 4, None, natural=True)
                run.case(("srs-natural6", k), nontrivial=False, part="natural runs")
                if not check_trace(run, ts, None, 4, lang, "natural srs LF=6 W=4", natural=True):
                    return


if __name__ == "__main__":
    main("C09", "model_checking", body)
