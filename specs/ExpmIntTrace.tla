---------------------------- MODULE ExpmIntTrace ----------------------------
(***************************************************************************)
(* Trace validation for C07: one line per expmint / _expm_SS / getEPQ call *)
(* recorded from the real code (harness wrappers around the Pade helper    *)
(* methods; eta / ell classes computed from the helper after the call).    *)
(*   kind "pade":  the Pade order taken = PadeOf(classes); with order 13   *)
(*                 the scaling count satisfies ScaleOK; the I2 formula is  *)
(*                 the Pade one below order 13.                            *)
(*   kind "route": getEPQ called getEPQ1 iff ||A h||_1 <= the switch.      *)
(***************************************************************************)
EXTENDS ExpmInt, Json, IOUtils

VARIABLE q
Trace == ndJsonDeserialize(IOEnv.TRACE_FILE)
TInit == q \in 1..Len(Trace) /\ cls = 0 /\ pc = "trace" /\ pade = 0 /\ s = 0 /\ sq = 0 /\ spanE = 0 /\ spanI = 0 /\ i2f = "none" /\ log = <<>>
TNext == UNCHANGED <<q, vars>>

\* eta5q = floor(1024 eta_5), theta13q = 1024 * 4.25 = 4352 : scaled norm within theta_13 after sbase halvings, and sbase minimal
ScaleOK(t) == LET sb == t.s - t.l13 IN
   /\ sb >= 0 /\ t.l13 >= 0
   /\ t.eta5q <= 4352 * Pow2(sb) + 1
   /\ (sb > 0 => t.eta5q + 1 >= 4352 * Pow2(sb - 1))
PadeLine(t) ==
   /\ t.pade = PadeOf([e1 |-> t.e1, e2 |-> t.e2, e37 |-> t.e37, e39 |-> t.e39, l3 |-> t.l3, l5 |-> t.l5, l7 |-> t.l7, l9 |-> t.l9])
   /\ (t.pade = 13 => ScaleOK(t)) /\ (t.pade # 13 => t.s = 0)
   /\ (t.i2f # "none" => ((t.pade <= 9) <=> (t.i2f = "pade")))
RouteLine(t) == t.route = (IF t.le THEN "getEPQ1" ELSE "getEPQ2")
LineOK == LET t == Trace[q] IN
   CASE t.kind = "pade" -> PadeLine(t) [] t.kind = "route" -> RouteLine(t) [] OTHER -> FALSE
Report == LineOK \/ PrintT(<<"REJECT", q>>)
=============================================================================
