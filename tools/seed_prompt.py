#!/usr/bin/env python3
"""prints the prompt given to a fresh sub-agent that seeds a property-breaking change (nothing from /verif but the property text)"""
import json, sys
pid = sys.argv[1]
wt = "/tmp/seed_%s" % pid
out = "/tmp/seedout_%s" % pid
p = [json.loads(l) for l in open("/verif/properties.jsonl") if json.loads(l)["id"] == pid][0]
print(f"""You are helping to evaluate a verification effort for the Python library pyYeti (structural dynamics toolkit).
You have your own scratch git worktree of the library at {wt} (a checkout of the current HEAD). Work ONLY inside {wt} and {out} (create it). Do NOT read or touch /repo or /verif, and do not look at any other /tmp/seed* directories.

Here is a semantic property that the library is supposed to satisfy:

TITLE: {p['title']}
STATEMENT: {p['statement']}
QUANTIFIED OVER: {p['quantifier']['text']}
RELEVANT FILES: {', '.join(p['anchors']['files'])}

Your task: produce TWO independent, realistic code changes (bugs) to the library, each of which BREAKS this property while the library still imports and the existing test suite still passes. Think of the kind of regression a maintainer could plausibly introduce during a refactor or an optimisation (an off-by-one in a rarely used branch, a cache not invalidated, a wrong index in one of several near-duplicate code paths, a boundary comparison, a sign or factor in an option combination the tests do not cover, two sites that each look fine alone...). Prefer changes that need something SPECIFIC to manifest - a particular multi-step sequence of operations, an unusual input or option combination, a tie or boundary value - and that ordinary use or the existing tests would NOT expose at once. Do not make changes that merely crash on every call, and do not edit the tests.

For each change k in (1, 2):
 1. Make the change in {wt} (pure source edits under pyyeti/; keep it small).
 2. Confirm the existing suite still passes with it:  cd {wt} && /venv/bin/python -m pytest -q -p no:cacheprovider -x pyyeti/tests 2>&1 | tail -5   (takes about 2 minutes; a handful of tests fail even WITHOUT any change because of the numpy version - compare against the unmodified tree: the set of failing tests must be unchanged. You can get the baseline failures by running the suite once before changing anything.)
    NOTE: PYTHONPATH must make `import pyyeti` resolve to your worktree: run python as  `cd {wt} && PYTHONPATH={wt} /venv/bin/python ...`  and check `pyyeti.__file__`.
    NOTE: the compiled extension pyyeti/rainflow/c_rain*.so is not present in the worktree; if you change c_rain.c you must build it yourself (gcc -O2 -shared -fPIC -I$(/venv/bin/python -c 'import sysconfig;print(sysconfig.get_paths()["include"])') -I$(/venv/bin/python -c 'import numpy;print(numpy.get_include())') pyyeti/rainflow/c_rain.c -o pyyeti/rainflow/c_rain$(/venv/bin/python -c 'import sysconfig;print(sysconfig.get_config_var("EXT_SUFFIX"))')) for your own testing, but the patch must contain source changes only.
 3. Write a small demonstration program {out}/demo_k.py that uses only the public API of pyyeti, exits with status 1 (printing what is wrong) when run against the changed tree and exits 0 against the unchanged tree. It is run as: PYTHONPATH=<tree> /venv/bin/python demo_k.py
 4. Save the change as {out}/patch_k.diff  (cd {wt} && git diff > {out}/patch_k.diff), then restore the tree (git checkout -- .) before starting the next change.
 5. Write {out}/notes_k.md: which clause of the property it breaks, and exactly what is needed for it to manifest.

When done, reply with a short summary of the two changes (files, what they break, what they need to manifest) and the result of running each demo against the changed and the unchanged tree. No network is available. Be efficient: do not explore beyond the relevant files.""")
