"""C08: generator = batch for any send history.
TLC (specs/OdeGen.tla) enumerates every history of send(i)/send(-1)/finalize up to the bound, checks the
term-level invariants (Valid, FinalIsBatch, CacheCoherent, OnlyCurrentColumn) and exports, for every reachable
state, the symbolic content of every column.  The driver replays each maximal history into the real
generator of each solver configuration and compares - after EVERY action - ts._force, d and v (all columns,
including the stale ones the spec predicts) with the interpretation of the spec terms, where
Step(prev, f0, f1) is interpreted by the *batch* solver's own two-sample tsolve started at prev."""
import json
import os
import multiprocessing as mp

from . import tlc
from .runner import main, Run, setup_paths

RTOL = 1e-9


def fz(t):
    if isinstance(t, list):
        return tuple(fz(u) for u in t)
    return t


def configs(tier, icrules=None):
    icrules = icrules or {"zero": [False, False, False], "d0v0": [True, True, False], "static": [False, False, True]}
    out = []
    for solver, kind in (("SolveUnc", "diag"), ("SolveUnc", "coupled"), ("SolveUnc_cdf", "cdamp"),
                         ("SolveCDF", "cdamp"), ("SolveExp2", "coupled"), ("SolveExp2", "diag"),
                         ("SolveCDF", "diag")):
        for order in (1, 0):
            for (nrb, nel, nrf) in ((0, 3, 0), (2, 3, 2), (1, 2, 0), (0, 2, 1)):
                for mform in ("none", "vec", "mat") + (("matns",) if kind == "coupled" else ()):      # matns: full and not symmetric
                    for ic in sorted(icrules):
                        out.append(dict(solver=solver, kind=kind, order=order, nrb=nrb, nel=nel, nrf=nrf,
                                        mform=mform, ic=ic, icrule=[bool(x) for x in icrules[ic]]))
    return out


def build(cfg, seed):
    import numpy as np
    from pyyeti import ode
    from . import odesys

    rng = np.random.default_rng(seed)
    s = odesys.make_system(rng, cfg["kind"], cfg["nrb"], cfg["nel"], cfg["nrf"], cfg["mform"])
    rb = None if rng.random() < 0.5 else s["rb"]
    rf = s["rf"] if cfg["nrf"] else None
    args = (s["m"], s["b"], s["k"], s["h"])

    def mk():
        if cfg["solver"] == "SolveUnc":
            return ode.SolveUnc(*args, rb=rb, rf=rf, order=cfg["order"])
        if cfg["solver"] == "SolveUnc_cdf":
            return ode.SolveUnc(*args, rb=rb, rf=rf, order=cfg["order"], cd_as_force=True)
        if cfg["solver"] == "SolveCDF":
            return ode.SolveCDF(*args, rb=rb, rf=rf, order=cfg["order"])
        return ode.SolveExp2(*args, rb=rb, rf=rf, order=cfg["order"])

    n = s["n"]
    fvec = rng.standard_normal((n, 64)) * rng.uniform(0.5, 2.0, (n, 1))
    d0 = v0 = None
    static_ic = False
    # the rule <<d0 given, v0 given, static_ic>> comes from the spec (OdeGen.tla IcRule)
    d0given, v0given, static_ic = cfg.get("icrule") or {"zero": (False, False, False), "d0v0": (True, True, False), "static": (False, False, True)}[cfg["ic"]]
    dd, vv = rng.standard_normal(n) * 1e-3, rng.standard_normal(n) * 1e-1
    d0 = dd if d0given else None
    v0 = vv if v0given else None
    return mk, fvec, d0, v0, static_ic, n


class Interp:
    """interprets spec terms with the batch solver"""

    def __init__(self, batch, fvec, d0, v0, static_ic, n):
        import numpy as np
        self.np = np
        self.batch = batch
        self.fvec = fvec
        self.memo = {}
        self.n = n
        self.d0, self.v0, self.static_ic = d0, v0, static_ic

    def F(self, bag):
        f = self.np.zeros(self.n)
        for i, fid in enumerate(bag):
            f = self.fvec[:, fid].copy() if i == 0 else f + self.fvec[:, fid]
        return f

    def term(self, t):
        t = fz(t)
        r = self.memo.get(t)
        if r is not None:
            return r
        np = self.np
        if t[0] == "ic":
            F0 = self.F((0,))
            sol = self.batch.tsolve(np.column_stack([F0, F0]), self.d0, self.v0, self.static_ic)
            r = (sol.d[:, 0].copy(), sol.v[:, 0].copy())
        elif t[0] == "zero":
            r = (np.zeros(self.n), np.zeros(self.n))
        else:
            pd, pv = self.term(t[1])
            sol = self.batch.tsolve(np.column_stack([self.F(t[2]), self.F(t[3])]), pd, pv)
            r = (sol.d[:, 1].copy(), sol.v[:, 1].copy())
        self.memo[t] = r
        return r


def replay_history(cfg, seed, hist, states, check_f2x=False):
    """Replay one history; returns None or a failure dict."""
    import numpy as np

    mk, fvec, d0, v0, static_ic, n = build(cfg, seed)
    ts = mk()
    batch = mk()
    interp = Interp(batch, fvec, d0, v0, static_ic, n)
    NT = len(states[()]["x"])
    H = ts.h
    gen, d, v = ts.generator(NT, fvec[:, 0].copy(), d0, v0, static_ic)

    devs = []

    def compare(prefix, where):
        st = states[prefix]
        expd = np.zeros((n, NT))
        expv = np.zeros((n, NT))
        expf = np.zeros((n, NT))
        for j in range(NT):
            expd[:, j], expv[:, j] = interp.term(st["x"][j])
            expf[:, j] = interp.F(st["force"][j])
        # the stored force history is a private member: compared when present, and a difference is a deviation from the spec's
        # `force` variable (reported by the caller), not a violation - the property is about d, v and the finalized result
        fnow = getattr(ts, "_force", None)
        if fnow is not None and not np.array_equal(fnow, expf) and not devs:
            devs.append("ts._force differs from the force history in effect (spec `force`) %s" % where)
        # scales guard against exact cancellation (e.g. static ic + constant force: v == 0 up to round-off)
        sd = max(np.abs(expd).max(), H * np.abs(expv).max(), 1e-300)
        sv = max(np.abs(expv).max(), np.abs(expd).max() / H, 1e-300)
        ed = np.abs(d - expd).max() / sd
        evv = np.abs(v - expv).max() / sv
        if not (ed <= RTOL and evv <= RTOL):
            bad = np.argwhere((np.abs(d - expd) > RTOL * sd) | (np.abs(v - expv) > RTOL * sv))
            cols = sorted(set(int(c) for c in bad[:, 1]))
            stale = [c for c in cols if c > st["cur"]]
            return dict(clause="d, v visible after the action equal the spec terms (batch values for completed steps; "
                               "stale columns unchanged)", where=where, relerr_d=ed, relerr_v=evv, bad_columns=cols,
                        stale_columns_among_bad=stale, cur=st["cur"])
        return None

    r = compare((), "after generator()")
    if r:
        return r
    prefix = ()
    for act in hist:
        act = fz(act)
        if act[0] == "send":
            gen.send((act[1], fvec[:, act[2]].copy()))
        elif act[0] == "addon":
            gen.send((-1, fvec[:, act[1]].copy()))
        elif act[0] == "finalize":
            st = states[prefix]
            cur = st["cur"]
            sol = ts.finalize(get_force=True)
            F = np.column_stack([interp.F(st["force"][j]) for j in range(cur + 1)])
            if cur == 0:
                F2 = np.column_stack([F[:, 0], F[:, 0]])
                bs = batch.tsolve(F2, d0, v0, static_ic)
                bd, bv, ba = bs.d[:, :1], bs.v[:, :1], bs.a[:, :1]
            else:
                bs = batch.tsolve(F, d0, v0, static_ic)
                bd, bv, ba = bs.d, bs.v, bs.a
            md, mv, ma = np.abs(bd).max(), np.abs(bv).max(), np.abs(ba).max()
            scales = {"d": max(md, H * mv, H * H * ma, 1e-300), "v": max(mv, md / H, H * ma, 1e-300),
                      "a": max(ma, mv / H, md / H / H, 1e-300)}
            for nm, got, exp in (("d", sol.d, bd), ("v", sol.v, bv), ("a", sol.a, ba)):
                sc = scales[nm]
                err = np.abs(got[:, : cur + 1] - exp).max() / sc
                if not err <= RTOL:
                    return dict(clause="finalize(): %s on completed steps equals batch tsolve of the force history in effect" % nm,
                                where="finalize", relerr=err, cur=cur)
            if hasattr(ts, "_d") or hasattr(ts, "_force"):
                devs.append("finalize() does not delete the internal references (documented clean-up of private members)")
            return dict(deviation=devs[0]) if devs else None
        prefix = prefix + (act,)
        r = compare(prefix, "after action %d %r" % (len(prefix), act))
        if r:
            return r
    # get_f2x: unit add-on force changes the current step by the matching column of the transform
    st = states[prefix]
    if check_f2x and st["cur"] >= 1 and cfg["order"] == 1:  # the statement covers the first-order hold only
        rng = np.random.default_rng(seed + 17)
        p = n + 1
        phi = rng.standard_normal((p, n))
        fd = ts.get_f2x(phi)
        fv = ts.get_f2x(phi, velo=True)
        cur = st["cur"]
        for kcol in range(p):
            e = np.zeros(p)
            e[kcol] = 1.0
            bd_, bv_ = d[:, cur].copy(), v[:, cur].copy()
            gen.send((-1, phi.T @ e))
            dd = phi @ (d[:, cur] - bd_)
            dv = phi @ (v[:, cur] - bv_)
            for nm, got, exp in (("d", dd, fd[:, kcol]), ("v", dv, fv[:, kcol])):
                sc = max(np.abs(fd).max() if nm == "d" else np.abs(fv).max(), np.abs(got).max(), 1e-300)
                if not np.abs(got - exp).max() <= 1e-7 * sc:
                    return dict(clause="get_f2x(%s) column = change produced by a unit add-on force (order %d)" % (nm, cfg["order"]),
                                where="f2x column %d" % kcol, got=got, exp=exp)
    return dict(deviation=devs[0]) if devs else None


_G = {}


def _init(states_path):
    setup_paths()
    import warnings
    warnings.simplefilter("ignore")
    _G["states"] = load_states(states_path)


def load_states(path):
    raw = json.load(open(path))
    return {fz(k): v for k, v in raw}


def _work(job):
    cfg, seed, hist, f2x = job
    try:
        r = replay_history(cfg, seed, hist, _G["states"], f2x)
    except Exception as ex:  # exception on a legal history is a failure of the property too
        import traceback
        r = dict(clause="replay raised %r" % ex, where=traceback.format_exc()[-600:])
    return (cfg, seed, hist, r)


def body(run: Run, replay):
    import numpy as np
    import tempfile
    import random

    run.rule = ("TLC enumerates all histories over {send(i) (1<=i<=cur+1), send(-1) add-on, finalize} up to the bound; "
                "maximal histories are replayed into the real generator of each solver configuration "
                "(SolveUnc diag / complex-coupled / cd_as_force, SolveCDF, SolveExp2; order 0/1; rb/el/rf blocks; m None/vec/mat; "
                "the 7 initial-condition rules of the spec: zero / d0 / v0 / d0,v0 / static / static+d0 / static+v0); after every action force, d, v (all columns) are compared with the spec's terms "
                "interpreted by the batch solver; distinct non-trivial = (configuration, history) pairs whose history contains a "
                "jump back, a re-send or an add-on")
    run.assumptions = ["Step terms are interpreted by the batch solver's own two-sample tsolve (the property's oracle is the batch solver)",
                       "tolerance 1e-9 relative to the history's max norm (both sides evaluate the same recurrences up to association order)",
                       "pre_eig and interleaved partitions are outside the generator's documented domain (NotImplementedError)"]
    cfgname = "MC_OdeGen_q.cfg" if run.tier == "quick" else "MC_OdeGen_t.cfg"
    res = tlc.run("OdeGen", cfgname, timeout=900, heap="8g")
    if res.violation:
        run.add_tlc(cfgname, res)
        run.violation("TLC: %s on the model" % res.violation, {"tlc": res.error_text()}, {"where": "model"})
        return
    run.add_tlc(cfgname, res, "invariants Valid FinalIsBatch CacheCoherent Col0Fixed, action property OnlyCurrentColumn")
    exp = res.tagged("GEN")
    states = {}
    for hist, cur, force, x in exp:
        NTm = len(force)
        states[fz(hist)] = {"cur": cur, "force": [force[j] for j in range(NTm)], "x": [x[j] for j in range(NTm)]}
    # maximal histories: those that are not a proper prefix of another
    hs = set(states)
    prefixes = set(h[:-1] for h in hs if h)
    leaves = sorted(h for h in hs if h not in prefixes)
    tmp = tempfile.NamedTemporaryFile("w", suffix=".json", delete=False)
    json.dump([[list(k), v] for k, v in states.items()], tmp)
    tmp.close()

    if replay:
        rec = json.load(open(replay))["case"]
        _init(tmp.name)
        c, s, h, r = _work((rec["cfg"], rec["seed"], fz(rec["hist"]), True))
        run.case(("r", 1)); run.case(("r", 2))
        if r and "clause" in r:
            run.violation(r["clause"], {"cfg": c, "seed": s, "hist": h, "detail": r}, {"solver": c["solver"]})
        os.unlink(tmp.name)
        return

    icr = res.tagged("ICRULES")
    if not icr:
        raise RuntimeError("no ICRULES export from TLC")
    cfgs = configs(run.tier, dict(icr[0][0]))
    rnd = random.Random(run.seed)
    per_cfg = 30 if run.tier == "quick" else 150
    jobs = []
    for ci, cfg in enumerate(cfgs):
        pick = rnd.sample(leaves, min(per_cfg, len(leaves)))
        for hi, h in enumerate(pick):
            jobs.append((cfg, run.seed * 1000 + ci, h, False))
            if hi % 4 == 0 and len(h) > 1 and h[-1][0] == "finalize":
                # same history without finalize(), then the get_f2x probe (unit add-on forces)
                jobs.append((cfg, run.seed * 1000 + ci, h[:-1], True))
    with mp.get_context("fork").Pool(16, initializer=_init, initargs=(tmp.name,)) as pool:
        for cfg, seed, h, r in pool.imap_unordered(_work, jobs, chunksize=8):
            nontriv = any(a[0] == "addon" for a in h) or any(
                h[i][0] == "send" and any(h[j][0] == "send" and h[j][1] >= h[i][1] for j in range(i)) for i in range(len(h)))
            run.case((cfg, h), nontrivial=nontriv, part=cfg["solver"] + "/" + cfg["kind"] + "/order%d" % cfg["order"])
            run.trace_validated()
            if nontriv:
                run.sample({"cfg": cfg, "history": h}, limit=4)
            if r and "deviation" in r:
                run.deviation("OdeGen (private state)", r["deviation"], {"cfg": cfg, "hist": h})
            elif r:
                run.violation(r["clause"], {"cfg": cfg, "seed": seed, "hist": h, "detail": r},
                              {"solver": cfg["solver"], "kind": cfg["kind"]})
    os.unlink(tmp.name)
    from .drive_C08_reuse import reuse_part
    reuse_part(run)
    run.extra["histories_in_model"] = len(states)
    run.extra["maximal_histories"] = len(leaves)
    run.extra["solver_configurations"] = len(cfgs)


if __name__ == "__main__":
    main("C08", "model_checking", body)
