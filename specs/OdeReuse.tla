------------------------------ MODULE OdeReuse ------------------------------
(***************************************************************************)
(* Growth of C08 (and of C01 / C02 / C17): ONE solver object used for a    *)
(* whole sequence of public calls.  The object has hidden state - the      *)
(* force / response arrays left behind by the last time-domain call, the   *)
(* coupled-damping cache (dmpfrc1, i_last), pre-computed coefficients, for *)
(* the complex-eigenvalue path the conjugate-pair bookkeeping, for Newmark *)
(* the nonlinear-term histories z - so "the answer of a call is a function *)
(* of that call's arguments alone" is a statement over call HISTORIES that *)
(* the test-suite (fresh object per test) never exercises.                 *)
(*                                                                          *)
(* Calls:  T(f, ic)    ts.tsolve(force f, initial-condition rule ic)       *)
(*         F(f, rb, v) ts.fsolve(force f, incrb rb) on frequency vector v: the *)
(*                     two vectors have the same length and the same first *)
(*                     and last entry but different interior points        *)
(*         G(f, k)     a complete generator session: generator(), sends in *)
(*                     order with k add-ons at the last step, finalize()   *)
(*         X           ts.get_f2x(...)                                     *)
(* A generator session is a bracket: no other call of the same object is   *)
(* made between generator() and finalize() (interleaving is outside the    *)
(* documented interface).  Hidden state is modelled by WHO wrote it last:  *)
(* every call (re)writes the slots it reads before reading them, except    *)
(* the immutable pre-computed coefficients.  TLC checks on every history   *)
(* that no call reads a slot last written by an EARLIER call (NoStaleRead) *)
(* - which is exactly what makes the answer history independent - and      *)
(* exports every history for replay against a fresh object.                *)
(***************************************************************************)
EXTENDS Integers, Sequences, FiniteSets, TLC

CONSTANTS MaxCalls, Export, HasF, HasG, HasX

Forces == {1, 2}
Calls == {<<"T", f, ic>> : f \in Forces, ic \in {"zero", "d0v0"}}
         \cup (IF HasF THEN {<<"F", f, rb, fv>> : f \in Forces, rb \in {"dva", "a"}, fv \in {1, 2}} ELSE {})
         \cup (IF HasG THEN {<<"G", f, k>> : f \in Forces, k \in {0, 1}} ELSE {})
         \cup (IF HasX THEN {<<"X", 0, 0>>} ELSE {})

\* hidden slots of a solver object
Slots == {"force", "resp", "cdcache", "coef", "conj", "z"}
\* slots a call initialises itself (before use) and slots it reads
Writes(c) == CASE c[1] = "T" -> {"force", "resp", "cdcache", "conj", "z"}
               [] c[1] = "F" -> {"conj"}
               [] c[1] = "G" -> {"force", "resp", "cdcache", "conj", "z"}
               [] c[1] = "X" -> {}
Reads(c) ==  CASE c[1] = "T" -> {"force", "resp", "cdcache", "coef", "conj", "z"}
               [] c[1] = "F" -> {"coef", "conj"}
               [] c[1] = "G" -> {"force", "resp", "cdcache", "coef", "conj", "z"}
               [] c[1] = "X" -> {"coef"}

VARIABLES hist, writer, stale
vars == <<hist, writer, stale>>
\* writer[s] = index of the call that last wrote slot s (0 = the constructor)
Init == hist = <<>> /\ writer = [s \in Slots |-> 0] /\ stale = FALSE
Do(c) == /\ Len(hist) < MaxCalls
         /\ hist' = Append(hist, c)
         /\ LET k == Len(hist) + 1
                w2 == [s \in Slots |-> IF s \in Writes(c) THEN k ELSE writer[s]] IN
            /\ writer' = w2
            \* a read is stale when the slot was last written by an earlier CALL (not by the constructor, not by this call)
            /\ stale' = (stale \/ \E s \in Reads(c) : w2[s] # k /\ w2[s] # 0)
Next == \E c \in Calls : Do(c)
Spec == Init /\ [][Next]_vars

NoStaleRead == ~stale
\* the immutable part is never rewritten by a call
CoefImmutable == writer["coef"] = 0
ExportHist == (Export /\ Len(hist) = MaxCalls) => PrintT(<<"REUSE", hist>>)
=============================================================================
