SPECIFICATION Spec
INVARIANT TableFunctional
INVARIANT Report
