"""C12: Nastran number fields (exact width, grammar, best precision) and generic cards (write -> read, fixed = comma).

specs/NasField.tla gives (1) MaxSig(width, sign, exponent), the number of significant digits the width allows, exported
as a table by TLC; (2) the real-field grammar as a DFA, against which every formatted string is trace-validated by TLC
(exact width + word of the grammar); (3) card layout laws and, per enumerated kind-mix, the number of lines and the
reader's view (trailing blanks dropped).  The driver formats the enumerated value lattice with format_float8 /
format_float16 / format_double16, checks nas_sscanf and the half-unit accuracy in exact rational arithmetic, and
replays every exported card through wtcard8/16/16d -> rdcards (fixed and comma forms)."""
import io
import json
import os
import random
import tempfile
from fractions import Fraction

from . import tlc
from .runner import main, Run


def value_of(s):
    """exact rational value of a Nastran real/integer field (grammar-level parse, no float())"""
    t = s.strip().lower().replace("d", "e")
    # split mantissa / exponent
    mant, exp = t, 0
    for i in range(1, len(t)):
        if t[i] == "e":
            mant, exp = t[:i], int(t[i + 1:])
            break
        if t[i] in "+-" and t[i - 1] != "e":
            mant, exp = t[:i], int(t[i:])
            break
    neg = mant.startswith("-")
    mant = mant.lstrip("+-")
    if "." in mant:
        a, b = mant.split(".")
    else:
        a, b = mant, ""
    digits = (a + b) or "0"
    v = Fraction(int(digits), 10 ** len(b)) * Fraction(10) ** exp
    return -v if neg else v


def exp10(fr):
    """floor(log10 |fr|) exactly"""
    fr = abs(fr)
    import math
    e = int(math.floor(math.log10(float(fr)))) if fr.denominator.bit_length() < 1000 and 1e-300 < float(fr) < 1e300 else 0
    while Fraction(10) ** e > fr:
        e -= 1
    while Fraction(10) ** (e + 1) <= fr:
        e += 1
    return e


def lattice(tier):
    mants = [1.0, 1.5, 1.2345678901234567, 2.0000000001, 4.999999999999, 5.0, 5.000000000001, 7.0710678118654755, 9.5]
    for k in range(3, 17):
        mants.append(float("9." + "9" * k))
        mants.append(float("4." + "9" * k + "5"))
    decades = range(-300, 301) if tier == "thorough" else [d for d in range(-300, 301) if abs(d) <= 24 or d % 7 == 0 or abs(d) in (99, 100, 101, 299, 300)]
    for d in decades:
        for m in mants:
            for sgn in (1.0, -1.0):
                try:
                    x = float("%re%d" % (m, d)) * sgn
                except (OverflowError, ValueError):
                    continue
                if x != 0 and abs(x) != float("inf"):
                    yield x
    # seeded random mantissas (17 significant digits) in every exponent class and both signs: two-stage rounding errors show up for
    # a few percent of arbitrary mantissas only
    import random as _r
    rr = _r.Random(20260928 + (0 if tier == "quick" else 1))
    for _ in range(4000 if tier == "quick" else 40000):
        e = rr.choice([-120, -37, -12, -9, -5, -3, -1, 0, 1, 3, 5, 6, 7, 8, 9, 10, 12, 15, 16, 30, 99, 100, 250])
        yield float("%.16fe%d" % (rr.uniform(1.0, 9.999999), e)) * rr.choice([1.0, -1.0])
    # exact rounding ties at every digit position (the branch boundaries of the formatters are of this form): 9...9.9...95
    for a in range(0, 17):
        for b in range(0, 17 - a):
            s = ("9" * a or "0") + "." + "9" * b + "5"
            for e in (0, -1, 1, -4, 4):
                for sgn in (1.0, -1.0):
                    yield float(s + "e%d" % e) * sgn
    for x in (0.0, 9999999.6, -9999999.6, 999999.5, 99999.95, 9999.9996, 0.001, 0.0009999999, 5e-8, 4.99999e-8, -5e-7, -0.01, 1e6, 1e7,
              123456789012345.6, 9999999999999999.0, 999999999999999.9, -999999999999999.9, 99999999999999.95, 1e15, 1e16, -1e14):
        yield x


def numbers_part(run, bulk):
    # MaxSig table from TLC
    res = tlc.run("NasField", "MC_NasField_table.cfg", timeout=600)
    if res.violation:
        run.add_tlc("MC_NasField_table.cfg", res)
        run.violation("TLC: %s on the NasField model (table)" % res.violation, {"tlc": res.error_text()}, {"where": "model"})
        return
    run.add_tlc("MC_NasField_table.cfg", res, "MaxSig table for widths 8/16 x sign x exponent -310..310; TableLaws")
    maxsig = {}
    for w, s_, e, m, md in res.tagged("MAXSIG"):
        maxsig[(w, s_, e, "E")] = m
        maxsig[(w, s_, e, "D")] = md
    fmts = [("format_float8", bulk.format_float8, 8), ("format_float16", bulk.format_float16, 16),
            ("format_double16", bulk.format_double16, 16)]
    lines = []
    n = 0
    for x in lattice(run.tier):
        for name, fn, w in fmts:
            n += 1
            case = {"fn": name, "x": repr(x)}
            try:
                s = fn(x)
            except Exception as ex:
                run.violation("%s(%r) raised %r" % (name, x, ex), case, {"fn": name})
                continue
            lines.append({"w": w, "chars": [ord(c) for c in s], "fn": name, "x": repr(x)})
            run.case((name, repr(x)), nontrivial=(x != 0), part=name)
            if len(s) != w:
                continue    # reported by the trace validation (exact width) below
            try:
                val = value_of(s)
            except Exception:
                continue    # not a word of the grammar: reported by the trace validation
            back = bulk.nas_sscanf(s)
            exact_float = float(val) if val != 0 else 0.0
            if not isinstance(back, float) or back != exact_float:
                run.violation("%s(%r) = %r is not parsed back by nas_sscanf as the real number it denotes (got %r)" % (name, x, s, back),
                              case, {"fn": name, "kind": "parse"})
                continue
            if x == 0:
                if val != 0:
                    run.violation("%s(0.0) = %r" % (name, s), case, {"fn": name})
                continue
            fx = Fraction(x)
            e = exp10(fx)
            ms = maxsig[(w, 1 if x < 0 else 0, e, "D" if name == "format_double16" else "E")]
            tol = Fraction(505, 1000) * Fraction(10) ** (e - ms + 1)
            if abs(val - fx) > tol:
                run.violation("%s(%r) = %r is not accurate to half a unit of the last digit the width allows (%d significant digits "
                              "for sign/exponent %d): error %.3g, allowed %.3g" % (name, x, s, ms, e, float(abs(val - fx)), float(tol)),
                              case, {"fn": name, "kind": "accuracy"})
    # trace validation by TLC: exact width + grammar
    fd, path = tempfile.mkstemp(suffix=".ndjson", prefix="verif_nf_")
    with os.fdopen(fd, "w") as f:
        for ln in lines:
            f.write(json.dumps({"w": ln["w"], "chars": ln["chars"]}) + "\n")
    try:
        res = tlc.run("NasField", "MC_NasField_trace.cfg", timeout=1200, env={"TRACE_FILE": path}, extra=("-continue",))
    finally:
        os.unlink(path)
    run.add_tlc("MC_NasField_trace.cfg", res, "trace validation of %d formatted fields: exact width and real-field grammar" % len(lines))
    run.trace_validated(len(lines))
    if res.violation:
        # identify the offending lines: TLC prints the violating states  q = <line number>
        import re
        bad = sorted(set(int(m) for m in re.findall(r"^q = (\d+)", res.out, re.M)))
        if not bad:
            bad = sorted(set(int(m) for m in re.findall(r"/\\ q = (\d+)", res.out)))
        for b in bad[:40]:
            ln = lines[b - 1]
            s = "".join(chr(c) for c in ln["chars"])
            integer_like = s.strip().lstrip("+-").isdigit()
            run.violation("%s(%s) = %r: not exactly %d characters of a legal Nastran REAL field (trace rejected by specs/NasField.tla)"
                          % (ln["fn"], ln["x"], s, ln["w"]), {"fn": ln["fn"], "x": ln["x"], "field": s},
                          {"fn": ln["fn"], "kind": "grammar", "integer_like": integer_like})
        if not bad:
            raise RuntimeError("TLC rejected the trace but no line could be identified:\n" + res.error_text())
    run.sample({"formatted": [(ln["fn"], ln["x"], "".join(chr(c) for c in ln["chars"])) for ln in lines[1000:1006]]})


def rand_value(kind, rnd, k):
    if kind == "i":
        return rnd.choice([0, 1, -1, 12345678, -1234567, rnd.randint(-99999, 99999), 100 + k])
    if kind == "r":
        return rnd.choice([0.0, 1.0, -2.5, 1.2345678901234567e-7, -9.87654321e12, 123456.789, rnd.uniform(-1000, 1000), 3.0e-30 * (k + 1)])
    if kind == "s":
        return rnd.choice(["ABC", "XYZW", "THRU", "G", "QRSTUVWX"])
    return ""


def cards_part(run, bulk):
    res = tlc.run("NasField", "MC_NasField_cards.cfg", timeout=600)
    if res.violation:
        run.add_tlc("MC_NasField_cards.cfg", res)
        run.violation("TLC: %s on the NasField model (cards)" % res.violation, {"tlc": res.error_text()}, {"where": "model"})
        return
    run.add_tlc("MC_NasField_cards.cfg", res, "card kind-mixes: all of length <= 5, boundary lengths 7..60 x 5 patterns; CardLaws")
    rnd = random.Random(run.seed)
    cards = res.tagged("CARD")
    for ci, (fmt, kinds, nlines, trimmed) in enumerate(cards):
        if run.tier == "quick" and len(kinds) <= 5 and ci % 2:
            continue
        vals = [rand_value(k, rnd, i) for i, k in enumerate(kinds)]
        writers = [("wtcard8", bulk.wtcard8, "TGT")] if fmt == 8 else [("wtcard16", bulk.wtcard16, "TGT*"), ("wtcard16d", bulk.wtcard16d, "TGT*")]
        for wname, wfn, cname in writers:
            case = {"writer": wname, "kinds": "".join(kinds), "values": [repr(v) for v in vals]}
            run.case((wname, "".join(kinds)), nontrivial=("b" in kinds or len(kinds) > 8), part=wname)
            f = io.StringIO()
            try:
                # neighbours: another card before, and the SAME card name right after (nothing may be swallowed or skipped)
                bulk.wtcard8(f, ["OTHER", 1, 2.0, "", 4, 5, 6, 7, 8, 9, 10])
                wfn(f, [cname] + vals)
                wfn(f, [cname] + [7, 8.5])
                bulk.wtcard8(f, ["OTHER", 3])
                text = f.getvalue()
            except Exception as ex:
                run.violation("%s raised %r" % (wname, ex), case, {"fn": wname})
                continue
            tl = text.split("\n")
            mine = tl[2:2 + nlines]
            after = tl[2 + nlines] if len(tl) > 2 + nlines else ""
            if not mine[0].startswith("TGT") or not after.startswith("TGT") or any(not ln.startswith(("+", "*")) for ln in mine[1:]) \
                    or any(len(ln) > 80 for ln in mine):
                # how many lines a card takes is a layout choice: the property asks that it is read back field for field (below)
                run.deviation("NasCard.NLines", "%s: card of %d fields is not laid out on %d lines with continuation marks" % (wname, len(kinds), nlines),
                              dict(case, text=mine))
            try:
                got = bulk.rdcards(io.StringIO(text), "tgt", return_var="list")
            except Exception as ex:
                run.violation("rdcards raised %r on a card written by %s" % (ex, wname), dict(case, text=mine), {"fn": wname})
                continue
            exp_fields = []
            for k, v in zip(trimmed, vals[:len(trimmed)]):
                if k == "r":
                    fld = {"wtcard8": bulk.format_float8, "wtcard16": bulk.format_float16, "wtcard16d": bulk.format_double16}[wname](v)
                    exp_fields.append(float(value_of(fld)))
                else:
                    exp_fields.append(v)
            def trimb(l):
                l = list(l)
                while l and l[-1] == "":
                    l.pop()
                return l
            # trailing blanks are not part of the card (the large-field padding line makes the reader see them)
            if got is None or len(got) != 2 or trimb(got[0]) != exp_fields or trimb(got[1]) != [7, 8.5]:
                run.violation("rdcards does not return the card written by %s field for field (expected %r + the following card [7, 8.5])"
                              % (wname, exp_fields), dict(case, got=repr(got), text=mine), {"fn": wname})
                continue
            run.trace_validated()
            # comma-separated rendering of the same card reads identically
            if True:
                # free-field form of the same card, reals in the digits the writer itself produced (8-character fields for wtcard8,
                # 16-character fields otherwise: first lines then run well beyond column 72)
                ffmt = {"wtcard8": bulk.format_float8, "wtcard16": bulk.format_float16, "wtcard16d": bulk.format_double16}[wname]
                strs = []
                for k, v in zip(kinds, vals):
                    strs.append("" if k == "b" else (ffmt(v).strip() if k == "r" else str(v)))
                clines = []
                for i in range(0, len(strs), 8):
                    # a free-field continuation line may start with "+", a blank or directly with the comma
                    head = "TGT" if i == 0 else ("+", " ", "")[(ci + i // 8) % 3]
                    clines.append(",".join([head] + strs[i:i + 8]) + (",+" if i + 8 < len(strs) else ""))
                ctext = "OTHER,1,2\n" + "\n".join(clines) + "\nTGT,7,8.5\n"
                try:
                    gotc = bulk.rdcards(io.StringIO(ctext), "tgt", return_var="list")
                except Exception as ex:
                    run.violation("rdcards raised %r on the comma form" % ex, dict(case, text=clines), {"fn": "comma"})
                    continue
                # the comma form keeps trailing empty fields up to the last comma: compare after dropping trailing blanks
                def trim(l):
                    l = list(l)
                    while l and l[-1] == "":
                        l.pop()
                    return l
                if gotc is None or len(gotc) != 2 or trim(gotc[0]) != trim(got[0]) or list(gotc[1]) != [7, 8.5]:
                    run.violation("fixed-field and comma-separated forms of the same card read differently", dict(case, fixed=repr(got[0]),
                                  comma=repr(gotc), text=clines), {"fn": "comma"})
                # growth (a third rendering the statement does not name): the fixed-field lines with every field left-justified and its
                # padding replaced by tab characters (a tab advances to the next multiple of 8 columns)
                try:
                    w_ = 8 if wname == "wtcard8" else 16
                    tlines = []
                    for ln in mine:
                        ln = ln.ljust(80)
                        fl = [ln[:8]] + [ln[8 + w_ * k_:8 + w_ * (k_ + 1)] for k_ in range(64 // w_)] + [ln[72:80]]
                        out_ = ""
                        for fi_, c_ in enumerate(fl):
                            wid = 8 if fi_ in (0, len(fl) - 1) else w_
                            c_ = c_.strip()
                            out_ += c_ + "\t" * ((wid - len(c_) + 7) // 8 if len(c_) < wid else 0)
                        tlines.append(out_.rstrip("\t") if not out_.rstrip("\t").endswith(("+", "*")) else out_.rstrip("\t"))
                    ttext = "OTHER\t1\t2\n" + "\n".join(tlines) + "\nTGT\t7\t8.5\n"
                    gott = bulk.rdcards(io.StringIO(ttext), "tgt", return_var="list")
                    if gott is None or len(gott) != 2 or trim(gott[0]) != trim(got[0]) or trim(gott[1]) != [7, 8.5]:
                        run.deviation("NasCard (tab form)", "the fixed-field card with tab-padded, left-justified fields reads differently from the blank-padded one",
                                      dict(case, fixed=repr(got[0]), tabs=repr(gott), text=tlines))
                except Exception as ex:
                    run.deviation("NasCard (tab form)", "rdcards raised %r on the tab-padded form" % ex, dict(case, text=mine))
                # short free-field lines (trailing blank fields left out, no continuation marker in field 10), with and without the name
                slines = []
                for i in range(0, len(strs), 8):
                    chunk = list(strs[i:i + 8])
                    if i + 8 < len(strs):
                        while len(chunk) > 1 and chunk[-1] == "":
                            chunk.pop()
                    slines.append(",".join(["TGT" if i == 0 else ("+", " ", "")[(ci + i // 8 + 1) % 3]] + chunk))
                stext = "OTHER,1,2\n" + "\n".join(slines) + "\nTGT,7,8.5\n"
                for kn in (False, True):
                    try:
                        gs = bulk.rdcards(io.StringIO(stext), "tgt", return_var="list", keep_name=kn)
                        gf = bulk.rdcards(io.StringIO(text), "tgt", return_var="list", keep_name=kn)
                    except Exception as ex:
                        run.violation("rdcards(keep_name=%s) raised %r on short free-field lines" % (kn, ex), dict(case, text=slines), {"fn": "comma"})
                        continue
                    if kn and gs is not None and gf is not None:
                        # the large-field form carries its "*" in the name: the DATA fields are what must agree
                        if any(str(c_[0]).rstrip("*") != "TGT" for c_ in list(gs) + list(gf)):
                            run.violation("rdcards(keep_name=True) does not return the card name first", dict(case, fixed=repr(gf), comma=repr(gs)), {"fn": "comma"})
                        gs = [c_[1:] for c_ in gs]
                        gf = [c_[1:] for c_ in gf]
                    if gs is None or gf is None or len(gs) != 2 or trim(gs[0]) != trim(gf[0]) or trim(gs[1]) != trim(gf[1]):
                        run.violation("fixed-field and free-field (short lines, keep_name=%s) forms of the same card read differently" % kn,
                                      dict(case, fixed=repr(gf), comma=repr(gs), text=slines), {"fn": "comma", "keep_name": kn})
        if ci < 2:
            run.sample({"card kinds": "".join(kinds), "fmt": fmt, "lines": nlines, "reader view": "".join(trimmed)})


def wtinclude_part(run, bulk, wr):
    """growth: the writer side of BulkInclude - wtinclude statements for paths of 0-5 directories, wrapped at three line limits, relative and
    absolute, are read back by the INCLUDE-following reader"""
    import os, shutil, tempfile
    spec = "BulkInclude (writer)"
    root = tempfile.mkdtemp(prefix="verif_wtinc_")
    try:
        for (depth, seg, mx, rel), mustwrap, piece in sorted(wr):
            depth, seg, mx = int(depth), int(seg), int(mx)
            dirs = [("dir%dxxxxxxxxxxxxxxxxxxxxxxx" % k)[:seg] for k in range(depth)]
            d = os.path.join(root, *dirs)
            os.makedirs(d, exist_ok=True)
            target = os.path.join(d, "file3.bdf")
            with open(target, "w") as fh:
                fh.write("CARDX,301\n")
            case = {"depth": depth, "segment": seg, "max_length": mx, "relative": bool(rel)}
            run.case(("wtinclude", depth, seg, mx, bool(rel)), nontrivial=bool(mustwrap), part="wtinclude (growth)")
            try:
                f = io.StringIO()
                bulk.wtinclude(f, target, current_path=root if rel else None, max_length=mx)
                st = f.getvalue()
                main = os.path.join(root, "main.bdf")
                with open(main, "w") as fh:
                    fh.write(st + "CARDX,101\n")
                got = bulk.rdcards(main, "cardx", return_var="list")
                ids = [int(c[0]) for c in (got or [])]
                if ids != [301, 101]:
                    run.deviation(spec, "the statement written by wtinclude is not followed to the file it names (cards delivered %r)" % ids, dict(case, text=st))
                    continue
                lines = st.rstrip("\n").split("\n")
                if rel:
                    if (bool(mustwrap) and len(lines) < int(piece)) or "".join(lines) != "INCLUDE '%s'" % "/".join(dirs + ["file3.bdf"]) \
                            or any(len(l) > mx for l in lines):
                        run.deviation(spec, "wtinclude: statement of %d characters at limit %d is laid out on %d line(s) (no line longer than the limit, lines joined = the statement, at least ceil(len / limit) lines)" % (
                            len("".join(lines)), mx, len(lines)), dict(case, text=st))
            except Exception as ex:
                run.deviation(spec, "wtinclude / rdcards raised %r" % ex, case)
            run.trace_validated()
    finally:
        shutil.rmtree(root, ignore_errors=True)


def include_part(run, bulk):
    """growth: INCLUDE-following state machine (specs/BulkInclude.tla) - every small file tree is written to disk and read back"""
    import shutil
    cfg = "MC_BulkInclude_q.cfg" if run.tier == "quick" else "MC_BulkInclude_t.cfg"
    res = tlc.run("BulkInclude", cfg, timeout=1500)
    run.add_tlc(cfg, res, "DeliversExpansion, PrefixSoFar, DepthBound, Terminates on every file tree (3 files, INCLUDE by name / path / symbol, split quotes)")
    if res.violation:
        run.violation("TLC: %s on the BulkInclude model" % res.violation, {"tlc": res.error_text()}, {"where": "model"})
        return
    trees = res.tagged("TREE")
    if run.tier == "quick":
        trees = trees[::2]
    if res.tagged("WRINC"):
        wtinclude_part(run, bulk, [(tuple(c_), mw_, pc_) for c_, mw_, pc_ in res.tagged("WRINC")[0][0]])
    root = tempfile.mkdtemp(prefix="c12inc_")
    try:
        os.makedirs(os.path.join(root, "sub"))
        paths = {1: os.path.join(root, "main.bdf"), 2: os.path.join(root, "sub", "f2.bdf"), 3: os.path.join(root, "sub", "f3.bdf")}
        names = {2: "f2.bdf", 3: "f3.bdf"}

        def render(f, items):
            lines = []
            for i, it in enumerate(items, 1):
                cid = 100 * f + i
                if it[0] == "card":
                    lines.append("CARDX,%d,7" % cid if i % 2 else "CARDX   %8d       7" % cid)
                elif it[0] == "long":
                    lines.append("CARDX   %8d" % cid + "".join("%8d" % v for v in range(1, 8)) + "+")
                    lines.append("+       %8d%8d" % (8, 9))
                elif it[0] == "other":
                    lines.append("OTHER,%d" % cid)
                    if i % 2:
                        lines.append("$ a comment")
                else:
                    t, form, split = it[1], it[2], it[3]
                    p = {"name": names[t], "path": "sub/" + names[t], "symbol": "sym:" + names[t]}[form]
                    if split:
                        k = max(1, len(p) // 2)
                        lines.append("INCLUDE '%s" % p[:k])
                        lines.append("%s'" % p[k:])
                    else:
                        lines.append("include '%s'" % p if i % 2 else "INCLUDE '%s'" % p)
            return "\n".join(lines) + ("\n" if lines else "")

        for c1, c2, c3, want in trees:
            for f, items in ((1, c1), (2, c2), (3, c3)):
                with open(paths[f], "w") as fh:
                    fh.write(render(f, items))
            run.case(("include", json.dumps([c1, c2])), part="INCLUDE trees")
            tags = {"kind": "include", "forms": sorted({it[2] for it in c1 + c2 if it[0] == "inc"}), "split": any(it[0] == "inc" and it[3] for it in c1 + c2)}
            want_own = [100 + i for i, it in enumerate(c1, 1) if it[0] in ("card", "long")]
            try:
                own = bulk.rdcards(paths[1], "cardx", return_var="list", follow_includes=False)
            except Exception as ex:
                run.violation("rdcards(follow_includes=False) raised %r on a file with INCLUDE lines" % ex, {"main": c1}, tags)
                continue
            try:
                got = bulk.rdcards(paths[1], "cardx", return_var="list", include_symbols={"SYM": os.path.join(root, "sub")})
            except Exception as ex:
                # the file's own cards are read (above): the failure is in how an INCLUDE line is resolved - a rule of the growth
                # spec, not of the property (number fields, cards)
                run.deviation("BulkInclude", "rdcards raised %r on an INCLUDE tree (path forms %s%s)" % (ex, tags["forms"], ", quoted name split over lines" if tags["split"] else ""),
                              {"main": c1, "f2": c2, "expected": want})
                continue
            ids = [int(c[0]) for c in (got or [])]
            if ids != list(want):
                if [k for k in ids if k // 100 == 1] != [k for k in want if k // 100 == 1]:
                    run.violation("rdcards lost / duplicated / reordered the cards of the file itself around its INCLUDE lines: delivered %s, the file holds %s"
                                  % ([k for k in ids if k // 100 == 1], [k for k in want if k // 100 == 1]), {"main": c1, "f2": c2}, tags)
                else:
                    run.deviation("BulkInclude", "rdcards over INCLUDE files delivered cards %s, the spec (depth-first, each INCLUDE expanded in place) says %s"
                                  % (ids, list(want)), {"main": c1, "f2": c2})
            if [int(c[0]) for c in (own or [])] != want_own:
                run.violation("rdcards(follow_includes=False) delivered %s, expected the file's own cards %s" % ([int(c[0]) for c in (own or [])], want_own),
                              {"main": c1}, tags)
            for c in (got or []):
                k = int(c[0])
                it = {1: c1, 2: c2, 3: c3}[k // 100][k % 100 - 1]
                if it[0] == "long" and [int(v) for v in c[1:10]] != list(range(1, 10)):
                    run.violation("a card with a continuation line lost / gained fields next to an INCLUDE: %s" % (c,), {"main": c1, "f2": c2}, tags)
                    break
            run.trace_validated()
    finally:
        shutil.rmtree(root, ignore_errors=True)


def body(run: Run, replay):
    import warnings
    warnings.simplefilter("ignore")
    from pyyeti.nastran import bulk
    run.rule = ("numbers: both signs x decades (quick: |d|<=24, every 7th, 99-101, 299-300; thorough: all -300..300) x 37 mantissa classes "
                "incl. k nines (values that round up across a decade at either rounding stage) x 3 formatters; every string is "
                "trace-validated by TLC (width, grammar) and checked in exact rationals against MaxSig from TLC. cards: all kind-mixes "
                "up to 5 fields + boundary lengths 7..60 x 5 patterns x 8/16/16d, fixed and comma forms, with neighbouring cards. "
                "distinct non-trivial = non-zero numbers / cards with a blank or a continuation")
    run.assumptions = ["MaxSig counts the normalised fixed and d.ddd+ee forms (what 'the width allows' is taken to mean); shifting the "
                       "decimal point to save an exponent digit is not required of the formatter",
                       "accuracy is checked in exact rational arithmetic (fractions.Fraction) on the decimal string"]
    numbers_part(run, bulk)
    cards_part(run, bulk)
    include_part(run, bulk)


if __name__ == "__main__":
    main("C12", "model_checking", body)
