CONSTANTS
  NR = 3
  NC = 3
  NV = 1
  WPV = 1
  CPLX = 1
  Ascii = TRUE
  PerLine = 2
  RowOffset = 0
  WriterOnly = FALSE
  Export = TRUE
INIT Init
NEXT Next
INVARIANT DecodeIsIdentity
INVARIANT LayoutRecognised
INVARIANT SkipExact
INVARIANT FieldRanges
INVARIANT ExportOK
