CONSTANTS
  MaxLen = 6
  MaxVal = 3
  Export = FALSE
  Mode = "findap"
  TraceMode = "req"
INIT TInit
NEXT TNext
INVARIANT ReqOut
INVARIANT FdeOK
