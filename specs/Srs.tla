--------------------------------- MODULE Srs ---------------------------------
(***************************************************************************)
(* C03.  Shock response spectrum: option lattice, index model, oscillator  *)
(* oracle.                                                                  *)
(*  option point = stype x ic x time x peak x eqsine x packaging            *)
(*  index model (integers): signal length M, sample rate sr (integer Hz),   *)
(*    frequencies; for time in {total, residual} one cycle of the lowest    *)
(*    non-zero frequency is appended: nz = ceil(sr / fmin) samples (none    *)
(*    when every frequency is 0); N = M + nz; the statistic window starts   *)
(*    at S = M for residual and 0 otherwise; resp['hist'] has N - S rows,   *)
(*    resp['t'] = (S .. N-1)/sr.                                            *)
(*  oracle: the relative coordinate z of a base-excited oscillator obeys    *)
(*    z'' + (w/Q) z' + w^2 z = -a(t), a linear between samples: the exact   *)
(*    under-damped step of specs/OdeModel.tla with m = 1, b = w/Q, k = w^2, *)
(*    f = -a (w = 0: the undamped rigid-body step).  The digital filter     *)
(*    starts from rest one sample BEFORE the record with the input ramping  *)
(*    up from 0 (zero state of the ramp-invariant filter).                  *)
(*  initial-condition rules: zero; shift (a - a[0]); mshift (a - mean a);   *)
(*    steady (a - a[0], appended samples equal -a[0], and the static        *)
(*    response of the removed offset a[0] is added back: Offset(stype)).    *)
(*  response quantity from (z, z', a): see Quantity.                        *)
(***************************************************************************)
EXTENDS Integers, Sequences, FiniteSets, TLC

CONSTANTS Export

V(n) == <<"var", n>>
Num(n) == <<"num", n>>
Add(a, b) == <<"add", a, b>>
Sub(a, b) == <<"sub", a, b>>
Mul(a, b) == <<"mul", a, b>>
Div(a, b) == <<"div", a, b>>
Neg(a) == <<"neg", a>>

Stypes == {"absacce", "relacce", "relvelo", "reldisp", "pvelo", "pacce"}
Ics == {"zero", "shift", "mshift", "steady"}
Times == {"primary", "total", "residual"}
Peaks == {"abs", "pos", "neg", "poss", "negs", "rms"}

w == V("w") z == V("z") zd == V("zd") a == V("a") Qf == V("Q")
\* response quantities in terms of the relative coordinate, its rate and the base acceleration at that sample
Quantity(stype) ==
  CASE stype = "reldisp" -> z
    [] stype = "relvelo" -> zd
    [] stype = "pvelo"   -> Mul(w, z)
    [] stype = "pacce"   -> Mul(Mul(w, w), z)
    [] stype = "absacce" -> Neg(Add(Mul(Div(w, Qf), zd), Mul(Mul(w, w), z)))          \* z'' + a = -(b z' + k z)
    [] stype = "relacce" -> Sub(Neg(Add(Mul(Div(w, Qf), zd), Mul(Mul(w, w), z))), a)  \* z'' = -a - b z' - k z
\* static response of a constant base acceleration s1 that 'steady' adds back (none for relacce / relvelo)
Offset(stype) ==
  CASE stype = "absacce" -> V("s1")
    [] stype = "reldisp" -> Neg(Div(V("s1"), Mul(w, w)))
    [] stype = "pvelo"   -> Neg(Div(V("s1"), w))
    [] stype = "pacce"   -> Neg(V("s1"))
    [] OTHER -> Num(0)

\* index model
CeilDiv(x, y) == (x + y - 1) \div y
NZeros(time, sr, fmin) == IF time = "primary" \/ fmin = 0 THEN 0 ELSE CeilDiv(sr, fmin)
Window(time, M, sr, fmin) == LET n == M + NZeros(time, sr, fmin) IN [N |-> n, S |-> IF time = "residual" THEN M ELSE 0]

\* upsampling ('rolloff') index model.  When the record has fewer than ppc points per cycle of the highest frequency
\* (sr < ppc fmax) and a resampling rolloff is chosen, the record is first resampled by the integer factor
\* k = ceil(ppc fmax / sr); its length becomes kM (lanczos), k(M - M mod 2) (fft: an odd record loses its last sample)
\* or kM - 1 (linear: no sample beyond the last one); the sample rate becomes k sr.  Everything after that - the
\* appended cycle, the window start, resp['t'] - is the Window of the RESAMPLED record at the NEW rate.  'prefilter'
\* and 'none' never change the rate; a record of one sample is never resampled.
Rolls == {"none", "prefilter", "linear", "lanczos", "fft"}
Factor(roll, M, sr, fmax, ppc) ==
  IF roll \in {"none", "prefilter"} \/ fmax = 0 \/ sr >= ppc * fmax \/ M <= 1 THEN 1 ELSE CeilDiv(ppc * fmax, sr)
UpLen(roll, M, k) ==
  IF k = 1 THEN M ELSE CASE roll = "lanczos" -> k * M [] roll = "fft" -> k * (M - (M % 2)) [] roll = "linear" -> k * M - 1
UpWindow(roll, time, M, sr, fmin, fmax, ppc) ==
  LET k == Factor(roll, M, sr, fmax, ppc)  M2 == UpLen(roll, M, k)  wd == Window(time, M2, k * sr, fmin)
  IN [k |-> k, sr |-> k * sr, M |-> M2, N |-> wd.N, S |-> wd.S]
UpCases == {<<roll, M, sr, fmin, fmax, ppc>> : roll \in Rolls, M \in {1, 2, 7, 8, 14}, sr \in {100, 128},
                                              fmin \in {3, 7}, fmax \in {7, 40, 50}, ppc \in {4, 10}}

VARIABLE q
Points == {[stype |-> s, ic |-> i, time |-> t, peak |-> p, eqsine |-> e] : s \in Stypes, i \in Ics, t \in Times, p \in Peaks, e \in BOOLEAN}
IndexCases == {<<M, sr, fmin>> : M \in {1, 2, 7}, sr \in {100, 128}, fmin \in {0, 3, 7, 50}}
Init == q \in Points
Next == UNCHANGED q

\* laws of the index model
IndexLaws == \A c \in IndexCases :
   LET wd == Window(q.time, c[1], c[2], c[3]) IN
   /\ wd.N >= c[1] /\ wd.S \in {0, c[1]} /\ wd.N - wd.S >= (IF q.time = "residual" /\ c[3] = 0 THEN 0 ELSE 1)
   /\ (q.time = "primary" => wd.N = c[1])
   /\ (q.time # "primary" /\ c[3] > 0 => (wd.N - c[1]) * c[3] >= c[2] /\ (wd.N - c[1] - 1) * c[3] < c[2])

\* laws of the upsampling model: the rate is a multiple of the given one and meets ppc whenever the record was resampled;
\* the resampled primary part spans no more time than the record (+ one old sample), and the residual window starts at its end
UpLaws == \A c \in UpCases :
   LET u == UpWindow(c[1], q.time, c[2], c[3], c[4], c[5], c[6]) IN
   /\ u.sr = u.k * c[3] /\ u.k >= 1
   /\ (c[1] \in {"none", "prefilter"} => u.k = 1 /\ u.M = c[2])
   /\ (u.k > 1 => u.sr >= c[6] * c[5] /\ (u.k - 1) * c[3] < c[6] * c[5])
   /\ u.M <= u.k * c[2] /\ (u.k > 1 => u.M >= u.k * (c[2] - 1))
   /\ u.S \in {0, u.M} /\ (q.time = "residual" => u.S = u.M) /\ u.N >= u.M
   /\ (q.time # "primary" => (u.N - u.M) * c[4] >= u.sr /\ (u.N - u.M - 1) * c[4] < u.sr)

ExportPoint == Export => PrintT(<<"POINT", q, Quantity(q.stype), Offset(q.stype),
                                  [c \in IndexCases |-> Window(q.time, c[1], c[2], c[3])],
                                  [c \in UpCases |-> UpWindow(c[1], q.time, c[2], c[3], c[4], c[5], c[6])]>>)
=============================================================================
