CONSTANTS
  MaxModes = 3
  Export = TRUE
INIT Init
NEXT Next
INVARIANT ClassesNonTrivial
INVARIANT PartitionTotal
INVARIANT ExportProblem
INVARIANT ExportTerms
