CONSTANTS
  Export = TRUE
  MaxOps = 3
  Ns = {4, 5, 6}
SPECIFICATION Spec
INVARIANT BoundaryIsPermutation
INVARIANT MassSplits
INVARIANT TotalMassInvariant
INVARIANT ParallelAxis
INVARIANT UnitsBounded
INVARIANT ExportDesc
INVARIANT ExportHist
PROPERTY DefectSticky
