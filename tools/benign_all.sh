#!/bin/sh
# re-runs every recorded property-preserving change (benign/<id>/patch.diff) against the CURRENT quick checks, four at a time, and writes
# benign_summary.txt (one line per change: the check must exit 0 without a VIOLATION line; SPEC-DEVIATION lines are allowed)
cd "$(dirname "$0")/.." || exit 2
tmpd=$(mktemp -d /tmp/benignall_XXXXXX)
ls benign | xargs -P 4 -I{} sh -c 'p=$(echo {} | cut -c1-3); cp benign/{}/patch.diff '"$tmpd"'/{}.diff; timeout 3600 tools/benigntest.py $p '"$tmpd"'/{}.diff {} 2>&1 | grep -v "^WARN" | tail -2 | tr "\n" " " | cut -c1-300 > '"$tmpd"'/{}.txt'
: > benign_summary.txt.new
for s in $(ls benign); do printf "%s  %s\n" "$s" "$(cat $tmpd/$s.txt)" >> benign_summary.txt.new; done
mv benign_summary.txt.new benign_summary.txt
rm -rf $tmpd
echo done
