------------------------------ MODULE CoordSys ------------------------------
(***************************************************************************)
(* C14.  Coordinate systems and rigid-body geometry.                       *)
(* A TOPOLOGY is a chain of K coordinate systems: system k has a type      *)
(* (1 rectangular, 2 cylindrical, 3 spherical) and a reference system      *)
(* ref[k] in 0..k-1 (0 = basic) in whose coordinates its A, B, C points     *)
(* are given (CORD2R / CORD2C / CORD2S).  The geometry is DEFINED once:     *)
(*    Rect(type, p)      rectangular components of a point of that type     *)
(*    Axes(k)            z = unit(B - A), y = unit(z x (C - A)), x = y x z  *)
(*    T(k) = T(ref) Axes(k) ,  O(k) = O(ref) + T(ref) A                     *)
(*    Basic(k, p) = O(k) + T(k) Rect(type k, p)                             *)
(*    Frame(k, x)        the displacement frame of a grid at basic x whose  *)
(*                       output system is k, built from the geometry alone  *)
(*                       (radial / tangential unit vectors, no angles)      *)
(*    Rb(G, r)           rigid-body modes of a grid with frame G at r from  *)
(*                       the reference point: [G' , -G' skew(r) ; 0 , G']   *)
(* TLC enumerates every topology and every (input system, output system)   *)
(* pair for a grid, checks that reference chains are well founded, and      *)
(* exports T(k), O(k) as terms over the point symbols A1 B1 C1 ... ; the    *)
(* type-generic terms Rect / Frame / Rb are exported once.                  *)
(***************************************************************************)
EXTENDS Integers, Sequences, FiniteSets, TLC

CONSTANTS K, Export

V(n) == <<"var", n>>
Num(n) == <<"num", n>>
Add(a, b) == <<"add", a, b>>
Sub(a, b) == <<"sub", a, b>>
Mul(a, b) == <<"mul", a, b>>
Div(a, b) == <<"div", a, b>>
Neg(a) == <<"neg", a>>
MatMul(a, b) == <<"matmul", a, b>>
El(v, i) == <<"el", v, i, 0>>
Vec(a, b, c) == <<"vec", a, b, c>>
Cross(u, v) == <<"cross", u, v>>
Dot(u, v) == <<"dot", u, v>>
Norm(u) == <<"norm", u>>
Unit(u) == Div(u, Norm(u))
Cols(u, v, w) == <<"cols", u, v, w>>
Col(m, j) == <<"colof", m, j>>
Tr(m) == <<"tr", m>>
Skew(u) == <<"skew", u>>
Deg(a) == Mul(a, Div(<<"pi">>, Num(180)))
Cos(a) == <<"cos", a>>
Sin(a) == <<"sin", a>>
Eye3 == <<"eye3">>
Zero3 == Vec(Num(0), Num(0), Num(0))

\* rectangular components of a point given in a system of the type (angles in degrees)
Rect(type, p) ==
  CASE type = 1 -> p
    [] type = 2 -> Vec(Mul(El(p, 0), Cos(Deg(El(p, 1)))), Mul(El(p, 0), Sin(Deg(El(p, 1)))), El(p, 2))
    [] type = 3 -> Vec(Mul(El(p, 0), Mul(Sin(Deg(El(p, 1))), Cos(Deg(El(p, 2))))),
                       Mul(El(p, 0), Mul(Sin(Deg(El(p, 1))), Sin(Deg(El(p, 2))))),
                       Mul(El(p, 0), Cos(Deg(El(p, 1)))))

Types == {1, 2, 3}
Topologies == {<<ty, rf>> : ty \in [1..K -> Types], rf \in {f \in [1..K -> 0..(K - 1)] : \A k \in 1..K : f[k] < k}}
TypeOf(top, c) == IF c = 0 THEN 1 ELSE top[1][c]
RefOf(top, c) == top[2][c]
Sym(s, c) == V(s \o ToString(c))
Apt(top, c) == Rect(TypeOf(top, RefOf(top, c)), Sym("A", c))
Bpt(top, c) == Rect(TypeOf(top, RefOf(top, c)), Sym("B", c))
Cpt(top, c) == Rect(TypeOf(top, RefOf(top, c)), Sym("C", c))
Axes(top, c) == LET z == Unit(Sub(Bpt(top, c), Apt(top, c)))
                    y == Unit(Cross(z, Sub(Cpt(top, c), Apt(top, c))))
                    x == Cross(y, z) IN Cols(x, y, z)
RECURSIVE Tm(_, _), Org(_, _), Depth(_, _)
Tm(top, c) == IF c = 0 THEN Eye3 ELSE MatMul(Tm(top, RefOf(top, c)), Axes(top, c))
Org(top, c) == IF c = 0 THEN Zero3 ELSE Add(Org(top, RefOf(top, c)), MatMul(Tm(top, RefOf(top, c)), Apt(top, c)))
Depth(top, c) == IF c = 0 THEN 0 ELSE 1 + Depth(top, RefOf(top, c))

\* type-generic terms over the symbols  O T (the system), p (a point in its coordinates), x (a basic point), x0 (reference)
Basic(type) == Add(V("O"), MatMul(V("T"), Rect(type, V("p"))))
Ez == Col(V("T"), 2)
Dvec == Sub(V("x"), V("O"))
Frame(type) ==
  CASE type = 1 -> V("T")
    [] type = 2 -> LET er == Unit(Sub(Dvec, Mul(Dot(Ez, Dvec), Ez))) IN Cols(er, Cross(Ez, er), Ez)
    [] type = 3 -> LET er == Unit(Dvec)  ephi == Unit(Cross(Ez, er)) IN Cols(er, Cross(ephi, er), ephi)
\* ON the polar axis of a cylindrical / spherical system the angles are undefined; the convention (Nastran's, and the limit of Frame
\* along the system's x-z half-plane) is theta = 0 for cylindrical and phi = 0 for spherical: the azimuthal direction is the system's y axis
FrameAxis(type) ==
  CASE type = 1 -> V("T")
    [] type = 2 -> V("T")
    [] type = 3 -> LET er == Unit(Dvec)  ephi == Col(V("T"), 1) IN Cols(er, Cross(ephi, er), ephi)
\* rigid-body rows of one grid: translations [G', -G' skew(r)], rotations [0, G'] with r = x - x0
RbTT == Tr(V("G"))
RbTR == Neg(MatMul(Tr(V("G")), Skew(Sub(V("x"), V("x0")))))

VARIABLE q
Init == q \in Topologies
Next == UNCHANGED q

WellFounded == \A c \in 1..K : Depth(q, c) \in 1..c /\ RefOf(q, c) < c
\* every depth up to K occurs in some topology (the lattice reaches the longest chains)
ASSUME \E t \in Topologies : Depth(t, K) = K
GridPairs == (0..K) \X (0..K)
ExportTopo == Export => PrintT(<<"TOPO", q[1], q[2], [c \in 1..K |-> <<Tm(q, c), Org(q, c), Depth(q, c)>>], GridPairs>>)
ExportGeneric == (Export /\ q = CHOOSE t \in Topologies : TRUE) =>
   PrintT(<<"GENERIC", [t \in Types |-> [basic |-> Basic(t), frame |-> Frame(t), frameaxis |-> FrameAxis(t), rect |-> Rect(t, V("p"))]], [tt |-> RbTT, tr |-> RbTR]>>)
\* ---- RBE3 with a re-assigned m-set (growth: the UM option of formrbe3) ------------------------------------------------------------
\* DOF blocks: <<g, "t">> = translations 123 of grid g, <<g, "r">> = rotations 456.  Grid 0 is the dependent grid (all six DOF), grids 1..3
\* are independent with their translations (grid 1 with its rotations too, so that an m-set inside the independent set can be invertible); the table lists the independent grids first.  An m-set is any choice of as many DOF as the
\* dependent grid has, among all DOF of the element; the interpolation matrix then has the m-set as rows and every other DOF of the
\* element as columns, both in table order, and states the SAME constraint: for every motion with u_dep = R u_ind, u_m = R_um u_rest.
UmUniverse == {<<0, "t">>, <<0, "r">>, <<1, "r">>} \cup {<<g, "t">> : g \in 1..3}         \* grid 1 takes part with all six DOF
UmDep == {<<0, "t">>, <<0, "r">>}
UmChoices == {M \in SUBSET UmUniverse : Cardinality(M) = Cardinality(UmDep)}
UmRest(M) == UmUniverse \ M
TableRank(b) == (IF b[1] = 0 THEN 4 ELSE b[1]) * 2 + (IF b[2] = "t" THEN 0 ELSE 1)
RECURSIVE InTableOrder(_)
InTableOrder(S) == IF S = {} THEN <<>> ELSE LET b == CHOOSE x \in S : \A y \in S : TableRank(x) <= TableRank(y) IN <<b>> \o InTableOrder(S \ {b})
UmLaws == \A M \in UmChoices :
   /\ Cardinality(UmRest(M)) = Cardinality(UmUniverse) - Cardinality(UmDep)
   /\ M \cap UmRest(M) = {}
   /\ Len(InTableOrder(M)) = Cardinality(M)
   /\ (M = UmDep => UmRest(M) = UmUniverse \ UmDep)            \* the m-set equal to the dependent set is the plain element
ExportUm == (Export /\ q = CHOOSE t \in Topologies : TRUE) => PrintT(<<"UM", {<<InTableOrder(M), InTableOrder(UmRest(M))>> : M \in UmChoices}>>)
\* ---- rows of a rigid-body matrix scanned for xyz triples (growth: find_xyz_triples) --------------------------------------------------
\* a matrix is a word over T (the three translation rows of a grid, in the grid's own frame and scale), R (its three rotation rows) and
\* Z (one row that belongs to no grid).  Rows are <<letter position, index in the letter>>.  The scanner looks at rows j, j+1, j+2: they are
\* a triple exactly when they are rows 1, 2, 3 of one T; then it marks them and moves on by three, otherwise by one.
Letters == {"T", "R", "Z"}
Words == UNION {[1..n -> Letters] : n \in 1..4}
RowsOfLetter(w, k) == IF w[k] = "Z" THEN <<<<k, 1>>>> ELSE <<<<k, 1>>, <<k, 2>>, <<k, 3>>>>
RECURSIVE RowsFrom(_, _)
RowsFrom(w, k) == IF k > Len(w) THEN <<>> ELSE RowsOfLetter(w, k) \o RowsFrom(w, k + 1)
IsTriple(w, rows, j) == /\ j + 2 <= Len(rows) /\ w[rows[j][1]] = "T"
                        /\ rows[j][2] = 1 /\ rows[j + 1] = <<rows[j][1], 2>> /\ rows[j + 2] = <<rows[j][1], 3>>
RECURSIVE ScanFrom(_, _, _)
ScanFrom(w, rows, j) == IF j > Len(rows) THEN {} ELSE
                        IF IsTriple(w, rows, j) THEN {j, j + 1, j + 2} \cup ScanFrom(w, rows, j + 3) ELSE ScanFrom(w, rows, j + 1)
MarkDecl(w, rows) == {j \in 1..Len(rows) : w[rows[j][1]] = "T"}
\* the scanner finds exactly the translation rows, whatever stands around them
ScanLaws == \A w \in Words : LET rows == RowsFrom(w, 1) IN ScanFrom(w, rows, 1) = MarkDecl(w, rows)
ExportScan == (Export /\ q = CHOOSE t \in Topologies : TRUE) =>
   PrintT(<<"SCAN", {<<w, RowsFrom(w, 1), MarkDecl(w, RowsFrom(w, 1))>> : w \in Words}>>)
=============================================================================
