------------------------------- MODULE NTFL -------------------------------
(***************************************************************************)
(* C15.  Norton-Thevenin coupling of a Source and a Load through their     *)
(* apparent masses reproduces the directly coupled system.                 *)
(*                                                                          *)
(* A CONFIGURATION fixes how each component is handed to pyYeti:            *)
(*   form   "recovery"  free-free M, B, K + a 2-D boundary recovery matrix  *)
(*                      T (selection rows, or general full-row-rank rows)   *)
(*          "cb"        the same component in Craig-Bampton form (boundary  *)
(*                      DOF kept, K_bq = 0) + a 1-D partition vector        *)
(*   nb     interface size, damping kind (proportional, full, none on the   *)
(*          Load, NON-SYMMETRIC "gyro": response and input index of the     *)
(*          apparent mass are then distinguishable), force position.        *)
(*   the frequency class.                                                   *)
(* Route(form) is the computation path calcAM must take (unit boundary      *)
(* forces through SolveUnc / FreqDirect, or cbtf); all forms of one         *)
(* component are one equivalence class: same apparent mass.                 *)
(*                                                                          *)
(* DEFINITIONS as terms (complex arithmetic, W = circular frequency):       *)
(*   Z(W)  = K + i W B - W^2 M                        dynamic stiffness     *)
(*   H(W)  = -W^2 T Z^-1 T'                           boundary accelerance  *)
(*   AM    = H^-1 ,  TAM = SAM + LAM                                        *)
(*   As    = -W^2 Ts Zs^-1 Fs                         free acceleration     *)
(*   NT:     A = (SAM + LAM)^-1 SAM As ,  F = LAM A ,                       *)
(*           R = diag((SAM + LAM)^-1 SAM)                                   *)
(*   DIRECT: the physically coupled system with a Lagrange multiplier for   *)
(*           Ts xs = Tl xl:                                                  *)
(*             [ Zs   0    Ts' ] [xs]   [Fs]                                *)
(*             [ 0    Zl  -Tl' ] [xl] = [0 ]   A = -W^2 Ts xs , F = lambda  *)
(*             [ Ts  -Tl   0   ] [la]   [0 ]                                *)
(*   CB form: X = Tcb p, Tcb = [I 0; Psi Q], Psi = -Kii^-1 Kib (any         *)
(*           invertible Q): Mcb = Tcb' M Tcb etc.                            *)
(*   rigid mass referred to the interface (when the interface is            *)
(*           statically determinate): Phi' M Phi with T Phi = I, K Phi = 0  *)
(***************************************************************************)
EXTENDS Integers, Sequences, FiniteSets, TLC

CONSTANT Export

V(n) == <<"var", n>>
Num(n) == <<"num", n>>
Add(a, b) == <<"add", a, b>>
Sub(a, b) == <<"sub", a, b>>
Mul(a, b) == <<"mul", a, b>>
Neg(a) == <<"neg", a>>
MatMul(a, b) == <<"matmul", a, b>>
Solve(a, b) == <<"solve", a, b>>
Tr(a) == <<"tr", a>>
Inv(a) == Solve(a, <<"eye", a>>)
I == <<"I">>
W == V("W")
WW == Mul(W, W)

Z(m, b, k) == Add(Sub(V(k), Mul(WW, V(m))), Mul(Mul(I, W), V(b)))
H(m, b, k, t) == Neg(Mul(WW, MatMul(V(t), Solve(Z(m, b, k), Tr(V(t))))))
AM(m, b, k, t) == Inv(H(m, b, k, t))
FreeAcc == Neg(Mul(WW, MatMul(V("Ts"), Solve(Z("Ms", "Bs", "Ks"), V("Fs")))))
NT_A == Solve(Add(V("SAM"), V("LAM")), MatMul(V("SAM"), V("As")))
NT_F == MatMul(V("LAM"), V("A"))
NT_Mr == Solve(Add(V("SAM"), V("LAM")), V("SAM"))
\* direct: block matrix [[Zs, 0, Ts'], [0, Zl, -Tl'], [Ts, -Tl, 0]] (zero blocks supplied by the driver as Osl, Ols, Obb)
Kkt == <<"blk", 3, 3, Z("Ms", "Bs", "Ks"), V("Osl"), Tr(V("Ts")),
                      V("Ols"), Z("Ml", "Bl", "Kl"), Neg(Tr(V("Tl"))),
                      V("Ts"), Neg(V("Tl")), V("Obb")>>
Rhs == <<"blk", 3, 1, V("Fs"), V("Ol1"), V("Ob1")>>
DirectX == Solve(Kkt, Rhs)
\* Craig-Bampton form of a component partitioned [b; i]
Psi == Neg(Solve(V("Kii"), V("Kib")))
Tcb == <<"blk", 2, 2, V("Ibb"), V("Obi"), Psi, V("Q")>>
Congr(x) == MatMul(Tr(Tcb), MatMul(V(x), Tcb))
RigidMass == MatMul(Tr(V("Phi")), MatMul(V("M"), V("Phi")))

Forms == {"recovery-select", "recovery-general", "cb"}
Route(form) == IF form = "cb" THEN "cbtf" ELSE "unit-forces"
Cfgs == [nb : {1, 2, 3}, sform : Forms, lform : Forms, damp : {"prop", "full", "noload", "gyro"}, fpos : {"interior", "boundary"}]
\* a general (non-selection) recovery matrix and the CB partition describe the SAME interface only when the general rows are
\* used on both sides consistently: the interface coordinates of Source and Load must be the same physical quantities
Legal(c) == (c.sform = "recovery-general") <=> (c.lform = "recovery-general")
\* the component itself (ignoring how it is handed over): configurations that differ only in form are one class
Canon(c) == [nb |-> c.nb, damp |-> c.damp, fpos |-> c.fpos, general |-> c.sform = "recovery-general"]

VARIABLE q
Init == q \in {c \in Cfgs : Legal(c)}
Next == UNCHANGED q
ClassNonTrivial == Cardinality({c \in Cfgs : Legal(c) /\ Canon(c) = Canon(q)}) >= (IF q.sform = "recovery-general" THEN 1 ELSE 4)
\* both routes are exercised inside every non-general class
RoutesCovered == q.sform # "recovery-general" =>
    {Route(c.sform) : c \in {c \in Cfgs : Legal(c) /\ Canon(c) = Canon(q)}} = {"cbtf", "unit-forces"}
\* the low-frequency rigid-mass law applies when the interface is statically determinate (one rigid-body mode here)
\* and the interface coordinates are physical DOF (a general recovery row with T Phi near 0 makes the referred mass meaningless)
RigidLawApplies(c) == c.nb = 1 /\ c.sform # "recovery-general"
ExportCfg == Export => PrintT(<<"CFG", q, Route(q.sform), Route(q.lform), RigidLawApplies(q)>>)
ExportTerms == (Export /\ q = [nb |-> 1, sform |-> "cb", lform |-> "cb", damp |-> "prop", fpos |-> "interior"]) =>
   PrintT(<<"TERMS", [am |-> AM("M", "B", "K", "T"), freeacc |-> FreeAcc, nta |-> NT_A, ntf |-> NT_F, ntmr |-> NT_Mr,
                      direct |-> DirectX, mcb |-> Congr("M"), bcb |-> Congr("B"), kcb |-> Congr("K"), rigid |-> RigidMass]>>)
=============================================================================
