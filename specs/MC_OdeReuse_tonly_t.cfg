CONSTANTS
  MaxCalls = 4
  Export = TRUE
  HasF = FALSE
  HasG = FALSE
  HasX = FALSE
SPECIFICATION Spec
INVARIANT NoStaleRead
INVARIANT CoefImmutable
INVARIANT ExportHist
