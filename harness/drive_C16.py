"""C16: loads-analysis extrema / envelopes / uncertainty factors.

Part A (extrema state machine, specs/ClaExtrema.tla): TLC enumerates every assignment of per-case maxima/minima
(incl. NaN = row absent, ties) and every order of adding the cases, checks the declarative property on the
model, and exports every reachable state.  Each complete order is replayed into
  (A1) cla.extrema directly (two-column and one-column form, with casenum),
  (A2) DR_Results.time_data_recovery / frf_data_recovery on a minimal DR_Def (maxmin of a crafted response
       matrix, extrema, per-case mx/mn, stored histories, SRS envelope),
  (A3) DR_Results.merge + form_extreme over events (NaN = the event lacks that row),
with the abstract state compared after every action.
Part B (specs/ApplyUF.tla): TLC enumerates call orders of uncertainty-factor tuples sharing one cache and
exports, per call, the documented scaling as terms; replayed into cla.DR_Event.apply_uf / apply_uf."""
import json
import math
import os
import random

from . import tlc
from .runner import main, Run

NAN = 99


def fz(t):
    if isinstance(t, list):
        return tuple(fz(u) for u in t)
    if isinstance(t, dict):
        return tuple(sorted((k, fz(v)) for k, v in t.items()))
    return t


def val(v):
    return float("nan") if v == NAN else float(v)


def same(a, b):
    """exact equality, NaN == NaN"""
    a = float(a)
    b = float(b)
    return (a != a and b != b) or a == b


def asmap(x, depth=1):
    """TLC prints a function with domain 1..n as a tuple: turn it back into {1: .., n: ..}"""
    if isinstance(x, list):
        x = {i + 1: v for i, v in enumerate(x)}
    if depth > 1:
        x = {k: asmap(v, depth - 1) for k, v in x.items()}
    return x


class State:
    def __init__(self, tup):
        (self.form, data, added, ext, extx, maxcase, mincase, mx, mn) = tup[:9]
        self.xless = set(tup[9]) if len(tup) > 9 else set()       # cases that carry no abscissae (spec constant XLess)
        data = asmap(data, 2)
        ext, extx, maxcase, mincase = asmap(ext), asmap(extx), asmap(maxcase), asmap(mincase)
        mx, mn = asmap(mx, 2), asmap(mn, 2)
        self.data = data      # dict case -> dict row -> [mx, mn]
        self.added = list(added)
        self.ext, self.extx, self.maxcase, self.mincase, self.mx, self.mn = ext, extx, maxcase, mincase, mx, mn
        self.rows = sorted(ext.keys())
        self.cases = sorted(data.keys())

    def xmax(self, c):
        return float("nan") if c in self.xless else 10 * c + 1

    def xmin(self, c):
        if c in self.xless:
            return float("nan")
        return 10 * c + 1 if self.form in ("one", "frf") else 10 * c + 2


def check_state(st, ext, ext_x, maxcase, mincase, mx, mn, lab2case, xs_of=None, colmap=None):
    """Compare real members with the exported spec state.  Values exact; a label must name an added case that
    attains the stored value and the abscissa must be one at which that case attains it (ties: any)."""
    R = st.rows
    if ext_x is None and st.xless:
        import numpy as _np
        ext_x = _np.full((len(R), 2), _np.nan)       # "no abscissa recorded at all" = every abscissa unknown
    for i, r in enumerate(R):
        for col in (0, 1):
            if st.form == "one":
                # sign ties (-3 vs 3) are both "the value of largest magnitude": compare magnitudes here, the
                # label check below ties the stored signed value to an actual case
                if not same(abs(ext[i, col]), abs(val(st.ext[r][col]))):
                    return "|ext[%d,%d]|=%r, spec %r" % (i, col, abs(float(ext[i, col])), abs(val(st.ext[r][col])))
            elif not same(ext[i, col], val(st.ext[r][col])):
                return "ext[%d,%d]=%r, spec %r" % (i, col, float(ext[i, col]), val(st.ext[r][col]))
        for col, labs in ((0, maxcase), (1, mincase)):
            c = lab2case.get(labs[i])
            if c is None or c not in st.added:
                return "label %r of column %d row %d does not name an added case" % (labs[i], col, i)
            sv = st.ext[r][col]
            if sv != NAN:
                if st.form == "one":
                    sv = ext[i, col]
                if st.data[c][r][col] != sv:
                    return "label %r (col %d,row %d) names a case whose value %r is not the stored extreme %r" % (
                        labs[i], col, i, st.data[c][r][col], sv)
                if ext_x is not None:
                    ok = xs_of(c, i, col) if xs_of else [st.xmax(c) if col == 0 else st.xmin(c)]
                    if not any(same(ext_x[i, col], x) for x in ok):
                        return "ext_x[%d,%d]=%r is not an abscissa at which case %r attains it (%r)" % (
                            i, col, float(ext_x[i, col]), labs[i], ok)
        for c in st.added:
            j = colmap[c] if colmap else c - 1
            if not same(mx[i, j], val(st.mx[r][c])) or not same(mn[i, j], val(st.mn[r][c])):
                return "per-case mx/mn column %d row %d = (%r,%r), spec (%r,%r)" % (
                    j, i, float(mx[i, j]), float(mn[i, j]), val(st.mx[r][c]), val(st.mn[r][c]))
    return None


# ----------------------------------------------------------------------------------------------
def replay_extrema(states, leaf):
    """A1: cla.extrema called directly"""
    import numpy as np
    from types import SimpleNamespace
    from pyyeti import cla

    st0 = states[leaf]
    R = st0.rows
    nc = len(st0.cases)
    nr = len(R)
    cur = SimpleNamespace(ext=None, ext_x=None, maxcase=None, mincase=None, mx=np.zeros((nr, nc)),
                          mn=np.zeros((nr, nc)), mx_x=np.zeros((nr, nc)), mn_x=np.zeros((nr, nc)))
    lab2case = {}
    for c in st0.cases:
        for i in range(nr):
            lab2case["case %d max r%d" % (c, i)] = c
            lab2case["case %d min r%d" % (c, i)] = c
    key_data = leaf[0]
    given = []
    for n, c in enumerate(st0.added):
        if st0.form in ("two", "frf"):
            e = np.array([[val(st0.data[c][r][0]), val(st0.data[c][r][1])] for r in R])
            x = np.array([[st0.xmax(c), st0.xmin(c)] for r in R], float)
        else:
            e = np.array([[val(st0.data[c][r][0])] for r in R])
            x = np.array([[st0.xmax(c)] for r in R], float)
        maxcase = ["case %d max r%d" % (c, i) for i in range(nr)]
        mincase = ["case %d min r%d" % (c, i) for i in range(nr)]
        if st0.form == "one":
            mincase = None  # one-column form labels both columns from `maxcase`
        if c in st0.xless:
            x = None
        mm = SimpleNamespace(ext=e, ext_x=x)
        given.append((c, mm, e.copy(), None if x is None else x.copy()))
        cla.extrema(cur, mm, maxcase, mincase, c - 1)
        st = states[(key_data, tuple(st0.added[: n + 1]))]
        msg = check_state(st, cur.ext, cur.ext_x, cur.maxcase, cur.mincase, cur.mx, cur.mn, lab2case)
        if msg is None:
            # the spec's AddCase leaves `data` UNCHANGED: a case's own max/min record is never written by later updates
            for cc, mmc, e0, x0 in given:
                if not (np.array_equal(mmc.ext, e0, equal_nan=True) and
                        ((mmc.ext_x is None and x0 is None) or (x0 is not None and mmc.ext_x is not None and np.array_equal(mmc.ext_x, x0, equal_nan=True)))):
                    msg = "the max/min record passed in for case %d was modified by a later update (aliasing)" % cc
        if msg is None and st0.form != "one":
            for i in range(nr):
                if not cur.maxcase[i].endswith("max r%d" % i) or not cur.mincase[i].endswith("min r%d" % i):
                    msg = "row %d labels (%r, %r) were not taken from the max / min label lists of that row" % (
                        i, cur.maxcase[i], cur.mincase[i])
        if msg is None:
            for i, r in enumerate(R):
                if not same(cur.mx_x[i, c - 1], st0.xmax(c)) or not same(cur.mn_x[i, c - 1], st0.xmin(c)):
                    msg = "mx_x/mn_x column of case %d" % c
        if msg:
            return "cla.extrema[%s] after adding %r: %s" % (st0.form, st0.added[: n + 1], msg)
    return None


def _mk_dr(nr, srs=False):
    from pyyeti import cla

    drdefs = cla.DR_Def(dict(se=0, uf_reds=(1, 1, 1, 1)))

    @cla.DR_Def.addcat
    def _():
        name = "cat"
        desc = "verif category"
        units = "N"
        labels = ["row %d" % (i + 1) for i in range(nr)]
        drfunc = "sol.resp"
        histpv = "all"
        if srs:
            srspv = "all"
            srsQs = (10, 25)
            srsfrq = [0.05, 0.11, 0.3]
        drdefs.add(**locals())

    DR = cla.DR_Event()
    DR.add(None, drdefs)
    return DR


def _response_frf(st, c, R):
    import numpy as np

    t = np.array([st.xmax(c) - 1, st.xmax(c), st.xmax(c) + 1], float)
    resp = np.zeros((len(R), 3))
    for i, r in enumerate(R):
        a = st.data[c][r][0]
        resp[i] = [a / 2.0, a, a / 4.0]
    return t, resp


def _response(st, c, R, nan_fill):
    """a response matrix (rows x 3 samples) whose row maxima/minima are the case's spec values, attained at
    sample times XMax(c) / XMin(c); third sample is a filler in between (or NaN)."""
    import numpy as np

    t = np.array([st.xmax(c), st.xmax(c) + 1, st.xmax(c) + 2], float)
    resp = np.zeros((len(R), 3))
    for i, r in enumerate(R):
        a, b = st.data[c][r]
        resp[i] = [a, b, float("nan") if nan_fill else (a + b) / 2.0]
    return t, resp


def replay_dr(states, leaf, domain, srs):
    """A2: time_data_recovery / frf_data_recovery"""
    import numpy as np
    from types import SimpleNamespace

    st0 = states[leaf]
    R = st0.rows
    nc = len(st0.cases)
    DR = _mk_dr(len(R), srs)
    results = DR.prepare_results("verif", "event")
    lab2case = {"case %d" % c: c for c in st0.cases}
    resp_of = {}
    for n, c in enumerate(st0.added):
        t, resp = _response(st0, c, R, nan_fill=(c % 2 == 0 and not srs)) if domain == "time" else _response_frf(st0, c, R)
        resp_of[c] = (t, resp)
        if domain == "time":
            sol = {(1, 1, 1, 1): SimpleNamespace(resp=resp, t=t, h=1.0)}
            results.time_data_recovery(sol, None, "case %d" % c, DR, nc, c - 1, dosrs=srs)
        else:
            ph = np.exp(1j * (0.3 + np.arange(3)))
            sol = {(1, 1, 1, 1): SimpleNamespace(resp=resp * ph, f=t)}
            results.frf_data_recovery(sol, None, "case %d" % c, DR, nc, c - 1, dosrs=False)
        res = results["cat"]
        st = states[(leaf[0], tuple(st0.added[: n + 1]))]

        def xs_of(cc, i, col):
            tt, rr = resp_of[cc]
            v = abs(st.data[cc][R[i]][col]) if domain == "frf" else st.data[cc][R[i]][col]
            return [tt[k] for k in range(3) if rr[i, k] == v]

        msg = check_state(st, res.ext, res.ext_x, res.maxcase, res.mincase, res.mx, res.mn, lab2case, xs_of)
        if msg is None:
            for cc in st.added:
                if res.cases[cc - 1] != "case %d" % cc:
                    msg = "cases[%d] = %r" % (cc - 1, res.cases[cc - 1])
                tt, rr = resp_of[cc]
                stored = res.hist[cc - 1] if domain == "time" else res.frf[cc - 1]
                want = rr if domain == "time" else rr * np.exp(1j * (0.3 + np.arange(3)))
                if not np.array_equal(stored, want, equal_nan=True):
                    msg = "stored history of case %d differs from the recovered response" % cc
        if msg is None and srs and domain == "time":
            for q in (10, 25):
                env = None
                for cc in st.added:
                    cur = res.srs.srs[q][cc - 1]
                    env = cur if env is None else np.fmax(env, cur)
                if not np.array_equal(res.srs.ext[q], env, equal_nan=True):
                    msg = "SRS envelope (Q=%d) is not the maximum over the added cases" % q
        if msg:
            return "%s_data_recovery after adding %r: %s" % (domain, st0.added[: n + 1], msg)
    return None


def replay_form_extreme(states, leaf, use_case_order):
    """A3: one event per spec case (one load case each); merge + form_extreme; NaN = row absent in that event"""
    import numpy as np
    from types import SimpleNamespace
    from pyyeti import cla

    st0 = states[leaf]
    R = st0.rows
    evs = {}
    resp_of = {}
    for c in st0.cases:
        present = [r for r in R if st0.data[c][r][0] != NAN]
        if not present:
            return "skip"
        drdefs = cla.DR_Def(dict(se=0, uf_reds=(1, 1, 1, 1)))

        @cla.DR_Def.addcat
        def _():
            name = "cat"
            desc = "verif category"
            labels = ["row %d" % r for r in present]
            drfunc = "sol.resp"
            drdefs.add(**locals())

        DR = cla.DR_Event()
        DR.add(None, drdefs)
        res = DR.prepare_results("verif", "ev%d" % c)
        t, resp = _response(st0, c, present, nan_fill=False)
        resp_of[c] = (t, resp, present)
        if c in st0.xless:
            # an event whose maxima / minima come from an external source without abscissae (documented use of add_maxmin)
            res.add_maxmin("cat", np.array([[val(st0.data[c][r][0]), val(st0.data[c][r][1])] for r in present]), "lc")
        else:
            res.time_data_recovery({(1, 1, 1, 1): SimpleNamespace(resp=resp, t=t, h=1.0)}, None, "lc", DR, 1, 0, dosrs=False)
        evs[c] = res
    import copy as _copy
    snap = {c: _copy.deepcopy({k: getattr(evs[c]["cat"], k, None) for k in ("ext", "ext_x", "mx", "mn", "mx_x", "mn_x", "maxcase", "mincase")})
            for c in evs}
    top = cla.DR_Results()
    order = st0.added
    if use_case_order:
        top.merge([evs[c] for c in sorted(evs)])
        top.form_extreme(case_order=["ev%d" % c for c in order])
    else:
        top.merge([evs[c] for c in order])
        top.form_extreme()
    e = top["extreme"]["cat"]
    labels = e.drminfo.labels
    want_rows = [r for r in R if any(st0.data[c][r][0] != NAN for c in st0.cases)]
    if sorted(labels) != sorted("row %d" % r for r in want_rows):
        return "form_extreme row labels %r" % (labels,)
    # reorder real rows into spec row order
    idx = [labels.index("row %d" % r) for r in want_rows]
    sub = State((st0.form, st0.data, st0.added, {r: st0.ext[r] for r in want_rows}, st0.extx, st0.maxcase, st0.mincase,
                 st0.mx, st0.mn))
    sub.rows = want_rows
    lab2case = {"ev%d" % c: c for c in st0.cases}
    colmap = {c: j for j, c in enumerate(order)}

    def xs_of(cc, i, col):
        if cc in st0.xless:
            return [float("nan")]
        tt, rr, pres = resp_of[cc]
        ri = pres.index(want_rows[i])
        v = st0.data[cc][want_rows[i]][col]
        return [tt[k] for k in range(3) if rr[ri, k] == v]

    msg = check_state(sub, e.ext[idx], None if e.ext_x is None else e.ext_x[idx], [e.maxcase[i] for i in idx], [e.mincase[i] for i in idx],
                      e.mx[idx], e.mn[idx], lab2case, xs_of, colmap)
    if msg is None and list(e.cases) != ["ev%d" % c for c in order]:
        msg = "cases = %r" % (e.cases,)

    def parts_changed():
        for c in evs:
            for k, v0 in snap[c].items():
                v1 = getattr(evs[c]["cat"], k, None)
                same_ = (v0 == v1) if (isinstance(v0, list) or v0 is None or v1 is None) else np.array_equal(v0, v1, equal_nan=True)
                if not same_:
                    return "forming the envelope modified the tables of event ev%d (%s)" % (c, k)
        return None

    if msg is None:
        msg = parts_changed()
    if msg is None:
        first = {k: _copy.deepcopy(getattr(e, k)) for k in ("ext", "ext_x", "mx", "mn", "mx_x", "mn_x", "maxcase", "mincase")}
        if use_case_order:
            top.form_extreme(case_order=["ev%d" % c for c in order])
        else:
            top.form_extreme()
        e2 = top["extreme"]["cat"]
        for k, v0 in first.items():
            v1 = getattr(e2, k)
            same_ = (v0 == v1) if (isinstance(v0, list) or v0 is None or v1 is None) else np.array_equal(v0, v1, equal_nan=True)
            if not same_:
                msg = "a second form_extreme() gives a different envelope (%s)" % k
        msg = msg or parts_changed()
    if msg:
        return "form_extreme(order %r, case_order=%s): %s" % (order, use_case_order, msg)
    return None


# ----------------------------------------------------------------------------------------------
def part_A(run, alphas):
    leaves_total = 0
    for alpha in alphas:
        cfg = "MC_ClaExtrema_%s.cfg" % alpha
        res = tlc.run("ClaExtrema", cfg, timeout=900, heap="8g")
        if res.violation:
            run.add_tlc(cfg, res)
            run.violation("TLC: %s on the model (%s)" % (res.violation, cfg), {"tlc": res.error_text()}, {"where": "model"})
            return
        run.add_tlc(cfg, res, "invariants TrueExtTwo TrueExtOne LabelsAttain PerCase")
        states = {}
        for tup in res.tagged("EXT"):
            st = State(tup)
            states[(fz(st.data), tuple(st.added))] = st
        nc = max(len(s.added) for s in states.values())
        leaves = sorted(k for k, s in states.items() if len(s.added) == nc)
        rnd = random.Random(run.seed)
        if run.tier == "quick" and len(leaves) > 2500:
            leaves = rnd.sample(leaves, 2500)
        elif run.tier != "quick" and len(leaves) > 60000:
            leaves = rnd.sample(leaves, 60000)          # the widest alphabet (two1w) has 160k complete orders: TLC checks them all, 60k are replayed
        for li, leaf in enumerate(leaves):
            st = states[leaf]
            has_nan = any(v[0] == NAN for c in st.cases for v in st.data[c].values())
            distinct_vals = len(set(fz(st.data[c]) for c in st.cases)) > 1
            jobs = [("extrema", lambda: replay_extrema(states, leaf))]
            if not has_nan and st.form == "two" and not st.xless:
                jobs.append(("time_dr", lambda: replay_dr(states, leaf, "time", srs=(li % 5 == 0))))
            if st.form == "frf":
                jobs = [("extrema", jobs[0][1]), ("frf_dr", lambda: replay_dr(states, leaf, "frf", False))]
            if st.form == "two":
                jobs.append(("form_extreme", lambda: replay_form_extreme(states, leaf, li % 2 == 0)))
            for name, job in jobs:
                try:
                    msg = job()
                except Exception as ex:
                    import traceback
                    msg = "%s raised %r: %s" % (name, ex, traceback.format_exc()[-400:])
                if msg == "skip":
                    continue
                run.case((alpha, name, leaf), nontrivial=distinct_vals, part="A:" + name)
                run.trace_validated()
                if msg:
                    onecol = st.form == "one"
                    run.violation(msg, {"alpha": alpha, "target": name, "data": st.data, "order": st.added},
                                  {"target": name, "form": st.form})
            if li < 2:
                run.sample({"alphabet": alpha, "data(case->row->[max,min], 99=NaN)": st.data, "order_added": st.added,
                            "spec_ext": st.ext, "spec_maxcase": st.maxcase})
        leaves_total += len(leaves)
    run.extra["orders_replayed"] = leaves_total


# ----------------------------------------------------------------------------------------------
def part_B(run):
    from . import drive_C16_uf
    drive_C16_uf.run_uf(run)


def part_C(run):
    from . import drive_C16_tree
    drive_C16_tree.tree_part(run)


def body(run: Run, replay):
    run.rule = ("A: TLC enumerates per-case (max,min) assignments over small alphabets incl. NaN and ties x all orders of adding the "
                "cases (two- and one-column forms, 1-2 rows, 3-4 cases), exports every state; each complete order is replayed into "
                "cla.extrema, time/frf_data_recovery and merge+form_extreme with the abstract state compared after every action "
                "(values exact; labels/abscissae must name an attaining case). B: TLC enumerates call orders of uf tuples sharing one "
                "cache; apply_uf replayed with cached = fresh bit-for-bit and the documented scaling as terms. C (specs/ResultsTree.tla): "
                "hierarchies of events (2-3 levels) edited and re-enveloped: histories of form_extreme(doappend 0-3, case_order) / "
                "delete_extreme / split+merge / del replayed on real DR_Results trees, the whole tree compared after every action. "
                "distinct non-trivial = "
                "(target, data, order) with at least two different cases")
    run.assumptions = ["one-column form semantics: column 1 = value of largest magnitude, column 2 = value of smallest magnitude (as in "
                       "the repository's own test_extrema_1)",
                       "ties: any attaining case/abscissa accepted (the statement does not fix which)",
                       "psd_data_recovery is bound only through the shared extrema/_store_maxmin path (np.trapz-free part)"]
    if replay:
        rec = json.load(open(replay))["case"]
        alphas = [rec.get("alpha")] if rec.get("alpha") else []
        if alphas:
            part_A(run, alphas)
        elif rec.get("shape"):
            part_C(run)
        else:
            part_B(run)
        return
    alphas = ["two1", "two2", "frf2", "one1", "one2", "one2n", "two1x1", "two1x23", "one2x1"]
    if run.tier == "thorough":
        alphas.append("two1w")
    part_A(run, alphas)
    part_B(run)
    part_C(run)


if __name__ == "__main__":
    main("C16", "model_checking", body)
