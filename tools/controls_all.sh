#!/bin/sh
# runs every mutation control (mutants/Cxx.json) against the quick checks, four properties at a time, and writes controls_summary.txt
# with arguments (property ids): runs those only and replaces their sections in controls_summary.txt
cd "$(dirname "$0")/.." || exit 2
out=controls_summary.txt
tmpd=$(mktemp -d /tmp/controls_XXXXXX)
if [ $# -gt 0 ]; then props="$*"; else props=$(ls mutants/C*.json | sed 's#mutants/##; s#\.json##'); fi
echo $props | tr ' ' '\n' | xargs -P 4 -I{} sh -c 'timeout 14400 tools/muttest.py {} 2>&1 | grep -v "^WARN" | cut -c1-220 > '"$tmpd"'/{}.txt'
python3 - "$tmpd" $props <<'PY'
import sys, os, re
tmpd, props = sys.argv[1], sys.argv[2:]
out = "controls_summary.txt"
sec = {}
if os.path.exists(out):
    cur = None
    for ln in open(out):
        m = re.match(r"### (C\d\d)", ln)
        if m:
            cur = m.group(1); sec[cur] = []
        elif cur:
            sec[cur].append(ln)
for p in props:
    sec[p] = open(os.path.join(tmpd, p + ".txt")).readlines()
with open(out + ".new", "w") as f:
    for p in sorted(sec):
        f.write("### %s\n" % p); f.writelines(sec[p])
os.replace(out + ".new", out)
PY
rm -rf $tmpd
echo done
