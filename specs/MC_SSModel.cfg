CONSTANTS
  Export = TRUE
  MaxOps = 2
SPECIFICATION Spec
INVARIANT DomainParity
INVARIANT ReduceOK
INVARIANT ExportHist
INVARIANT ExportTerms
