CONSTANTS
  NR = 3
  NC = 2
  NV = 1
  WPV = 2
  CPLX = 1
  Ascii = TRUE
  PerLine = 1
  RowOffset = 0
  WriterOnly = FALSE
  Export = TRUE
INIT Init
NEXT Next
INVARIANT DecodeIsIdentity
INVARIANT LayoutRecognised
INVARIANT SkipExact
INVARIANT FieldRanges
INVARIANT ExportOK
