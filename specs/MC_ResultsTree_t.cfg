CONSTANTS
  MaxOps = 3
  Export = TRUE
  ShapeSet = {"mixed"}
  ValSet = "three"
  DataMod = 9
  Track = TRUE
SPECIFICATION Spec
INVARIANT Bounded
INVARIANT FreshAfterForm
INVARIANT CleanAfterDelete
INVARIANT ExportHist
CHECK_DEADLOCK FALSE
