CONSTANTS
  Export = TRUE
  MaxItems1 = 2
  MaxItems2 = 2
SPECIFICATION Spec
INVARIANT DeliversExpansion
INVARIANT PrefixSoFar
INVARIANT DepthBound
INVARIANT ExportTree
INVARIANT WrLaws
INVARIANT ExportWr
PROPERTY Terminates
