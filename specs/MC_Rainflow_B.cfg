CONSTANTS
  MaxLen = 9
  MaxVal = 2
  Export = TRUE
INIT Init
NEXT Next
INVARIANT TypeOK
INVARIANT ImplIsRef
INVARIANT SliceExact
INVARIANT CountIdentity
INVARIANT CountsAll
INVARIANT RowsNameTheirPoints
INVARIANT LargestCounted
INVARIANT Laws
INVARIANT LayoutLaw
INVARIANT ExportLayouts
INVARIANT ExportOK
PROPERTY InputNeverWritten
