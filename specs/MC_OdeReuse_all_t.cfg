CONSTANTS
  MaxCalls = 4
  Export = TRUE
  HasF = TRUE
  HasG = TRUE
  HasX = TRUE
SPECIFICATION Spec
INVARIANT NoStaleRead
INVARIANT CoefImmutable
INVARIANT ExportHist
