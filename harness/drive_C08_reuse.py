"""Growth of C08: one solver object reused for a history of public calls (specs/OdeReuse.tla).
Every history exported by TLC is replayed on ONE object; each call's result must be bit-identical to the result of the
same call on a FRESH object (the answer of a call is a function of its arguments alone)."""
import json

from . import tlc


def _same(np, a, b):
    if a is None or b is None:
        return a is b
    a = np.asarray(a)
    b = np.asarray(b)
    return a.shape == b.shape and a.dtype == b.dtype and a.tobytes() == b.tobytes()


def reuse_part(run):
    import numpy as np
    import warnings
    from pyyeti import ode
    from . import odesys
    warnings.simplefilter("ignore")
    quick = run.tier == "quick"
    rng = np.random.default_rng(run.seed + 88)

    def cubic(d, j, h, c=1.0):
        return np.array([c * d[0, j] ** 3])

    plans = []
    for name, kind, alphabet in (("SolveUnc/diag", "diag", "all"), ("SolveUnc/coupled", "coupled", "all"), ("SolveUnc/cd_as_force", "cdamp", "all_nof"),
                                 ("SolveCDF", "cdamp", "all_nof"), ("SolveExp2", "coupled", "all_nof"), ("SolveNewmark/nonlinear", "cdamp", "tonly"),
                                 ("FreqDirect", "coupled", "fonly")):
        plans.append((name, kind, alphabet))
    exported = {}
    for alpha, cfgv in (("all", "all"), ("tonly", "tonly"), ("fonly", "fonly")):
        cfg = "MC_OdeReuse_%s_%s.cfg" % (cfgv, "q" if quick else "t")
        res = tlc.run("OdeReuse", cfg, timeout=900)
        run.add_tlc(cfg, res, "NoStaleRead, CoefImmutable on every call history of one solver object")
        if res.violation:
            run.violation("TLC: %s on the OdeReuse model" % res.violation, {"tlc": res.error_text()}, {"where": "model"})
            return
        exported[alpha] = [h[0] for h in res.tagged("REUSE")]
    exported["all_nof"] = [h for h in exported["all"] if all(c[0] != "F" for c in h)]
    exported["fonly"] = [h for h in exported["fonly"] if all(c[0] == "F" for c in h)]
    for name, kind, alpha in plans:
        # under-damped modes on the complex-eigenvalue path: the conjugate-pair bookkeeping (delete for time domain, add back for
        # frequency domain) is then really toggled by alternating calls
        s = odesys.make_system(rng, kind, 1, 3, 1, "mat" if kind == "coupled" else "vec", zetas=[0.02, 0.05, 0.1] if kind == "coupled" else None)
        n, h = s["n"], s["h"]
        rf = s["rf"] if not name.startswith("SolveNewmark") else None      # nonlinear terms are not used together with rf
        if rf is None:
            s = odesys.make_system(rng, kind, 1, 3, 0, "vec")
            n, h = s["n"], s["h"]
        nt = 9
        Fm = {1: rng.standard_normal((n, nt)), 2: rng.standard_normal((n, nt)) * 3.0}
        freq = np.array([0.0, 3.0, 11.0, 40.0]) if "FreqDirect" not in name else np.array([3.0, 11.0, 40.0])
        freq2 = freq.copy()
        freq2[1:-1] = freq[1:-1] * 1.37            # same length, same end points, other interior frequencies
        freqs = {1: freq, 2: freq2}
        Fc = {1: rng.standard_normal((n, len(freq))) + 1j * rng.standard_normal((n, len(freq))), 2: rng.standard_normal((n, len(freq))) + 0j}
        d0 = rng.standard_normal(n) * 1e-3
        v0 = rng.standard_normal(n) * 1e-1
        phi = rng.standard_normal((2, n))

        def mk():
            if name.startswith("SolveUnc/cd_as_force"):
                return ode.SolveUnc(s["m"], s["b"], s["k"], h, rf=rf, cd_as_force=True)
            if name.startswith("SolveUnc"):
                return ode.SolveUnc(s["m"], s["b"], s["k"], h, rf=rf)
            if name == "SolveCDF":
                return ode.SolveCDF(s["m"], s["b"], s["k"], h, rf=rf)
            if name == "SolveExp2":
                return ode.SolveExp2(s["m"], s["b"], s["k"], h, rf=rf)
            if name.startswith("SolveNewmark"):
                ts = ode.SolveNewmark(s["m"], s["b"], s["k"], h, rf=rf)
                T = np.zeros((n, 1))
                T[1, 0] = 1.0
                ts.def_nonlin({"cub": (cubic, T, dict(c=40.0))})
                return ts
            return ode.FreqDirect(s["m"], s["b"], s["k"], rf=rf)

        def do(ts, c):
            k = c[0]
            if k == "T":
                a = (d0, v0) if c[2] == "d0v0" else (None, None)
                sol = ts.tsolve(Fm[c[1]].copy(), *a)
                out = [sol.d, sol.v, sol.a]
                if hasattr(sol, "z") and isinstance(getattr(sol, "z", None), dict):
                    out += [sol.z[key] for key in sorted(sol.z)]
                return out
            if k == "F":
                sol = ts.fsolve(Fc[c[1]].copy(), freqs[c[3]], incrb=c[2])
                return [sol.d, sol.v, sol.a]
            if k == "G":
                F = Fm[c[1]]
                gen, d, v = ts.generator(nt, F[:, 0].copy(), d0, v0)
                for i in range(1, nt):
                    gen.send((i, F[:, i].copy()))
                for _ in range(c[2]):
                    gen.send((-1, 0.25 * F[:, 1].copy()))
                sol = ts.finalize()
                return [sol.d, sol.v, sol.a]
            if k == "X":
                return [ts.get_f2x(phi), ts.get_f2x(phi, velo=True)]
            raise ValueError(k)

        hs = exported[alpha]
        if quick:
            hs = hs[:: max(1, len(hs) // 150)]
        fresh = {}
        for hist in hs:
            run.case(("reuse", name, json.dumps(hist)), part="object reuse " + name)
            try:
                ts = mk()
                earlier = []
                for ci, c in enumerate(hist):
                    key = json.dumps(c)
                    if key not in fresh:
                        fresh[key] = do(mk(), c)
                    got = do(ts, c)
                    want = fresh[key]
                    if len(got) != len(want) or not all(_same(np, g, w) for g, w in zip(got, want)):
                        dev = max((float(np.abs(np.asarray(g) - np.asarray(w)).max()) for g, w in zip(got, want) if np.shape(g) == np.shape(w)), default=float("nan"))
                        run.violation("%s: call %d (%s) of the history %s on one object differs from the same call on a fresh object (max |diff| %.3g)" % (
                            name, ci + 1, c, hist, dev), {"solver": name, "hist": hist}, {"solver": name, "part": "reuse", "call": c[0]})
                        break
                    # results handed out by earlier calls stay what they were
                    for (cj, res_j, snap_j) in earlier:
                        if not all(_same(np, g, w) for g, w in zip(res_j, snap_j)):
                            # whether a returned array may be a view of a buffer the object reuses is outside the property
                            run.deviation("OdeReuse (aliasing)", "%s: the result returned by call %d (%s) was modified by call %d (%s)" % (name, cj + 1, hist[cj], ci + 1, c),
                                          {"solver": name, "hist": hist})
                            earlier = []
                            break
                    earlier.append((ci, got, [np.array(g, copy=True) for g in got]))
            except Exception as ex:
                run.violation("%s: history %s raised %r" % (name, hist, ex), {"solver": name, "hist": hist}, {"solver": name, "part": "reuse"})
            run.trace_validated()
