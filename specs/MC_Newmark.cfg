CONSTANTS
  NTs = {2, 3, 4, 7}
  Export = TRUE
SPECIFICATION Spec
INVARIANT ScheduleOK
INVARIANT ExportOK
INVARIANT ExportRules
