----------------------------- MODULE Rainflow -----------------------------
(***************************************************************************)
(* C05.  Rainflow cycle counting.                                          *)
(*                                                                         *)
(*  Ref(s)   the ASTM E1049-85 rainflow procedure (steps 1-6) written on a *)
(*           sequence of not-yet-discarded reversals with explicit removal.*)
(*  Impl     the shape shared by c_rain.c and py_rain.py: in-place work    *)
(*           arrays pts[] / cidx[], stack index j, the `j = 2` shift, the  *)
(*           tail loop and the final slice to L - fullcyclesp1 rows, one   *)
(*           action per program step (Read, Cmp/CountHalf/CountFull,       *)
(*           FlushRow, Slice).                                             *)
(*                                                                         *)
(* A row is <<amp2, mean2, cnt2, start, stop>> = <<|a-b|, a+b, 2*count,    *)
(* offset of a, offset of b>>: doubled so integer inputs stay integers.    *)
(* Every output row is one Count*/Flush action in emission order, so the   *)
(* table with offsets returned by the code IS its action trace.            *)
(***************************************************************************)
EXTENDS Integers, Sequences, FiniteSets, TLC

CONSTANTS MaxLen, MaxVal, Export

Abs(x) == IF x < 0 THEN -x ELSE x

Row(a, b, cnt2) == <<Abs(a[1] - b[1]), a[1] + b[1], cnt2, a[2], b[2]>>

---------------------------------------------------------------------------
(* Reference: ASTM E1049-85 5.4.4                                          *)

RECURSIVE Reduce(_, _)
Reduce(st, acc) ==                     \* steps 2-5 until "go to 1"
  LET n == Len(st) IN
  IF n < 3 THEN <<st, acc>>            \* step 2: fewer than three points
  ELSE LET a == st[n - 2]
           b == st[n - 1]
           c == st[n]
           Y == Abs(a[1] - b[1])
           X == Abs(b[1] - c[1])
       IN IF X < Y THEN <<st, acc>>    \* step 3
          ELSE IF n = 3                \* step 4: Y contains the starting point S
               THEN Reduce(<<b, c>>, Append(acc, Row(a, b, 1)))              \* step 5
               ELSE Reduce(SubSeq(st, 1, n - 3) \o <<c>>, Append(acc, Row(a, b, 2)))

RECURSIVE RefGo(_, _, _, _)
RefGo(s, i, st, acc) ==
  IF i > Len(s)
  THEN acc \o [m \in 1..(Len(st) - 1) |-> Row(st[m], st[m + 1], 1)]          \* step 6
  ELSE LET r == Reduce(Append(st, <<s[i], i - 1>>), acc)                     \* step 1
       IN RefGo(s, i + 1, r[1], r[2])

Ref(s) == RefGo(s, 1, <<>>, <<>>)

---------------------------------------------------------------------------
(* Implementation-shaped state machine                                     *)

VARIABLES inp, pc, k, j, pts, cidx, out, fc1, fk

vars == <<inp, pc, k, j, pts, cidx, out, fc1, fk>>

L == Len(inp)
Idx == 0..(MaxLen - 1)

Inputs == UNION {[1..n -> 0..MaxVal] : n \in 2..MaxLen}

Init == /\ inp \in Inputs
        /\ pc = "read"
        /\ k = 0
        /\ j = -1
        /\ pts = [i \in Idx |-> 0]
        /\ cidx = [i \in Idx |-> 0]
        /\ out = <<>>
        /\ fc1 = 1
        /\ fk = 0

Read == /\ pc = "read" /\ k < L
        /\ j' = j + 1
        /\ pts' = [pts EXCEPT ![j + 1] = inp[k + 1]]
        /\ cidx' = [cidx EXCEPT ![j + 1] = k]
        /\ k' = k + 1
        /\ pc' = "cmp"
        /\ UNCHANGED <<inp, out, fc1, fk>>

EndOfData == /\ pc = "read" /\ k = L
             /\ pc' = "flush" /\ fk' = 0
             /\ UNCHANGED <<inp, k, j, pts, cidx, out, fc1>>

Y == Abs(pts[j - 2] - pts[j - 1])
X == Abs(pts[j - 1] - pts[j])

CmpBreak == /\ pc = "cmp"
            /\ (IF j <= 1 THEN TRUE ELSE X < Y)
            /\ pc' = "read"
            /\ UNCHANGED <<inp, k, j, pts, cidx, out, fc1, fk>>

CountHalf == /\ pc = "cmp" /\ j = 2 /\ ~(X < Y)
             /\ out' = Append(out, <<Y, pts[0] + pts[1], 1, cidx[0], cidx[1]>>)
             /\ pts' = [pts EXCEPT ![0] = pts[1], ![1] = pts[2]]
             /\ cidx' = [cidx EXCEPT ![0] = cidx[1], ![1] = cidx[2]]
             /\ j' = 1
             /\ UNCHANGED <<inp, pc, k, fc1, fk>>

CountFull == /\ pc = "cmp" /\ j > 2 /\ ~(X < Y)
             /\ fc1' = fc1 + 1
             /\ out' = Append(out, <<Y, pts[j - 2] + pts[j - 1], 2, cidx[j - 2], cidx[j - 1]>>)
             /\ pts' = [pts EXCEPT ![j - 2] = pts[j]]
             /\ cidx' = [cidx EXCEPT ![j - 2] = cidx[j]]
             /\ j' = j - 2
             /\ UNCHANGED <<inp, pc, k, fk>>

FlushRow == /\ pc = "flush" /\ fk < j
            /\ out' = Append(out, <<Abs(pts[fk] - pts[fk + 1]), pts[fk] + pts[fk + 1], 1,
                                    cidx[fk], cidx[fk + 1]>>)
            /\ fk' = fk + 1
            /\ UNCHANGED <<inp, pc, k, j, pts, cidx, fc1>>

Slice == /\ pc = "flush" /\ fk >= j
         /\ out' = SubSeq(out, 1, L - fc1)       \* rf[: L - fullcyclesp1]
         /\ pc' = "done"
         /\ UNCHANGED <<inp, k, j, pts, cidx, fc1, fk>>

Next == Read \/ EndOfData \/ CmpBreak \/ CountHalf \/ CountFull \/ FlushRow \/ Slice

Spec == Init /\ [][Next]_vars

---------------------------------------------------------------------------
(* Properties                                                              *)

Sum2(rows) == LET RECURSIVE S(_) S(i) == IF i = 0 THEN 0 ELSE rows[i][3] + S(i - 1) IN S(Len(rows))

\* the implementation's output equals the ASTM reference, for every input
ImplIsRef == pc = "done" => out = Ref(inp)

\* the final slice drops nothing and nothing is missing: rows written = L - fullcyclesp1
SliceExact == (pc = "flush" /\ fk >= j) => Len(out) = L - fc1

\* inductive counting identity: twice the counts emitted so far + stack height = points read - 1
CountIdentity == (pc \in {"read", "cmp"} /\ k >= 1) => Sum2(out) + j = k - 1

\* every range counted exactly once: 2 * sum(count) = L - 1
CountsAll == pc = "done" => Sum2(out) = L - 1

\* each row's amp/mean are those of the reversals its offsets name
RowsNameTheirPoints ==
  pc = "done" => \A r \in 1..Len(out) :
      LET a == inp[out[r][4] + 1]  b == inp[out[r][5] + 1]
      IN /\ out[r][1] = Abs(a - b) /\ out[r][2] = a + b /\ out[r][4] < out[r][5]

\* the largest range (max - min of the input) is always counted
SetMax(S) == CHOOSE x \in S : \A y \in S : y <= x
SetMin(S) == CHOOSE x \in S : \A y \in S : y >= x
Vals == {inp[i] : i \in 1..L}
\* "reversal points": consecutive differences are non-zero and alternate in sign.  For
\* non-alternating input (monotone runs, repeats) the clause does not apply: <<0,1,2>> is
\* counted as the two half-ranges 0-1 and 1-2 by ASTM and by the code alike.
Alternating(s) == /\ \A i \in 1..(Len(s) - 1) : s[i] # s[i + 1]
                  /\ \A i \in 1..(Len(s) - 2) : (s[i + 1] - s[i]) * (s[i + 2] - s[i + 1]) < 0
LargestCounted == (pc = "done" /\ Alternating(inp)) => \E r \in 1..Len(out) : out[r][1] = SetMax(Vals) - SetMin(Vals)

\* metamorphic laws of the reference (negate, shift, scale by 2)
MapSeq(s, F(_)) == [i \in 1..Len(s) |-> F(s[i])]
Neg(x) == -x
Sh(x) == x + 3
Dbl(x) == 2 * x
Laws == pc = "done" =>
   /\ Ref(MapSeq(inp, Neg)) = [r \in 1..Len(out) |-> <<out[r][1], -out[r][2], out[r][3], out[r][4], out[r][5]>>]
   /\ Ref(MapSeq(inp, Sh))  = [r \in 1..Len(out) |-> <<out[r][1], out[r][2] + 6, out[r][3], out[r][4], out[r][5]>>]
   /\ Ref(MapSeq(inp, Dbl)) = [r \in 1..Len(out) |-> <<2 * out[r][1], 2 * out[r][2], out[r][3], out[r][4], out[r][5]>>]

TypeOK == /\ j \in -1..(MaxLen - 1) /\ k \in 0..MaxLen /\ fc1 \in 1..MaxLen
          /\ pc \in {"read", "cmp", "flush", "done"}

\* behaviour export: the expected table for every input, printed from terminal states
---------------------------------------------------------------------------
(* Memory layouts.  The machine reads the caller's sequence only as          *)
(* inp[k + 1] and never writes it (its work arrays pts / cidx are its own).  *)
(* A caller's array need not be contiguous: it may be every second cell of   *)
(* a longer buffer, a column of a row-major table, or a reversed view.       *)
(* Buffer is the memory image, ViewOf what indexing through (offset, stride) *)
(* reads; the other cells hold Filler, a value no input contains.            *)
Layouts(n) == { [name |-> "contiguous", off |-> 0, stride |-> 1, len |-> n],
                [name |-> "every2nd", off |-> 0, stride |-> 2, len |-> 2 * n - 1],
                [name |-> "column", off |-> 1, stride |-> 3, len |-> 3 * n],
                [name |-> "reversed", off |-> n - 1, stride |-> 0 - 1, len |-> n] }
Filler == MaxVal + 7
Cell(lay, i) == lay.off + (i - 1) * lay.stride
Buffer(s, lay) == [a \in 0..(lay.len - 1) |->
                     IF \E i \in 1..Len(s) : a = Cell(lay, i) THEN s[CHOOSE i \in 1..Len(s) : a = Cell(lay, i)] ELSE Filler]
ViewOf(buf, lay, n) == [i \in 1..n |-> buf[Cell(lay, i)]]
LayoutLaw == \A lay \in Layouts(L) :
   /\ \A i \in 1..L : Cell(lay, i) \in 0..(lay.len - 1)
   /\ ViewOf(Buffer(inp, lay), lay, L) = inp
   /\ (lay.name # "contiguous" /\ lay.name # "reversed" => \E a \in 0..(lay.len - 1) : Buffer(inp, lay)[a] = Filler)
InputNeverWritten == [][inp' = inp]_vars
ExportLayouts == (Export /\ pc = "read" /\ k = 0 /\ \A i \in 1..L : inp[i] = 0) => PrintT(<<"LAYOUT", L, Layouts(L), Filler>>)

ExportOK == (Export /\ pc = "done") => PrintT(<<"RF", inp, out>>)

=============================================================================
