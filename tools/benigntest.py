#!/venv/bin/python
"""False-alarm control: apply a property-preserving change (made by a sub-agent that saw only the property text) to a scratch
worktree of /repo HEAD and run the property's check on it.  The check must exit 0 and print no VIOLATION line.
usage: tools/benigntest.py <Cxx> <patch.diff> <benign-id> [argue.md] [--tier quick]
Result recorded in /verif/benign/<benign-id>/ (patch.diff, argue.md, meta.json)."""
import json, os, shutil, subprocess, sys, tempfile, time

VERIF = os.path.dirname(os.path.dirname(os.path.abspath(__file__)))


def main():
    pid, patch, bid = sys.argv[1:4]
    argue = sys.argv[4] if len(sys.argv) > 4 and not sys.argv[4].startswith("--") else None
    tier = sys.argv[sys.argv.index("--tier") + 1] if "--tier" in sys.argv else "quick"
    wt = tempfile.mkdtemp(prefix="benignchk_", dir="/tmp")
    os.rmdir(wt)
    subprocess.run(["git", "-C", "/repo", "worktree", "add", "-q", "--detach", wt, "HEAD"], check=True)
    meta = {"property": pid, "benign_id": bid, "repo_head": subprocess.check_output(["git", "-C", "/repo", "rev-parse", "--short", "HEAD"], text=True).strip()}
    try:
        r = subprocess.run(["git", "-C", wt, "apply", os.path.abspath(patch)], stdout=subprocess.PIPE, stderr=subprocess.STDOUT, text=True)
        if r.returncode:
            print("patch does not apply:", r.stdout)
            return 2
        ev = tempfile.mkdtemp(prefix="benignevid_")
        t0 = time.time()
        p = subprocess.run([os.path.join(VERIF, "check"), pid, "--tier", tier], env=dict(os.environ, VERIF_REPO=wt, VERIF_EVID_DIR=ev),
                           stdout=subprocess.PIPE, stderr=subprocess.STDOUT, text=True)
        shutil.rmtree(ev, ignore_errors=True)
        clause = [l.strip() for l in p.stdout.splitlines() if "failing clause" in l][:3]
        devs = [l.strip() for l in p.stdout.splitlines() if l.startswith("SPEC-DEVIATION:")][:3]
        quiet = p.returncode == 0 and "VIOLATION" not in p.stdout
        meta["check"] = {"cmd": "VERIF_REPO=<scratch worktree with patch> ./check %s --tier %s" % (pid, tier), "rc": p.returncode,
                         "quiet": quiet, "alarm_clauses": clause, "spec_deviations": devs, "wall_s": round(time.time() - t0, 1)}
        print("check rc=%d quiet=%s %s %s" % (p.returncode, quiet, clause[:1], devs[:1]))
        if p.returncode not in (0, 1):
            print(p.stdout[-1500:])
    finally:
        subprocess.run(["git", "-C", "/repo", "worktree", "remove", "--force", wt])
    out = os.path.join(VERIF, "benign", bid)
    os.makedirs(out, exist_ok=True)
    shutil.copy(patch, os.path.join(out, "patch.diff"))
    if argue and os.path.exists(argue):
        shutil.copy(argue, os.path.join(out, "argue.md"))
    json.dump(meta, open(os.path.join(out, "meta.json"), "w"), indent=1)
    return 0


if __name__ == "__main__":
    sys.exit(main())
