CONSTANTS
  Part = "terms"
  Export = TRUE
  MaxLen = 5
INIT Init
NEXT Next
INVARIANT Conservation
INVARIANT KeptContiguous
INVARIANT NoCreation
INVARIANT LengthLaw
INVARIANT UniformUnchanged
INVARIANT ExportRescale
INVARIANT ExportResample
INVARIANT ExportFix
INVARIANT ExportTerms
