----------------------------- MODULE SSObjects -----------------------------
(***************************************************************************)
(* C07 growth: state-space models as OBJECTS.  specs/SSModel.tla follows   *)
(* one model through a chain of conversions; a program keeps the earlier   *)
(* models and converts them again.  The heap here is the sequence of model *)
(* objects created so far; a conversion picks ANY of them:                  *)
(*   - a model already in the target domain is returned itself (no new     *)
(*     object);                                                             *)
(*   - otherwise a NEW object is created whose derivation is the source's  *)
(*     derivation plus this call.                                           *)
(* What TLC checks on every history: an object, once created, never        *)
(* changes (Immutable: conversions have no side effect on the model they   *)
(* are called on nor on any other), its domain is the parity of its        *)
(* derivation, and its derivation extends its source's by exactly the call.*)
(* Every history of MaxCalls calls is exported; the driver replays it on    *)
(* real SSModel objects, re-reads EVERY object after EVERY call and         *)
(* compares each with a fresh replay of its derivation.                     *)
(***************************************************************************)
EXTENDS Integers, Sequences, FiniteSets, TLC

CONSTANTS Export, MaxCalls

Methods == {"zoh", "zoha", "foh", "tustin"}
Prewarps == {"none", "w"}
Ops == {"c2d", "d2c"}
Target(op) == IF op = "c2d" THEN "d" ELSE "c"

VARIABLES objs, calls
vars == <<objs, calls>>
Init == objs = << [dom |-> "c", deriv |-> <<>>, src |-> 0] >> /\ calls = <<>>

Convert(i, op, m, pw) ==
  /\ Len(calls) < MaxCalls /\ i \in 1..Len(objs)
  /\ (pw # "none" => m = "tustin")
  /\ IF objs[i].dom = Target(op)
     THEN /\ objs' = objs
          /\ calls' = Append(calls, [src |-> i, op |-> op, m |-> m, pw |-> pw, res |-> i])
     ELSE /\ objs' = Append(objs, [dom |-> Target(op), deriv |-> Append(objs[i].deriv, <<op, m, pw>>), src |-> i])
          /\ calls' = Append(calls, [src |-> i, op |-> op, m |-> m, pw |-> pw, res |-> Len(objs) + 1])
\* a query (getlti): hands out the continuous-time equivalent of object i as a foreign (scipy) object - object i itself when it is
\* continuous, its default d2c() otherwise; nothing is put on the heap and no object changes
Query(i) ==
  /\ Len(calls) < MaxCalls /\ i \in 1..Len(objs)
  /\ objs' = objs
  /\ calls' = Append(calls, [src |-> i, op |-> "lti", m |-> "zoh", pw |-> "none", res |-> i])
Next == \/ \E i \in 1..Len(objs), op \in Ops, m \in Methods, pw \in Prewarps : Convert(i, op, m, pw)
        \/ \E i \in 1..Len(objs) : Query(i)
Spec == Init /\ [][Next]_vars

\* no conversion touches an existing object
Immutable == [][\A i \in 1..Len(objs) : i \in 1..Len(objs') /\ objs'[i] = objs[i]]_vars
DomainIsParity == \A i \in 1..Len(objs) : (objs[i].dom = "c") <=> (Len(objs[i].deriv) % 2 = 0)
DerivationExtendsSource == \A i \in 2..Len(objs) :
   LET s == objs[i].src IN s \in 1..(i - 1) /\ Len(objs[i].deriv) = Len(objs[s].deriv) + 1
                            /\ SubSeq(objs[i].deriv, 1, Len(objs[s].deriv)) = objs[s].deriv
CallsConsistent == \A k \in 1..Len(calls) : LET c == calls[k] IN
   /\ c.res \in 1..Len(objs)
   /\ (c.op \in Ops => (c.res = c.src <=> objs[c.src].dom = Target(c.op)))
   /\ (c.op = "lti" => c.res = c.src)
   /\ (c.res # c.src => objs[c.res].src = c.src /\ objs[c.res].deriv[Len(objs[c.res].deriv)] = <<c.op, c.m, c.pw>>)
\* a conversion alternates domains along every derivation
Alternates == \A i \in 1..Len(objs) : \A k \in 1..Len(objs[i].deriv) : objs[i].deriv[k][1] = (IF k % 2 = 1 THEN "c2d" ELSE "d2c")

ExportHist == (Export /\ Len(calls) = MaxCalls) => PrintT(<<"OBJS", objs, calls>>)
=============================================================================
