CONSTANTS
  MaxN = 6
  Mode = "perms"
  Export = TRUE
  Big = FALSE
INIT Init
NEXT Next
INVARIANT PermLaws
INVARIANT ExportPerms
