#!/usr/bin/env python3
"""prints the prompt given to a fresh sub-agent that makes PROPERTY-PRESERVING changes (false-alarm controls): nothing from
/verif but the property text.  The checks must stay quiet on every one of them."""
import json, sys
pid = sys.argv[1]
wt = "/tmp/benign_%s" % pid
out = "/tmp/benignout_%s" % pid
p = [json.loads(l) for l in open("/verif/properties.jsonl") if json.loads(l)["id"] == pid][0]
print(f"""You are helping to evaluate a verification effort for the Python library pyYeti (structural dynamics toolkit).
You have your own scratch git worktree of the library at {wt} (a checkout of the current HEAD). Work ONLY inside {wt} and {out} (create it). Do NOT read or touch /repo or /verif, and do not look at any other directories under /tmp.

Here is a semantic property that the library satisfies:

TITLE: {p['title']}
STATEMENT: {p['statement']}
QUANTIFIED OVER: {p['quantifier']['text']}
RELEVANT FILES: {', '.join(p['anchors']['files'])}

A checker for this property exists; we want to know whether it raises FALSE ALARMS. Your task: produce FOUR independent, realistic code changes to the relevant files, each of which keeps the property TRUE (for every input it quantifies over) but is NOT a no-op. Think of what maintainers really do:
 - refactors that change internal structure: renaming or removing private helpers / private attributes (names starting with an underscore), inlining or splitting functions, replacing a loop by vectorised code or the reverse, changing the order of independent floating-point operations (results may then differ in the last few bits - that is fine unless the property itself demands bit-for-bit equality), using a different but equally valid algorithm for an intermediate step;
 - changes of behaviour the property does NOT speak about: a different internal heuristic or threshold that only affects speed or which code path is taken, a different (still legal and still correctly read back) output layout, different error messages, different choice among results the statement explicitly allows (e.g. either of two tied candidates), extra validation of clearly invalid input, different private bookkeeping;
 - performance work: caching done correctly, avoiding copies where no caller-visible array is touched.
Spread the four changes over different functions / mechanisms, and make at least two of them touch the code paths most central to the property. Do not edit the tests. Each change must keep the library importable and the existing suite passing.

For each change k in (1, 2, 3, 4):
 1. Make the change in {wt} (pure source edits under pyyeti/).
 2. Convince yourself that the property still holds: write {out}/argue_k.md with a short argument (which statements of the property could be affected and why they are not), and {out}/probe_k.py, a small program using the public API that exercises the changed code on a few inputs and exits 0 when the results agree with the unchanged library to the precision the property asks for (run it as PYTHONPATH=<tree> /venv/bin/python probe_k.py; you can keep a pristine copy of the package with `git -C {wt} archive HEAD pyyeti | tar -x -C {out}/orig` for side-by-side comparisons).
 3. Run the parts of the test suite that touch the changed module:  cd {wt} && OPENBLAS_NUM_THREADS=1 PYTHONPATH={wt} timeout 1500 /venv/bin/python -m pytest -q -p no:cacheprovider pyyeti/tests/<relevant files>  (a handful of tests fail even WITHOUT any change because of the numpy version; the set of failing tests must be unchanged). Do not run the full suite more than twice in total.
    NOTE: the compiled extension pyyeti/rainflow/c_rain*.so is not present in the worktree; if you need it, build it yourself (gcc -O2 -shared -fPIC -I$(/venv/bin/python -c 'import sysconfig;print(sysconfig.get_paths()["include"])') -I$(/venv/bin/python -c 'import numpy;print(numpy.get_include())') pyyeti/rainflow/c_rain.c -o pyyeti/rainflow/c_rain$(/venv/bin/python -c 'import sysconfig;print(sysconfig.get_config_var("EXT_SUFFIX"))')); the patch must contain source changes only.
 4. Save the change as {out}/patch_k.diff  (cd {wt} && git diff > {out}/patch_k.diff), then restore the tree (git checkout -- . ; remove untracked files you created) before starting the next change.

When done, reply with a short summary of the four changes (files, what was changed, why the property is unaffected). No network is available. Be efficient.""")
