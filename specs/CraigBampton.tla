--------------------------- MODULE CraigBampton ---------------------------
(***************************************************************************)
(* C06.  Craig-Bampton model checks.                                       *)
(* A DESCRIPTOR of a free 3-D structure: the first N of a fixed list of    *)
(* grid points (integer coordinates), each a 6-DOF joint with a lumped     *)
(* mass and a diagonal inertia, joined by 6-DOF springs (the driver builds *)
(* K so that rigid motion is exactly in its null space); a boundary set    *)
(* (1-3 grids) in a chosen order; the reference grid for the rigid-body     *)
(* constructions.  The spec carries, in exact integers, what every check    *)
(* of cbcheck must reproduce: the 6x6 rigid-body mass matrix about the      *)
(* reference point, total mass, first moments, the boundary-only and the    *)
(* interior-only parts (effective-mass bookkeeping).                        *)
(*                                                                          *)
(* The model is then a small STATE MACHINE on the Craig-Bampton matrices:   *)
(*   Reorder(p)    boundary grids permuted (cbreorder / cbcheck's bseto)    *)
(*   Convert(d)    unit conversion m2e / e2m (cbconvert, uset_convert,      *)
(*                 cbcheck's conv)                                          *)
(*   Ground        a spring to ground is added somewhere (invalid model)    *)
(*   BreakGeometry a boundary grid is moved in the USET table only          *)
(* TLC checks on every history: mass properties are invariant under         *)
(* Reorder, scale by (mass, length) exponents under Convert, conversions    *)
(* and reorderings are undone by their inverses, and a defect, once made,   *)
(* stays flagged.  Every terminal state is exported for replay.             *)
(***************************************************************************)
EXTENDS Integers, Sequences, FiniteSets, TLC

CONSTANTS Export, MaxOps, Ns

\* grid catalogue: coordinates, mass, own inertia (diagonal)
Pts  == << <<0, 0, 0>>, <<4, 0, 0>>, <<0, 3, 0>>, <<0, 0, 5>>, <<2, 2, 1>>, <<0 - 3, 1, 2>> >>
Mass == <<2, 3, 1, 4, 2, 5>>
Jdia == << <<1, 1, 1>>, <<2, 1, 3>>, <<1, 2, 2>>, <<3, 3, 1>>, <<1, 1, 2>>, <<2, 4, 3>> >>

RECURSIVE SumOver(_, _)
SumOver(S, f) == IF S = {} THEN 0 ELSE LET x == CHOOSE x \in S : TRUE IN f[x] + SumOver(S \ {x}, f)

\* 6x6 rigid-body mass matrix of the grid set S about point ref (rows/cols 1-3 translations, 4-6 rotations), as in cb.cgmass
Rel(g, ref) == <<Pts[g][1] - ref[1], Pts[g][2] - ref[2], Pts[g][3] - ref[3]>>
M6(S, ref) ==
  LET m(g) == Mass[g]
      x(g) == Rel(g, ref)[1]  y(g) == Rel(g, ref)[2]  z(g) == Rel(g, ref)[3]
      mt == SumOver(S, [g \in 1..6 |-> m(g)])
      sx == SumOver(S, [g \in 1..6 |-> m(g) * x(g)])  sy == SumOver(S, [g \in 1..6 |-> m(g) * y(g)])  sz == SumOver(S, [g \in 1..6 |-> m(g) * z(g)])
      ixx == SumOver(S, [g \in 1..6 |-> Jdia[g][1] + m(g) * (y(g) * y(g) + z(g) * z(g))])
      iyy == SumOver(S, [g \in 1..6 |-> Jdia[g][2] + m(g) * (x(g) * x(g) + z(g) * z(g))])
      izz == SumOver(S, [g \in 1..6 |-> Jdia[g][3] + m(g) * (x(g) * x(g) + y(g) * y(g))])
      ixy == 0 - SumOver(S, [g \in 1..6 |-> m(g) * x(g) * y(g)])
      ixz == 0 - SumOver(S, [g \in 1..6 |-> m(g) * x(g) * z(g)])
      iyz == 0 - SumOver(S, [g \in 1..6 |-> m(g) * y(g) * z(g)])
  IN << <<mt, 0, 0, 0, sz, 0 - sy>>,
        <<0, mt, 0, 0 - sz, 0, sx>>,
        <<0, 0, mt, sy, 0 - sx, 0>>,
        <<0, 0 - sz, sy, ixx, ixy, ixz>>,
        <<sz, 0, 0 - sx, ixy, iyy, iyz>>,
        <<0 - sy, sx, 0, ixz, iyz, izz>> >>
MatAdd(A, B) == [i \in 1..6 |-> [j \in 1..6 |-> A[i][j] + B[i][j]]]
Symmetric(A) == \A i, j \in 1..6 : A[i][j] = A[j][i]

\* descriptors: N grids, an ordered boundary (1-3 distinct grids), number of retained modes class, output system of boundary grids
Perms(S) == {f \in [1..Cardinality(S) -> S] : \A i, j \in 1..Cardinality(S) : i # j => f[i] # f[j]}
Descs == UNION {{[n |-> n, bnd |-> b, modes |-> md, outcs |-> oc] :
                   b \in UNION {Perms(B) : B \in {B \in SUBSET (1..n) : Cardinality(B) \in 1..3}},
                   md \in {"all", "some"}, oc \in {1, 2, 3}} : n \in Ns}
Grids(d) == 1..d.n
BndSet(d) == {d.bnd[i] : i \in 1..Len(d.bnd)}
IntSet(d) == Grids(d) \ BndSet(d)

VARIABLES desc, order, uexp, defect, hist
vars == <<desc, order, uexp, defect, hist>>
\* keep the exhaustive model small: the state machine is explored on the descriptors with all modes and the boundary in natural order
MachineDesc(d) == d.modes = "all" /\ \A i \in 1..(Len(d.bnd) - 1) : d.bnd[i] < d.bnd[i + 1]
Init == /\ desc \in Descs /\ order = desc.bnd /\ uexp = 0 /\ defect = "none" /\ hist = <<>>

Reorder(p) == /\ Len(hist) < MaxOps /\ MachineDesc(desc) /\ Len(order) >= 2
              /\ p \in Perms(1..Len(order)) /\ \E i \in 1..Len(order) : p[i] # i
              /\ order' = [i \in 1..Len(order) |-> order[p[i]]]
              /\ hist' = Append(hist, <<"reorder", p>>) /\ UNCHANGED <<desc, uexp, defect>>
Convert(dir) == /\ Len(hist) < MaxOps /\ MachineDesc(desc)
                /\ uexp' = uexp + (IF dir = "m2e" THEN 1 ELSE 0 - 1) /\ uexp' \in {0 - 1, 0, 1}
                /\ hist' = Append(hist, <<"convert", dir>>) /\ UNCHANGED <<desc, order, defect>>
Ground == /\ Len(hist) < MaxOps /\ MachineDesc(desc) /\ defect = "none" /\ defect' = "grounded"
          /\ hist' = Append(hist, <<"ground">>) /\ UNCHANGED <<desc, order, uexp>>
BreakGeometry == /\ Len(hist) < MaxOps /\ MachineDesc(desc) /\ defect = "none" /\ Len(order) >= 2 /\ defect' = "geometry"
                 /\ hist' = Append(hist, <<"break">>) /\ UNCHANGED <<desc, order, uexp>>
Next == (\E p \in Perms(1..3) \cup Perms(1..2) : Reorder(p)) \/ (\E d \in {"m2e", "e2m"} : Convert(d)) \/ Ground \/ BreakGeometry
Spec == Init /\ [][Next]_vars

\* mass properties (in ORIGINAL units) about the reference grid = first boundary grid of the current order
RefPt == Pts[order[1]]
MassNow == M6(Grids(desc), RefPt)
\* invariants
BoundaryIsPermutation == {order[i] : i \in 1..Len(order)} = BndSet(desc) /\ Len(order) = Len(desc.bnd)
\* the rigid mass matrix depends on the reference point only: not on the order of the other boundary grids, not on the units
\* exponent (the scaling is uniform: mass^e for the translational block, mass^e length^e for the coupling, mass^e length^2e
\* for the inertia block), and it splits into boundary + interior parts
MassSplits == MassNow = MatAdd(M6(BndSet(desc), RefPt), M6(IntSet(desc), RefPt)) /\ Symmetric(MassNow)
TotalMassInvariant == MassNow[1][1] = SumOver(Grids(desc), [g \in 1..6 |-> Mass[g]])
\* parallel-axis consistency between two reference grids (decided by TLC on every descriptor):
\*   first moments shift by -m d, with d the vector between the reference points
ParallelAxis == \A r2 \in BndSet(desc) :
    LET A == MassNow  B == M6(Grids(desc), Pts[r2])  d == <<Pts[r2][1] - RefPt[1], Pts[r2][2] - RefPt[2], Pts[r2][3] - RefPt[3]>> IN
    /\ B[2][6] = A[2][6] - A[1][1] * d[1] /\ B[3][4] = A[3][4] - A[1][1] * d[2] /\ B[1][5] = A[1][5] - A[1][1] * d[3]
\* net effect of a history: inverse pairs cancel (conversions by construction of uexp; a reordering is undone by the inverse permutation)
DefectSticky == [][defect # "none" => defect' = defect]_vars
UnitsBounded == uexp \in {0 - 1, 0, 1}

ExportDesc == (Export /\ hist = <<>>) =>
   PrintT(<<"DESC", desc, [g \in Grids(desc) |-> <<Pts[g], Mass[g], Jdia[g]>>], MassNow, M6(BndSet(desc), RefPt), M6(IntSet(desc), RefPt)>>)
ExportHist == (Export /\ MachineDesc(desc) /\ Len(hist) = MaxOps) => PrintT(<<"HIST", desc, hist, order, uexp, defect, MassNow>>)
=============================================================================
