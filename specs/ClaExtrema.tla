---------------------------- MODULE ClaExtrema ----------------------------
(***************************************************************************)
(* C16 (extrema part).  Running extrema of a results category over load    *)
(* cases added in ANY order: cla.extrema (two-column [max, min] form and    *)
(* one-column "absolute extreme keeping sign" form), DR_Results.*_data_     *)
(* recovery (maxmin of a case, extrema, per-case mx/mn bookkeeping) and     *)
(* form_extreme over events (same machine, cases = events, NaN = row not    *)
(* present in that event).                                                  *)
(*                                                                          *)
(* A case c contributes, per row r, data[c][r] = <<mx, mn>> (or <<NaN,NaN>>)*)
(* with abscissae XMax(c) / XMin(c) that are distinct per case, so that the *)
(* label and the abscissa stored with an extreme can be cross-checked.      *)
(* AddCase(c) is the code's update rule (compare, replace value + label +   *)
(* abscissa); the invariants state the property declaratively.              *)
(***************************************************************************)
EXTENDS Integers, Sequences, FiniteSets, TLC

CONSTANTS NC,        \* number of load cases (ids 1..NC; id = the casenum column, 0-based c-1)
          NR,        \* number of rows
          Form,      \* "two" | "one" | "frf" (two-column with min = -max at the same abscissa)
          Alpha,     \* name of the option alphabet
          XLess,     \* cases that carry NO abscissae (mm.ext_x = None: add_maxmin without x-values, PSD events, calc_ext results)
          Export

NaN == 99       \* integer sentinel outside every value alphabet (TLC cannot compare ints with strings)
IsNaN(v) == v = NaN
Cases == 1..NC
Rows == 1..NR

Abs(x) == IF x < 0 THEN -x ELSE x

\* per case-row options <<mx, mn>>
Pairs(V) == {<<a, b>> : a \in V, b \in V} \ {<<a, b>> \in V \X V : a < b}
Diag(V) == {<<a, a>> : a \in V}
Options ==
  CASE Alpha = "two1"  -> Pairs({-2, 1, 3}) \cup {<<NaN, NaN>>}
    [] Alpha = "two1w" -> Pairs({-2, 0, 1, 3}) \cup {<<NaN, NaN>>}
    [] Alpha = "two2"  -> {<<NaN, NaN>>, <<1, 0>>, <<2, 2>>}
    [] Alpha = "frf2"  -> {<<1, -1>>, <<2, -2>>, <<3, -3>>}     \* frequency domain: [max |H|, -max |H|]
    [] Alpha = "one1"  -> Diag({-3, -1, 1, 2, 3}) \cup {<<NaN, NaN>>}
    [] Alpha = "one2"  -> Diag({-2, 1, 3})
    [] Alpha = "one2n" -> Diag({-2, 1}) \cup {<<NaN, NaN>>}

\* abscissae; a case without abscissae contributes NaN: an extreme it holds has no known abscissa, whoever came before or after
XMax(c) == IF c \in XLess THEN NaN ELSE 10 * c + 1
XMin(c) == IF c \in XLess THEN NaN ELSE IF Form \in {"one", "frf"} THEN 10 * c + 1 ELSE 10 * c + 2

VARIABLES data, added, ext, extx, maxcase, mincase, mx, mn

vars == <<data, added, ext, extx, maxcase, mincase, mx, mn>>

First == added = <<>>     \* curext.ext is None

Init == /\ data \in [Cases -> [Rows -> Options]]
        /\ added = <<>>
        /\ ext = [r \in Rows |-> <<NaN, NaN>>]          \* placeholders: the members are None until the first case
        /\ extx = [r \in Rows |-> <<NaN, NaN>>]
        /\ maxcase = [r \in Rows |-> 0] /\ mincase = [r \in Rows |-> 0]
        /\ mx = [r \in Rows |-> [c \in Cases |-> 0]]     \* _init_mxmn: zeros
        /\ mn = [r \in Rows |-> [c \in Cases |-> 0]]

\* nan_argmax(v1, v2): v2 replaces v1
NGt(v1, v2) == IF IsNaN(v2) THEN FALSE ELSE IF IsNaN(v1) THEN TRUE ELSE v2 > v1
NLt(v1, v2) == IF IsNaN(v2) THEN FALSE ELSE IF IsNaN(v1) THEN TRUE ELSE v2 < v1
NAbs(v) == IF IsNaN(v) THEN NaN ELSE Abs(v)

ReplMax(old, new) == IF Form \in {"two", "frf"} THEN NGt(old, new) ELSE NGt(NAbs(old), NAbs(new))
ReplMin(old, new) == IF Form \in {"two", "frf"} THEN NLt(old, new) ELSE NLt(NAbs(old), NAbs(new))

AddCase(c) ==
  /\ c \in Cases /\ \A i \in 1..Len(added) : added[i] # c
  /\ added' = Append(added, c)
  /\ mx' = [r \in Rows |-> [mx[r] EXCEPT ![c] = data[c][r][1]]]
  /\ mn' = [r \in Rows |-> [mn[r] EXCEPT ![c] = data[c][r][2]]]
  /\ IF First
     THEN /\ ext' = [r \in Rows |-> data[c][r]]
          /\ extx' = [r \in Rows |-> <<XMax(c), XMin(c)>>]
          /\ maxcase' = [r \in Rows |-> c]
          /\ mincase' = [r \in Rows |-> c]
     ELSE LET upM(r) == ReplMax(ext[r][1], data[c][r][1])
              upN(r) == ReplMin(ext[r][2], data[c][r][2])
          IN /\ ext' = [r \in Rows |-> <<IF upM(r) THEN data[c][r][1] ELSE ext[r][1],
                                        IF upN(r) THEN data[c][r][2] ELSE ext[r][2]>>]
             /\ extx' = [r \in Rows |-> <<IF upM(r) THEN XMax(c) ELSE extx[r][1],
                                         IF upN(r) THEN XMin(c) ELSE extx[r][2]>>]
             /\ maxcase' = [r \in Rows |-> IF upM(r) THEN c ELSE maxcase[r]]
             /\ mincase' = [r \in Rows |-> IF upN(r) THEN c ELSE mincase[r]]
  /\ UNCHANGED data

Next == \E c \in Cases : AddCase(c)
Spec == Init /\ [][Next]_vars

---------------------------------------------------------------------------
(* the property, declaratively                                             *)

AddedSet == {added[i] : i \in 1..Len(added)}
NumVals(S) == {v \in S : ~IsNaN(v)}
SetMax(S) == CHOOSE x \in S : \A y \in S : y <= x
SetMin(S) == CHOOSE x \in S : \A y \in S : y >= x

MaxVals(r) == {data[c][r][1] : c \in AddedSet}
MinVals(r) == {data[c][r][2] : c \in AddedSet}

\* two-column: true max / min over the added cases, NaN ignored (NaN only if every case is NaN)
TrueExtTwo == (Form \in {"two", "frf"} /\ ~First) =>
  \A r \in Rows :
     /\ IF NumVals(MaxVals(r)) = {} THEN IsNaN(ext[r][1]) ELSE ext[r][1] = SetMax(NumVals(MaxVals(r)))
     /\ IF NumVals(MinVals(r)) = {} THEN IsNaN(ext[r][2]) ELSE ext[r][2] = SetMin(NumVals(MinVals(r)))

\* one-column: column 1 has the largest magnitude over the cases, column 2 the smallest
TrueExtOne == (Form = "one" /\ ~First) =>
  \A r \in Rows :
     LET A == {Abs(v) : v \in NumVals(MaxVals(r))} IN
     IF A = {} THEN IsNaN(ext[r][1]) /\ IsNaN(ext[r][2])
     ELSE /\ ~IsNaN(ext[r][1]) /\ Abs(ext[r][1]) = SetMax(A)
          /\ ~IsNaN(ext[r][2]) /\ Abs(ext[r][2]) = SetMin(A)

\* label and abscissa name a case that attains the stored value
LabelsAttain == ~First =>
  \A r \in Rows :
     /\ maxcase[r] \in AddedSet /\ mincase[r] \in AddedSet
     /\ (~IsNaN(ext[r][1]) => data[maxcase[r]][r][1] = ext[r][1] /\ extx[r][1] = XMax(maxcase[r]))
     /\ (~IsNaN(ext[r][2]) => data[mincase[r]][r][2] = ext[r][2] /\ extx[r][2] = XMin(mincase[r]))

\* per-case maxima / minima are stored in case-number order, whatever the order of addition
PerCase == \A r \in Rows : \A c \in AddedSet : mx[r][c] = data[c][r][1] /\ mn[r][c] = data[c][r][2]

\* order independence of the VALUES follows from TrueExt* (declarative in the set AddedSet);
\* it is also stated directly as an action-level commutation property on the model:
\* the value reached does not depend on which of two cases was added first.
TypeOK == Len(added) <= NC

\* mixing cases with and without abscissae: an abscissa is stored exactly for the extremes held by a case that has one
AbscissaKnownIffHolderHasOne == ~First =>
  \A r \in Rows : /\ (~IsNaN(ext[r][1]) => (IsNaN(extx[r][1]) <=> maxcase[r] \in XLess))
                  /\ (~IsNaN(ext[r][2]) => (IsNaN(extx[r][2]) <=> mincase[r] \in XLess))

ExportOK == Export => PrintT(<<"EXT", Form, data, added, ext, extx, maxcase, mincase, mx, mn, XLess>>)
=============================================================================
