CONSTANTS
  MaxN = 27
  Mode = "ints"
  Export = TRUE
  Big = FALSE
INIT Init
NEXT Next
INVARIANT IntLaws
INVARIANT ExportInts
