CONSTANTS
  MaxOps = 3
  Export = TRUE
  ShapeSet = {"flat", "mixed", "twins"}
  ValSet = "three"
SPECIFICATION Spec
INVARIANT EnvIsEnvelope
INVARIANT OrderIndependent
INVARIANT LabelLaw
INVARIANT FormLaws
INVARIANT SplitLaw
INVARIANT Bounded
INVARIANT ExportHist
CHECK_DEADLOCK FALSE
