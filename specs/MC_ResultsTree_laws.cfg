CONSTANTS
  MaxOps = 1
  Export = FALSE
  ShapeSet = {"flat", "mixed", "twins"}
  ValSet = "four"
  DataMod = 1
  Track = FALSE
SPECIFICATION Spec
INVARIANT EnvIsEnvelope
INVARIANT OrderIndependent
INVARIANT LabelLaw
INVARIANT FormLaws
INVARIANT SplitLaw
INVARIANT Bounded
CHECK_DEADLOCK FALSE
