--------------------------------- MODULE Srs ---------------------------------
(***************************************************************************)
(* C03.  Shock response spectrum: option lattice, index model, oscillator  *)
(* oracle.                                                                  *)
(*  option point = stype x ic x time x peak x eqsine x packaging            *)
(*  index model (integers): signal length M, sample rate sr (integer Hz),   *)
(*    frequencies; for time in {total, residual} one cycle of the lowest    *)
(*    non-zero frequency is appended: nz = ceil(sr / fmin) samples (none    *)
(*    when every frequency is 0); N = M + nz; the statistic window starts   *)
(*    at S = M for residual and 0 otherwise; resp['hist'] has N - S rows,   *)
(*    resp['t'] = (S .. N-1)/sr.                                            *)
(*  oracle: the relative coordinate z of a base-excited oscillator obeys    *)
(*    z'' + (w/Q) z' + w^2 z = -a(t), a linear between samples: the exact   *)
(*    under-damped step of specs/OdeModel.tla with m = 1, b = w/Q, k = w^2, *)
(*    f = -a (w = 0: the undamped rigid-body step).  The digital filter     *)
(*    starts from rest one sample BEFORE the record with the input ramping  *)
(*    up from 0 (zero state of the ramp-invariant filter).                  *)
(*  initial-condition rules: zero; shift (a - a[0]); mshift (a - mean a);   *)
(*    steady (a - a[0], appended samples equal -a[0], and the static        *)
(*    response of the removed offset a[0] is added back: Offset(stype)).    *)
(*  response quantity from (z, z', a): see Quantity.                        *)
(***************************************************************************)
EXTENDS Integers, Sequences, FiniteSets, TLC

CONSTANTS Export

V(n) == <<"var", n>>
Num(n) == <<"num", n>>
Add(a, b) == <<"add", a, b>>
Sub(a, b) == <<"sub", a, b>>
Mul(a, b) == <<"mul", a, b>>
Div(a, b) == <<"div", a, b>>
Neg(a) == <<"neg", a>>

Stypes == {"absacce", "relacce", "relvelo", "reldisp", "pvelo", "pacce"}
Ics == {"zero", "shift", "mshift", "steady"}
Times == {"primary", "total", "residual"}
Peaks == {"abs", "pos", "neg", "poss", "negs", "rms"}

w == V("w") z == V("z") zd == V("zd") a == V("a") Qf == V("Q")
\* response quantities in terms of the relative coordinate, its rate and the base acceleration at that sample
Quantity(stype) ==
  CASE stype = "reldisp" -> z
    [] stype = "relvelo" -> zd
    [] stype = "pvelo"   -> Mul(w, z)
    [] stype = "pacce"   -> Mul(Mul(w, w), z)
    [] stype = "absacce" -> Neg(Add(Mul(Div(w, Qf), zd), Mul(Mul(w, w), z)))          \* z'' + a = -(b z' + k z)
    [] stype = "relacce" -> Sub(Neg(Add(Mul(Div(w, Qf), zd), Mul(Mul(w, w), z))), a)  \* z'' = -a - b z' - k z
\* static response of a constant base acceleration s1 that 'steady' adds back (none for relacce / relvelo)
Offset(stype) ==
  CASE stype = "absacce" -> V("s1")
    [] stype = "reldisp" -> Neg(Div(V("s1"), Mul(w, w)))
    [] stype = "pvelo"   -> Neg(Div(V("s1"), w))
    [] stype = "pacce"   -> Neg(V("s1"))
    [] OTHER -> Num(0)

\* index model
CeilDiv(x, y) == (x + y - 1) \div y
NZeros(time, sr, fmin) == IF time = "primary" \/ fmin = 0 THEN 0 ELSE CeilDiv(sr, fmin)
Window(time, M, sr, fmin) == LET n == M + NZeros(time, sr, fmin) IN [N |-> n, S |-> IF time = "residual" THEN M ELSE 0]

VARIABLE q
Points == {[stype |-> s, ic |-> i, time |-> t, peak |-> p, eqsine |-> e] : s \in Stypes, i \in Ics, t \in Times, p \in Peaks, e \in BOOLEAN}
IndexCases == {<<M, sr, fmin>> : M \in {1, 2, 7}, sr \in {100, 128}, fmin \in {0, 3, 7, 50}}
Init == q \in Points
Next == UNCHANGED q

\* laws of the index model
IndexLaws == \A c \in IndexCases :
   LET wd == Window(q.time, c[1], c[2], c[3]) IN
   /\ wd.N >= c[1] /\ wd.S \in {0, c[1]} /\ wd.N - wd.S >= (IF q.time = "residual" /\ c[3] = 0 THEN 0 ELSE 1)
   /\ (q.time = "primary" => wd.N = c[1])
   /\ (q.time # "primary" /\ c[3] > 0 => (wd.N - c[1]) * c[3] >= c[2] /\ (wd.N - c[1] - 1) * c[3] < c[2])

ExportPoint == Export => PrintT(<<"POINT", q, Quantity(q.stype), Offset(q.stype),
                                  [c \in IndexCases |-> Window(q.time, c[1], c[2], c[3])]>>)
=============================================================================
