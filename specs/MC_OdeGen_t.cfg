CONSTANTS
  NT = 5
  MaxActs = 9
  Export = TRUE
SPECIFICATION Spec
INVARIANT TypeOK
INVARIANT Valid
INVARIANT FinalIsBatch
INVARIANT CacheCoherent
INVARIANT Col0Fixed
INVARIANT ExportOK
PROPERTY OnlyCurrentColumn
