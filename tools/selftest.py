#!/venv/bin/python
"""Binding self-test for the trace specifications: a recorded trace that IS a behaviour is accepted, the same trace with one
recorded field corrupted is rejected - by TLC, not by Python.  (The mutation controls corrupt the implementation; this corrupts
the recording.)   usage: tools/selftest.py      exit 0 = every trace spec accepted the good and rejected the corrupted trace"""
import json, os, sys, tempfile

VERIF = os.path.dirname(os.path.dirname(os.path.abspath(__file__)))
sys.path.insert(0, VERIF)
sys.path.insert(0, os.path.join(VERIF, ".pydeps"))
from harness import tlc  # noqa


def run_trace(module, cfg, lines, **kw):
    fd, path = tempfile.mkstemp(suffix=".ndjson", prefix="selftest_")
    with os.fdopen(fd, "w") as f:
        for ln in lines:
            f.write(json.dumps(ln) + "\n")
    try:
        return tlc.run(module, cfg, timeout=300, env={"TRACE_FILE": path}, workers=1, **kw)
    finally:
        os.unlink(path)


def main():
    ok = True

    def verdict(name, good_accepted, bad_rejected):
        nonlocal ok
        print("%-28s good trace accepted: %-5s corrupted trace rejected: %s" % (name, good_accepted, bad_rejected))
        ok = ok and good_accepted and bad_rejected

    # Purity.tla: memo-table machine
    good = [{"fn": 1, "ain": 1, "aout": 1, "res": 2}, {"fn": 1, "ain": 1, "aout": 1, "res": 2}, {"fn": 2, "ain": 3, "aout": 3, "res": 4},
            {"fn": 1, "ain": 1, "aout": 1, "res": 2}]
    r = run_trace("Purity", "MC_Purity.cfg", good)
    g = (not r.violation) and r.tagged("PURITY")[0][1] in ([], set(), ())
    bad1 = [dict(x) for x in good]
    bad1[3]["res"] = 9                      # same call, other answer
    bad2 = [dict(x) for x in good]
    bad2[2]["aout"] = 7                     # argument modified
    b = all(len(run_trace("Purity", "MC_Purity.cfg", t).tagged("PURITY")[0][1]) == 1 for t in (bad1, bad2))
    verdict("Purity.tla", g, b)

    # NasField.tla (trace mode): exact width + real-field grammar
    def chars(s):
        return [ord(c) for c in s]
    good = [{"w": 8, "chars": chars("   1.5+3")}, {"w": 8, "chars": chars("-1.234-5")}, {"w": 16, "chars": chars("  1.2345678D+100")}]
    r = run_trace("NasField", "MC_NasField_trace.cfg", good, extra=("-continue",))
    g = not r.violation
    rb = [run_trace("NasField", "MC_NasField_trace.cfg", [dict(good[0], chars=chars("    1.5+3"))] + good[1:], extra=("-continue",)),   # 9 characters
          run_trace("NasField", "MC_NasField_trace.cfg", [good[0], dict(good[1], chars=chars("-1234567"))] + good[2:], extra=("-continue",)),   # an integer
          run_trace("NasField", "MC_NasField_trace.cfg", good[:2] + [dict(good[2], chars=chars("  1.2345678D+1 0"))], extra=("-continue",))]   # blank inside
    verdict("NasField.tla (trace)", g, all(bool(x.violation) for x in rb))

    # ExpmIntTrace.tla: route events
    good = [{"kind": "route", "route": "getEPQ1", "le": True}, {"kind": "route", "route": "getEPQ2", "le": False}]
    r = run_trace("ExpmIntTrace", "MC_ExpmIntTrace.cfg", good)
    g = (not r.violation) and not r.tagged("REJECT")
    r2 = run_trace("ExpmIntTrace", "MC_ExpmIntTrace.cfg", [good[0], dict(good[1], le=True)])
    verdict("ExpmIntTrace.tla", g, bool(r2.tagged("REJECT")))
    return 0 if ok else 1


if __name__ == "__main__":
    sys.exit(main())
