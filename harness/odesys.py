"""Generators of second-order systems  M q'' + B q' + K q = F  in the documented domain
(modal-space rb / rf partitions, non-singular mass).  Pure numpy; no pyYeti import; no oracle."""
import numpy as np


def spd(rng, n, lo=0.5, hi=2.0):
    q, _ = np.linalg.qr(rng.standard_normal((n, n)))
    w = rng.uniform(lo, hi, n)
    return (q * w) @ q.T


def make_system(rng, kind, nrb, nel, nrf, mform, wh=(0.05, 2.5), h=0.01, zetas=None, layout="contiguous",
                rbdamp=False):
    """kind: 'diag' | 'cdamp' (coupled damping, diagonal m,k) | 'coupled' (m,b,k full on el block).
    mform: 'none' | 'vec' | 'mat'.  Returns dict(m,b,k,h,rb,el,rf,n,kind).
    Layout contiguous: [rb | el | rf]; 'interleaved': random permutation (for non-generator use)."""
    n = nrb + nel + nrf
    rb = np.arange(nrb)
    el = np.arange(nrb, nrb + nel)
    rf = np.arange(nrb + nel, n)
    # natural frequencies chosen so w*h is in the well-conditioned range
    w = rng.uniform(wh[0], wh[1], nel) / h
    if zetas is None:
        zetas = rng.choice([0.0, 0.01, 0.05, 0.3, 1.0, 1.5, 3.0], nel)
    zetas = np.asarray(zetas, float)
    mdiag = rng.uniform(0.5, 2.0, n) if mform != "none" else np.ones(n)
    kdiag = np.zeros(n)
    bdiag = np.zeros(n)
    kdiag[el] = w ** 2 * mdiag[el]
    bdiag[el] = 2 * zetas * w * mdiag[el]
    if rbdamp and nrb:
        bdiag[rb] = rng.uniform(0.1, 2.0, nrb) * mdiag[rb] / h * 0.05
    wrf = rng.uniform(20.0, 60.0, nrf) / h
    kdiag[rf] = wrf ** 2 * mdiag[rf]
    bdiag[rf] = 0.02 * wrf * mdiag[rf]
    M = np.diag(mdiag)
    B = np.diag(bdiag)
    K = np.diag(kdiag)
    if kind in ("cdamp", "coupled") and nel > 1:
        # symmetric off-diagonal damping on the elastic block, diagonal-dominant
        off = rng.standard_normal((nel, nel))
        off = (off + off.T) / 2
        np.fill_diagonal(off, 0.0)
        scale = 0.15 * np.sqrt(np.outer(np.maximum(bdiag[el], 0.02 * w * mdiag[el]),
                                        np.maximum(bdiag[el], 0.02 * w * mdiag[el])))
        B[np.ix_(el, el)] += off * scale
    if kind == "coupled" and nel > 1:
        # congruence transform of the elastic block: full m, b, k with the same physics
        # moderate condition number: the sensitivity of the answer to one ulp of the coupled matrices grows like cond(T)^2, so a
        # nearly singular draw would measure conditioning, not the solver (same rule as drive_C01)
        for _ in range(50):
            T = np.eye(nel) + 0.3 * rng.standard_normal((nel, nel))
            if np.linalg.cond(T) <= 30:
                break
        ix = np.ix_(el, el)
        M[ix] = T.T @ M[ix] @ T
        B[ix] = T.T @ B[ix] @ T
        K[ix] = T.T @ K[ix] @ T
        if mform == "matns":
            # the equations of the elastic block combined by a well-conditioned L: same solution for forces L f, and m, b, k are no
            # longer symmetric (the solvers take general matrices; inv(m) and inv(m).T are then different things)
            for _ in range(50):
                L = np.eye(nel) + 0.3 * rng.standard_normal((nel, nel))
                if np.linalg.cond(L) <= 10:
                    break
            M[ix] = L @ M[ix]
            B[ix] = L @ B[ix]
            K[ix] = L @ K[ix]
        if nrf > 1:
            for _ in range(50):
                Tr = np.eye(nrf) + 0.2 * rng.standard_normal((nrf, nrf))
                if np.linalg.cond(Tr) <= 30:
                    break
            ixr = np.ix_(rf, rf)
            K[ixr] = Tr.T @ K[ixr] @ Tr
            M[ixr] = Tr.T @ M[ixr] @ Tr
    if mform == "none":
        # fold the mass into b and k so that m can be None
        if kind == "coupled":
            Mi = np.linalg.inv(M)
            B = Mi @ B
            K = Mi @ K
        M = None
    perm = np.arange(n)
    if layout == "interleaved":
        perm = rng.permutation(n)
        inv = np.argsort(perm)
        B = B[np.ix_(perm, perm)]
        K = K[np.ix_(perm, perm)]
        if M is not None:
            M = M[np.ix_(perm, perm)]
        rb, el, rf = np.sort(inv[rb]), np.sort(inv[el]), np.sort(inv[rf])
    if kind == "diag":
        m = None if M is None else (np.diag(M).copy() if mform == "vec" else M)
        b = np.diag(B).copy()
        k = np.diag(K).copy()
    elif kind == "cdamp":
        m = None if M is None else (np.diag(M).copy() if mform == "vec" else M)
        b = B
        k = np.diag(K).copy()
    else:
        m = None if M is None else M
        b = B
        k = K
    return dict(m=m, b=b, k=k, h=h, rb=rb, el=el, rf=rf, n=n, kind=kind, mform=mform, zetas=zetas, w=w)
