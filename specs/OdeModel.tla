------------------------------ MODULE OdeModel ------------------------------
(***************************************************************************)
(* C01 (and the shared base of C02, C17).  Linear second-order systems      *)
(*      M q'' + B q' + K q = F(t)                                           *)
(* in modal form: each equation is of one KIND                               *)
(*   rb0   rigid body, undamped          (k = 0, b = 0)                      *)
(*   rbl   rigid body, damping far below the documented cut-off (treated as  *)
(*         undamped by the uncoupled solver; 1e-3 accuracy class)            *)
(*   rbd   rigid body, damped            (k = 0, b well above the cut-offs)  *)
(*   und / crit / over   elastic, under- / critically / over-damped          *)
(*   rf    residual flexibility (solved statically)                          *)
(* A PROBLEM is a sequence of kinds + hold order + initial-condition rule.   *)
(* A REPRESENTATION is how the same problem is handed to a solver (solver    *)
(* class, mass as None/vector/matrix, diagonal or congruence-coupled         *)
(* matrices, pre_eig, rigid-body set given or auto-detected, contiguous or   *)
(* interleaved equation order).  Canon(representation) = the problem: all    *)
(* representations of one problem must return the same histories.            *)
(*                                                                           *)
(* Step(kind) is the exact one-step solution for a force that is linear      *)
(* (order 1) or constant (order 0) over the step, written from the           *)
(* characteristic roots of the equation as a TERM over the symbols           *)
(* m b k h d0 v0 f0 f1 (complex arithmetic; the real part is the answer).    *)
(* The terms are exported and evaluated by the generic evaluator at 50       *)
(* digits - they are the only place where the expected numbers come from.    *)
(***************************************************************************)
EXTENDS Integers, Sequences, FiniteSets, TLC

CONSTANTS MaxModes, Export

V(n) == <<"var", n>>
Num(n) == <<"num", n>>
Add(a, b) == <<"add", a, b>>
Sub(a, b) == <<"sub", a, b>>
Mul(a, b) == <<"mul", a, b>>
Div(a, b) == <<"div", a, b>>
Neg(a) == <<"neg", a>>
Exp(a) == <<"exp", a>>
Sqrt(a) == <<"sqrt", a>>
Re(a) == <<"re", a>>

m == V("m")  b == V("b")  k == V("k")  h == V("h")
d0 == V("d0")  v0 == V("v0")  f0 == V("f0")  f1 == V("f1")

\* slope of the force over the step: (f1 - f0)/h for the first-order hold, 0 for the zero-order hold
Slope(order) == IF order = 1 THEN Div(Sub(f1, f0), h) ELSE Num(0)

\* elastic, distinct roots (under- and over-damped; complex square root when under-damped)
Disc == Sub(Mul(b, b), Mul(Num(4), Mul(m, k)))
R1 == Div(Add(Neg(b), Sqrt(Disc)), Mul(Num(2), m))
R2 == Div(Sub(Neg(b), Sqrt(Disc)), Mul(Num(2), m))
PB(order) == Div(Slope(order), k)                                   \* particular solution  PA + PB*tau
PA(order) == Div(Sub(f0, Mul(b, PB(order))), k)
C1(order) == Div(Sub(Sub(v0, PB(order)), Mul(R2, Sub(d0, PA(order)))), Sub(R1, R2))
C2(order) == Sub(Sub(d0, PA(order)), C1(order))
ElD(order) == Re(Add(Add(PA(order), Mul(PB(order), h)),
                     Add(Mul(C1(order), Exp(Mul(R1, h))), Mul(C2(order), Exp(Mul(R2, h))))))
ElV(order) == Re(Add(PB(order), Add(Mul(Mul(C1(order), R1), Exp(Mul(R1, h))), Mul(Mul(C2(order), R2), Exp(Mul(R2, h))))))

\* critically damped: double root r = -b/(2m):  d = PA + PB tau + (c1 + c2 tau) e^(r tau)
RC == Div(Neg(b), Mul(Num(2), m))
K1(order) == Sub(d0, PA(order))
K2(order) == Sub(Sub(v0, PB(order)), Mul(RC, K1(order)))
CrD(order) == Add(Add(PA(order), Mul(PB(order), h)), Mul(Add(K1(order), Mul(K2(order), h)), Exp(Mul(RC, h))))
CrV(order) == Add(PB(order), Mul(Add(K2(order), Mul(RC, Add(K1(order), Mul(K2(order), h)))), Exp(Mul(RC, h))))

\* rigid body, undamped:  m q'' = f0 + g tau
G(order) == Slope(order)
RbD(order) == Add(Add(d0, Mul(v0, h)), Add(Div(Mul(f0, Mul(h, h)), Mul(Num(2), m)), Div(Mul(G(order), Mul(h, Mul(h, h))), Mul(Num(6), m))))
RbV(order) == Add(v0, Add(Div(Mul(f0, h), m), Div(Mul(G(order), Mul(h, h)), Mul(Num(2), m))))

\* rigid body, damped:  m v' + b v = f0 + g tau;  v = P + Q tau + c e^(-beta tau),  beta = b/m
Beta == Div(b, m)
Q(order) == Div(G(order), b)
P(order) == Div(Sub(f0, Mul(m, Q(order))), b)
Cc(order) == Sub(v0, P(order))
RdV(order) == Add(Add(P(order), Mul(Q(order), h)), Mul(Cc(order), Exp(Neg(Mul(Beta, h)))))
RdD(order) == Add(Add(d0, Add(Mul(P(order), h), Div(Mul(Q(order), Mul(h, h)), Num(2)))),
                  Div(Mul(Cc(order), Sub(Num(1), Exp(Neg(Mul(Beta, h))))), Beta))

\* "undn" / "overn": under- / over-damped within 1e-6 of critical damping (both sides of the 1e-8 regime switch of
\* the uncoupled coefficients); same equations as und / over, but a nearly defective eigen-problem when coupled
Kinds == {"rb0", "rbl", "rbd", "und", "crit", "over", "undn", "overn"}
NearDefective(kd) == kd \in {"crit", "undn", "overn"}
StepD(kind, order) == CASE kind \in {"und", "over", "undn", "overn", "soft"} -> ElD(order) [] kind = "crit" -> CrD(order)
                        [] kind \in {"rb0"} -> RbD(order) [] kind \in {"rbl", "rbv", "rbd"} -> RdD(order)
StepV(kind, order) == CASE kind \in {"und", "over", "undn", "overn", "soft"} -> ElV(order) [] kind = "crit" -> CrV(order)
                        [] kind \in {"rb0"} -> RbV(order) [] kind \in {"rbl", "rbv", "rbd"} -> RdV(order)
\* acceleration from the equation of motion at the end of the step (force there: f1 for order 1, f0 held for order 0
\* - the solvers evaluate the acceleration with the force SAMPLE at that instant, i.e. f1)
Acc == Div(Sub(Sub(f1, Mul(b, V("v1"))), Mul(k, V("d1"))), m)
\* residual flexibility: static
RfD == Div(f1, k)

---------------------------------------------------------------------------
(* problems and representations                                            *)
IsRb(kind) == kind \in {"rb0", "rbl", "rbv", "rbd"}
\* initial-condition rules: <<d0 given, v0 given, static_ic>>.  Documented meaning: d(0) = d0 if given, else the static displacement of
\* the elastic equations (f0/k; rigid-body equations at 0) if static_ic, else 0;  v(0) = v0 if given, else 0;  static_ic is
\* quietly ignored when d0 is given
IcRule == [zero |-> <<FALSE, FALSE, FALSE>>, d0v0 |-> <<TRUE, TRUE, FALSE>>, static |-> <<FALSE, FALSE, TRUE>>,
           v0static |-> <<FALSE, TRUE, TRUE>>, d0static |-> <<TRUE, FALSE, TRUE>>, d0only |-> <<TRUE, FALSE, FALSE>>,
           v0only |-> <<FALSE, TRUE, FALSE>>]
IcNames == DOMAIN IcRule
\* a few three-equation problems are always included (two elastic equations can then be coupled NEXT TO a rigid-body equation,
\* with the residual-flexibility equation in front of it)
Extra3 == {<<"rb0", "und", "over">>, <<"und", "rbd", "und">>, <<"over", "und", "rb0">>}
\* two more kinds appear in dedicated problems only (they need their own run length / step size, chosen by the driver):
\*   rbv   rigid body whose damping lies BETWEEN the two documented cut-offs (velocity coefficients damped, 1e-3 accuracy class);
\*         the loss of damping only shows after many steps, so these problems are run 200 steps
\*   soft  a heavy, very soft under-damped equation (k >= 0.005 but k/m < 0.005: next to the rigid-body auto-detection threshold),
\*         solved with a large step so that w*h stays in the well-conditioned range
ExtraKinds == {"rbv", "soft"}
ExtraLong == {<<"rbv">>, <<"rbv", "und">>, <<"rb0", "rbv">>, <<"rbv", "rbv">>, <<"soft">>, <<"soft", "und">>, <<"rb0", "soft">>}
Problems == {<<ks, rf, order, ic>> : ks \in UNION {[1..n -> Kinds] : n \in 1..MaxModes} \cup Extra3 \cup ExtraLong,
                                      rf \in BOOLEAN, order \in {0, 1}, ic \in IcNames}

Solvers == {"SolveUnc", "SolveExp2", "SolveExp1"}
Reps == {[solver |-> s, mform |-> mf, coupling |-> c, pre_eig |-> pe, rbgiven |-> rg, layout |-> lay] :
            s \in Solvers, mf \in {"none", "vec", "mat"}, c \in {"diag", "coupled", "kcoupled", "ncoupled"}, pe \in BOOLEAN,
            rg \in BOOLEAN, lay \in {"contiguous", "interleaved", "rffirst"}}

\* couplings: "diag" (all matrices diagonal), "coupled" (mass, damping and stiffness full on the elastic block), "kcoupled" (a DIAGONAL,
\* non-uniform mass handed over as a vector next to full damping and stiffness - the mass form that makes the modal pre-transformation
\* weight physical initial conditions by a vector)
\* "ncoupled": the coupled system with the equations of its elastic block combined by a well-conditioned L (m, b, k full and NOT symmetric;
\* same solution): the solvers take general matrices, and inv(m) and its transpose are then different things
IsCoupled(r) == r.coupling \in {"coupled", "kcoupled", "ncoupled"}
FullCoupled(r) == r.coupling \in {"coupled", "ncoupled"}
HasRb(p) == \E i \in 1..Len(p[1]) : IsRb(p[1][i])
NEl(p) == Cardinality({i \in 1..Len(p[1]) : ~IsRb(p[1][i])})
\* the documented domain of each representation
Legal(p, r) ==
  /\ (r.coupling = "coupled" => (NEl(p) >= 2 /\ r.mform # "vec"))          \* coupling needs two elastic equations, full matrices
  /\ (r.coupling = "kcoupled" => (NEl(p) >= 2 /\ r.mform = "vec" /\ ~HasRb(p)))
  /\ (r.coupling = "ncoupled" => (NEl(p) >= 2 /\ r.mform = "mat" /\ ~r.pre_eig))
  /\ (r.mform = "vec" => r.coupling \in {"diag", "kcoupled"})
  /\ (r.pre_eig => (((r.coupling = "coupled" /\ r.mform = "mat") \/ r.coupling = "kcoupled") /\ ~p[2] /\ r.layout = "contiguous"))
                                                 \* pre_eig: symmetric full matrices; modal order is the eigen-solver's
  /\ (r.solver = "SolveExp1" => (~p[2] /\ ~r.pre_eig /\ ~r.rbgiven /\ r.layout = "contiguous" /\ ~IcRule[p[4]][3]))
  /\ (r.rbgiven => HasRb(p))
  \* SolveUnc's coupled (complex eigenvalue) path is graded by eigenvector conditioning: (nearly) repeated roots with one
  \* eigenvector are outside its domain; SolveExp2 and the uncoupled path are not restricted
  /\ ((r.solver = "SolveUnc" /\ IsCoupled(r)) => \A i \in 1..Len(p[1]) : ~NearDefective(p[1][i]))
  /\ (r.layout = "interleaved" => (Len(p[1]) + (IF p[2] THEN 1 ELSE 0) >= 2 /\ ~r.pre_eig))
  \* "rffirst": problem order kept, the residual-flexibility equation placed in FRONT of every other equation
  \* static initial conditions solve K_el x = F on the equations NOT declared rigid-body: a damped rigid-body equation that is neither
  \* auto-detected (coupled systems) nor declared makes that solve singular - outside the documented use of static_ic
  /\ ((\E i \in 1..Len(p[1]) : p[1][i] \in {"rbl", "rbv", "rbd"}) /\ FullCoupled(r) /\ ~r.rbgiven => ~IcRule[p[4]][3])
  \* "soft": its stiffness per unit mass is BELOW the documented auto-detection threshold (0.005): handing it over mass-normalised
  \* (m = None, or through pre_eig) with automatic rigid-body detection legitimately turns it into a rigid-body equation
  /\ ((\E i \in 1..Len(p[1]) : p[1][i] = "soft") => (~r.pre_eig /\ (r.mform # "none" \/ r.rbgiven)))
  /\ (r.layout = "rffirst" => (p[2] /\ ~r.pre_eig /\ r.solver # "SolveExp1"))
  /\ (\E i \in 1..Len(p[1]) : p[1][i] \in {"rbl", "rbv", "rbd"}) => (r.coupling = "diag" \/ ~r.rbgiven)
  \* auto-detection of a DAMPED rigid-body mode works for uncoupled systems only (documented): give it explicitly or keep diagonal
  /\ ((\E i \in 1..Len(p[1]) : p[1][i] \in {"rbl", "rbv", "rbd"}) /\ r.solver = "SolveUnc" /\ FullCoupled(r) => r.rbgiven)

\* abstract state the constructor must reach (SolveUnc / SolveExp2): index sets in the order the representation lays them out
Predict(p, r) == [nrb |-> Cardinality({i \in 1..Len(p[1]) : IsRb(p[1][i])}), nel |-> NEl(p), nrf |-> IF p[2] THEN 1 ELSE 0,
                  unc |-> r.coupling = "diag"]

VARIABLE q
Init == q \in Problems
Next == UNCHANGED q

RepsOf(p) == {r \in Reps : Legal(p, r)}
\* every problem has at least two legal representations (equivalence classes are not vacuous) and the partition is total
ClassesNonTrivial == Cardinality(RepsOf(q)) >= 2
PartitionTotal == \A r \in RepsOf(q) : Predict(q, r).nrb + Predict(q, r).nel + Predict(q, r).nrf = Len(q[1]) + (IF q[2] THEN 1 ELSE 0)

ExportProblem == Export => PrintT(<<"PROBLEM", q, RepsOf(q), IcRule[q[4]]>>)
\* the step terms (once)
ExportTerms == (Export /\ q = <<<<"rb0">>, FALSE, 0, "zero">>) =>
   \A kd \in Kinds \cup ExtraKinds : \A o \in {0, 1} : PrintT(<<"STEP", kd, o, StepD(kd, o), StepV(kd, o), Acc, RfD>>)
=============================================================================
