"""C16 growth: specs/ResultsTree.tla replayed on real DR_Results hierarchies.

The laws configuration (MC_ResultsTree_laws.cfg) lets TLC check, on every tree reachable by the structural actions and every data
assignment, that the code-shaped fold is the declarative envelope, order independence, the label law of every doappend mode,
idempotence / delete / clean-slate laws of form_extreme and the split-merge law.  The machine configurations export every history
of form_extreme(doappend, case_order) / delete_extreme / split+merge / del with the tree after each action; each sampled history is
replayed on a real hierarchy built with merge(), and after EVERY action the whole real tree is projected (keys in order, presence
of 'extreme', its ext / ext_x / maxcase / mincase / cases / mx / mn / event, base results untouched) and compared with the spec's."""
import random

from . import tlc


def _leaf_results(np, cla, SimpleNamespace, key, ids, data):
    """base-level results object of event `key` with load cases c<id> recovered in order"""
    drdefs = cla.DR_Def(dict(se=0, uf_reds=(1, 1, 1, 1)))

    @cla.DR_Def.addcat
    def _():
        name = "cat"
        desc = "verif category"
        labels = ["row 1"]
        drfunc = "sol.resp"
        drdefs.add(**locals())

    DR = cla.DR_Event()
    DR.add(None, drdefs)
    res = DR.prepare_results("verif", key)
    for j, i in enumerate(ids):
        mx, mn = data[i - 1]
        t = np.array([10.0 * i + 1, 10.0 * i + 2])
        resp = np.array([[float(mx), float(mn)]])
        res.time_data_recovery({(1, 1, 1, 1): SimpleNamespace(resp=resp, t=t, h=1.0)}, None, "c%d" % i, DR, len(ids), j, dosrs=False)
    return res


def _build(np, cla, SimpleNamespace, node, key, data):
    if node["kind"] == "leaf":
        return _leaf_results(np, cla, SimpleNamespace, key, list(node["ids"]), data)
    out = cla.DR_Results()
    kids = [_build(np, cla, SimpleNamespace, kd, k, data) for k, kd in zip(node["keys"], node["kids"])]
    # merge() names a nested dictionary by joining its keys: rename it to the key the spec uses
    ren = {", ".join(kd["keys"]): k for k, kd in zip(node["keys"], node["kids"]) if kd["kind"] == "node"}
    got = out.merge(kids, ren or None)
    if list(got) != list(node["keys"]):
        # how merge names a nested dictionary (joined keys, rename_dict) is documented behaviour outside the property: note it and
        # give the children the keys the spec uses so that the envelopes can still be compared
        _NAMING.append("merge returned event names %r, the documented naming rule gives %r" % (list(got), list(node["keys"])))
        vals = [out[k] for k in got]
        out.clear()
        for k, v_ in zip(node["keys"], vals):
            out[k] = v_
    return out


_NAMING = []


def _keys(real):
    return [k for k in real if k != "extreme"]


def _at(real, path):
    for i in path:
        real = real[_keys(real)[i - 1]]
    return real


def _xmax(i):
    return 10.0 * i + 1


def _xmin(i, data):
    return 10.0 * i + 2 if data[i - 1][1] < data[i - 1][0] else 10.0 * i + 1


def _ids_below(node):
    if node["kind"] == "leaf":
        return list(node["ids"])
    out = []
    for kd in node["kids"]:
        out += _ids_below(kd)
    return out


def _path_to(node, i):
    if node["kind"] == "leaf":
        return ["c%d" % i]
    for k, kd in zip(node["keys"], node["kids"]):
        if i in _ids_below(kd):
            return [k] + _path_to(kd, i)
    raise KeyError(i)


def _label(node, i, da):
    """spec LabelLaw: 0 -> the child's key; 3 -> the base case's name; 1 -> the whole path; 2 -> the path without the case's name"""
    p = _path_to(node, i)
    return [p[0]] if da == 0 else [p[-1]] if da == 3 else p if da == 1 else p[:-1]


def _compare(np, real, node, data, where, key, top, ref=None):
    """ref: the same node (followed by keys) in the spec tree as it was when form_extreme last ran - entries may be stale"""
    """projection of the real tree vs the spec tree; returns a message or None"""
    if node["kind"] == "leaf":
        if "cat" not in real or not hasattr(real["cat"], "ext"):
            return "%s: a base results object was expected" % where
        c = real["cat"]
        ids = list(node["ids"])
        if list(c.cases) != ["c%d" % i for i in ids]:
            return "%s: cases %r, spec %r" % (where, list(c.cases), ["c%d" % i for i in ids])
        if c.mx.shape != (1, len(ids)) or [float(v) for v in c.mx[0]] != [float(data[i - 1][0]) for i in ids] or \
                [float(v) for v in c.mn[0]] != [float(data[i - 1][1]) for i in ids]:
            return "%s: the per-case maxima / minima of the base results changed" % where
        if "extreme" in real:
            return "%s: a base results object carries an 'extreme' entry" % where
        return None
    if "cat" in real:
        return "%s: a dictionary of events was expected" % where
    if _keys(real) != list(node["keys"]):
        return "%s: keys %r, spec %r" % (where, _keys(real), list(node["keys"]))
    ex = node["ex"]
    if ("extreme" in real) != bool(ex["has"]):
        return "%s: 'extreme' entry %s, spec says %s" % (where, "present" if "extreme" in real else "absent", "present" if ex["has"] else "absent")
    if ex["has"]:
        e = real["extreme"]["cat"]
        want = (float(ex["mx"]), float(ex["mn"]))
        if e.ext.shape != (1, 2) or (float(e.ext[0, 0]), float(e.ext[0, 1])) != want:
            return "%s: extreme ext = %r, spec %r" % (where, e.ext.tolist(), want)
        if e.ext_x is None:
            return "%s: extreme ext_x is None" % where
        # label and abscissa must name ONE base case below this node that attains the value.  The spec's fold keeps the first one in
        # traversal order; the statement does not say which of several tied cases is named, so any attaining case is accepted - its
        # label follows the spec's declarative LabelLaw (path to that case, cut according to the doappend mode)
        src = ref if (ref is not None and ref["kind"] == "node") else node
        sub = dict(src, keys=list(ex["cases"]), kids=[src["kids"][list(src["keys"]).index(k)] for k in ex["cases"]]) \
            if set(ex["cases"]) <= set(src["keys"]) else src
        for col, val_, lab_, x_, xf, first in ((0, ex["mx"], e.maxcase[0], float(e.ext_x[0, 0]), _xmax, ex["mxid"]),
                                              (1, ex["mn"], e.mincase[0], float(e.ext_x[0, 1]), lambda i: _xmin(i, data), ex["mnid"])):
            if lab_ == ",".join(ex["maxcase"] if col == 0 else ex["mincase"]) and x_ == xf(first):
                continue          # exactly the spec's entry (this also covers stale entries formed over an earlier shape of the tree)
            try:
                cands = [i for i in _ids_below(sub) if data[i - 1][col] == val_]
            except KeyError:
                cands = []
            if not any(x_ == xf(i) and lab_ == ",".join(_label(sub, i, ex["da"])) for i in cands):
                return "%s: %s label / abscissa (doappend=%d) = (%r, %r) name no base case attaining %r (spec: case c%d -> (%r, %r); attaining cases %r)" % (
                    where, "max" if col == 0 else "min", ex["da"], lab_, x_, val_, first, ",".join(ex["maxcase"] if col == 0 else ex["mincase"]), xf(first), cands)
        if list(e.cases) != list(ex["cases"]):
            return "%s: extreme .cases = %r, spec %r" % (where, list(e.cases), list(ex["cases"]))
        if [float(v) for v in e.mx[0]] != [float(v) for v in ex["mxs"]] or [float(v) for v in e.mn[0]] != [float(v) for v in ex["mns"]]:
            return "%s: extreme .mx / .mn columns = %r / %r, spec %r / %r" % (where, e.mx.tolist(), e.mn.tolist(), list(ex["mxs"]), list(ex["mns"]))
        if not top and e.event != key:
            _NAMING.append("%s: the nested extreme is named %r, its key is %r" % (where, e.event, key))
    for k, kd in zip(node["keys"], node["kids"]):
        rk = None
        if ref is not None and ref["kind"] == "node" and k in list(ref["keys"]):
            rk = ref["kids"][list(ref["keys"]).index(k)]
        msg = _compare(np, real[k], kd, data, where + "/" + k, k, False, rk)
        if msg:
            return msg
    return None


def _apply(cla, real, op):
    if op[0] == "form":
        _, da, order = op
        real.form_extreme(doappend=da, case_order=list(order) if len(order) else None)
    elif op[0] == "delete":
        real.delete_extreme()
    elif op[0] == "splitmerge":
        path = list(op[1])
        parent = _at(real, path[:-1])
        key = _keys(parent)[path[-1] - 1]
        new = cla.DR_Results()
        new.merge(parent[key].split().values())
        parent[key] = new
    elif op[0] == "drop":
        node = _at(real, list(op[1]))
        del node[_keys(node)[op[2] - 1]]
    else:
        raise AssertionError("unknown action %r" % (op,))


def tree_part(run):
    import numpy as np
    from types import SimpleNamespace
    from pyyeti import cla

    quick = run.tier == "quick"
    res = tlc.run("ResultsTree", "MC_ResultsTree_laws.cfg", timeout=900, heap="6g")
    run.add_tlc("MC_ResultsTree_laws.cfg", res, "every tree reachable by split+merge / del x 256 data assignments: EnvIsEnvelope OrderIndependent "
                                                 "LabelLaw FormLaws SplitLaw")
    if res.violation:
        run.violation("TLC: %s on the ResultsTree model (laws)" % res.violation, {"tlc": res.error_text()}, {"where": "model"})
        return
    cfg = "MC_ResultsTree.cfg" if quick else "MC_ResultsTree_t.cfg"
    res = tlc.run("ResultsTree", cfg, timeout=1500, heap="8g")
    run.add_tlc(cfg, res, "histories of form / delete / split+merge / del; FreshAfterForm CleanAfterDelete Bounded; every state exported")
    if res.violation:
        run.violation("TLC: %s on the ResultsTree model (%s)" % (res.violation, cfg), {"tlc": res.error_text()}, {"where": "model"})
        return

    def hk(h):
        return repr(h)

    states = {}
    for shape, data, hist, tree in res.tagged("TREE"):
        states[(shape, repr(data), hk(list(hist)))] = (data, list(hist), tree)
    depth = max(len(v[1]) for v in states.values())
    leaves = sorted(k for k, v in states.items() if len(v[1]) == depth)
    rnd = random.Random(run.seed + 5)
    nsel = 1500 if quick else 5000
    if len(leaves) > nsel:
        # keep histories that end with, or contain, a structural edit after an envelope was formed (stale entries) over-represented
        def weight(k):
            h = states[k][1]
            names = [o[0] for o in h]
            return 3 if ("form" in names and names[-1] in ("drop", "splitmerge")) or names.count("form") >= 2 else 1
        pool = [k for k in leaves for _ in range(weight(k))]
        leaves = sorted(set(rnd.sample(pool, nsel)))
    for li, k in enumerate(leaves):
        shape, _, _ = k
        data, hist, _ = states[k]
        init = states[(shape, repr(data), hk([]))][2]
        names = [o[0] for o in hist]
        run.case(("tree", shape, repr(data), hk(hist)), nontrivial="form" in names, part="results hierarchy")
        tags = {"target": "tree", "shape": shape, "ops": sorted(set(names))}
        try:
            real = _build(np, cla, SimpleNamespace, init, "top", data)
            msg = _compare(np, real, init, data, "after merge", "top", True)
            formed = None
            for n, op in enumerate(hist):
                if msg:
                    break
                _apply(cla, real, op)
                spec = states[(shape, repr(data), hk(hist[: n + 1]))][2]
                if op[0] == "form":
                    formed = spec
                msg = _compare(np, real, spec, data, "after %r" % (hist[: n + 1],), "top", True, formed)
        except Exception as ex:
            import traceback
            msg = "raised %r: %s" % (ex, traceback.format_exc()[-300:])
        while _NAMING:
            run.deviation("ResultsTree (naming)", _NAMING.pop(), {"shape": shape, "hist": hist})
        if msg:
            run.violation("DR_Results hierarchy (%s): %s" % (shape, msg), {"shape": shape, "data": data, "hist": hist}, tags)
            if len(run.violations) > 10:
                return
        run.trace_validated()
        if li < 2:
            run.sample({"shape": shape, "data (max, min) of cases c1..c4": data, "history": hist})
