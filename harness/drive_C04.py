"""C04: OUTPUT4 write followed by read is the identity.

code -> spec: pyYeti's writer is run for every non-zero pattern of the small matrices enumerated by TLC
(specs/Op4.tla) x {binary, ASCII} x endian x {dense, bigmat, nonbigmat, auto} x digits x {ndarray, scipy sparse}
x names/forms, several matrices per file; the bytes are tokenised by the neutral tokenizer (harness/phys_op4.py)
and must be (a) a word of the grammar, (b) one of the LEGAL encodings TLC exported for that matrix and layout
(the format's freedom is allowed, pyYeti's own choice is not prescribed), (c) carry exactly the values passed in;
then the file is read back in dense / sparse / auto modes and must give name, shape, form, type and values
(bit-exact for binary, the printed digits for ASCII)."""
import itertools
import json
import random

from . import phys_op4 as P
from . import op4_common as C
from .runner import main, Run

SPECIALS = [-2.5e-120, 3.25e150, -1.7976931348623157e308, 5e-324, -9.999999999999999e99, 1.0e100, -1.0e-100]


def legal_shapes(encs, nr, nc):
    """(pattern, layout) -> set of encoding shapes, from the TLC export"""
    out = {}
    for M, enc in encs:
        ids = tuple(tuple(1 if M[(r, c)] else 0 for c in range(1, nc + 1)) for r in range(1, nr + 1))
        blk = C.instantiate(enc, {1: 1.0, 2: 2.0}, False, "x", 2, 2)
        out.setdefault((ids, enc["hdr"]["layout"]), set()).add(C.shape_of(blk))
    return out


def body(run: Run, replay):
    import numpy as np
    import scipy.sparse as sp
    import warnings
    warnings.simplefilter("ignore")
    from pyyeti.nastran import op4

    run.rule = ("every non-zero pattern of a 3x2 matrix (64) x real/complex x value pools across the double range x write options "
                "(binary/ascii, endian, dense/bigmat/nonbigmat/auto, digits, ndarray/scipy-sparse input, forms, 1-3 matrices per file, "
                "duplicate names); output tokenised and checked for membership in the TLC-exported set of legal encodings, then read "
                "back in all modes. distinct non-trivial = (pattern, options) with at least one zero between non-zeros or a null column")
    run.assumptions = ["legal encodings come from specs/Op4.tla (TLC); tokenizer is neutral (struct/string formatting only)",
                       "ASCII identity = the printed `digits`-digit decimal, i.e. float('%.{digits}E' % x)"]
    quick = run.tier == "quick"
    rnd = random.Random(run.seed)
    for nr, nc, cfgs in ((3, 2, ("MC_Op4_q1.cfg", "MC_Op4_q5.cfg", "MC_Op4_q6.cfg", "MC_Op4_q7.cfg")),
                         (5, 1, ("MC_Op4_c1.cfg", "MC_Op4_c2.cfg", "MC_Op4_c3.cfg", "MC_Op4_c4.cfg"))):
        if not shape_sweep(run, np, sp, op4, nr, nc, cfgs, quick):
            return
    single_values(run, np, sp, op4)
    large_cases(run, np, sp, op4)
    run.exhaustive = not quick


def shape_sweep(run, np, sp, op4, nr, nc, cfgs, quick):
    legal = {}
    for cfg, cplx, ascii_ in zip(cfgs, (False, True, False, True), (False, False, True, True)):
        encs = C.load_model(run, cfg, "legal encodings %dx%d cplx=%s ascii=%s" % (nr, nc, cplx, ascii_))
        if encs is None:
            return False
        legal[(cplx, ascii_)] = legal_shapes(encs, nr, nc)
    patterns = list(itertools.product((0, 1), repeat=nr * nc))
    POOL = C.VAL_D + SPECIALS
    opts = []
    for binary in (True, False):
        for sparse_mode in ("dense", "bigmat", "nonbigmat", "auto"):
            for extra in ((("<",), (">",), ("",)) if binary else ((9,), (16,), (5,), (12,))):
                opts.append((binary, sparse_mode, extra[0]))
    nfile = 0
    for pi, pat in enumerate(patterns):
        for oi, (binary, sparse_mode, extra) in enumerate(opts):
            if quick and (pi + oi) % 3:
                continue
            for cplx in (False, True):
                for intype in ("ndarray", "coo", "csr", "coo_dup", "csr_noncanon"):
                    if quick and (pi + oi + (1 if cplx else 0)) % 2 and intype != "ndarray":
                        continue
                    # 1-3 matrices per file: the pattern under test + companions (rotating patterns)
                    k = 1 + (pi // 2 + oi // 3) % 3
                    pats = [pat] + [patterns[(pi * 7 + 13 * j + oi) % len(patterns)] for j in range(1, k)]
                    mats, names, forms = [], [], []
                    pool = POOL
                    if not binary:
                        # values whose `digits`-digit rounding is no longer a finite double are outside the statement
                        pool = [x for x in POOL if abs(float("%.*E" % (extra, x))) != float("inf")]
                    for j, pt in enumerate(pats):
                        A = np.zeros((nr, nc), complex if cplx else float)
                        for idx, bit in enumerate(pt):
                            if bit:
                                x = pool[(pi + oi + idx + 3 * j) % len(pool)]
                                y = pool[(pi + 2 * oi + idx + 5 + j) % len(pool)]
                                A[idx // nc, idx % nc] = complex(x, y) if cplx else x
                        mats.append(A)
                        names.append(["aa", "aa", "b1"][j] if (pi // 3 + oi) % 2 == 0 else "m%d" % j)
                        forms.append([None, 2, 9][(pi + j) % 3])
                    inputs = []
                    for A in mats:
                        if intype == "ndarray":
                            inputs.append(A)
                        elif intype == "coo":
                            inputs.append(sp.coo_matrix(A))
                        elif intype == "coo_dup":
                            # an assembled COO matrix: duplicate entries (to be summed) and explicitly stored zeros
                            r_, c_ = np.nonzero(A)
                            v_ = A[r_, c_]
                            halves = v_ * 0.5
                            okh = (halves + halves) == v_
                            rr = np.concatenate([r_, r_[okh], [0]])
                            cc = np.concatenate([c_, c_[okh], [0]])
                            vv = np.concatenate([np.where(okh, halves, v_), halves[okh], [0.0]])
                            inputs.append(sp.coo_matrix((vv, (rr, cc)), shape=A.shape))
                        elif intype == "csr_noncanon":
                            m_ = sp.csr_matrix(A)
                            m_.indices = m_.indices.copy()
                            for i_ in range(A.shape[0]):     # reverse the column order inside each row: unsorted indices
                                a_, b_ = m_.indptr[i_], m_.indptr[i_ + 1]
                                m_.indices[a_:b_] = m_.indices[a_:b_][::-1]
                                m_.data[a_:b_] = m_.data[a_:b_][::-1]
                            m_.has_sorted_indices = False
                            inputs.append(m_)
                        else:
                            inputs.append(sp.csr_matrix(A))
                    case = {"pattern": pats, "binary": binary, "sparse": sparse_mode, "endian_or_digits": extra, "complex": cplx,
                            "input": intype, "names": names, "forms": forms,
                            "values": [[[str(v) for v in row] for row in A.tolist()] for A in mats]}
                    nontriv = any(0 in pt and 1 in pt for pt in pats)
                    run.case(json.dumps(case, sort_keys=True), nontrivial=nontriv, part=("binary " if binary else "ascii ") + sparse_mode)
                    nfile += 1
                    tags = {"kind": "binary" if binary else "ascii"}
                    vals = [v for A in mats for v in np.asarray(A).ravel().view(float) if v != 0]
                    tags["neg_3digit_exp"] = (not binary) and any(v < 0 and (abs(v) >= 1e100 or abs(v) < 1e-99) for v in vals)
                    msg = one_file(np, sp, op4, legal, inputs, mats, names, forms, binary, sparse_mode, extra, cplx, pats, run)
                    if msg:
                        run.violation("OP4 write/read: " + msg, case, tags)
                        if len([v for v in run.violations if v]) >= 8:
                            return False
                    elif nfile <= 2:
                        run.sample(case)
    run.extra["files_written_%dx%d" % (nr, nc)] = nfile
    return True


def single_values(run, np, sp, op4):
    """every stress value ALONE in a matrix (so that no other entry widens the field) x both signs x digits x layouts:
    the boundaries of the two/three-digit exponent field (values that round UP to 1.0E+100 at the requested digits)"""
    import os
    import tempfile
    vals = set()
    for d in (5, 7, 9, 12, 15, 16):
        # the largest double whose d-digit rounding still has a 2-digit exponent, and the next one that rounds up
        vals.update([float("9." + "9" * d + "4e99"), float("9." + "9" * d + "6e99"), float("9." + "9" * (d - 1) + "4e-100"),
                     float("9." + "9" * d + "6e-100")])
    vals.update(C.VAL_D + SPECIALS)
    for x0 in sorted(vals):
        for sign in (1.0, -1.0):
            x = sign * abs(x0)
            for digits in (5, 7, 9, 12, 15, 16):
                if abs(float("%.*E" % (digits, x))) == float("inf"):
                    continue
                for mode in ("dense", "bigmat", "nonbigmat"):
                    if (digits + len(mode)) % 2 and run.tier == "quick":
                        continue
                    A = np.zeros((3, 2))
                    A[1, 0] = x
                    A[1, 1] = 1.0
                    A[2, 1] = x
                    case = {"single_value": repr(x), "digits": digits, "sparse": mode}
                    tags = {"kind": "ascii", "neg_3digit_exp": x < 0 and (abs(x) >= 9.9e99 or abs(x) < 1e-99)}
                    run.case(json.dumps(case), part="single stress value per matrix (ASCII)")
                    fd, path = tempfile.mkstemp(suffix=".op4", prefix="verif_s_")
                    os.close(fd)
                    try:
                        op4.write(path, ["a"], [A], binary=False, digits=digits, sparse=mode)
                        var, blocks = P.tokenize(open(path, "rb").read())
                        exp = np.vectorize(lambda y: float("%.*E" % (digits, y)))(A)
                        got = np.array(P.place(blocks[0]))
                        back = op4.read(path)["a"]
                        if not np.array_equal(got, exp) or not np.array_equal(back, exp):
                            run.violation("ASCII write/read of a matrix holding only %r at %d digits: read back %r" % (x, digits, back.tolist()), case, tags)
                        run.trace_validated()
                    except (P.FormatError, ValueError, IndexError) as ex:
                        run.violation("ASCII write of a matrix holding only %r at %d digits is not a legal/readable file: %s" % (x, digits, ex), case, tags)
                    finally:
                        try:
                            os.unlink(path)
                        except OSError:
                            pass


def large_cases(run, np, sp, op4):
    """shapes beyond the TLC bound, tied to the spec's field-range / layout rules: rows above the struct->fromfile cut-over,
    rows >= 65536 (nonbigmat request must become bigmat), the nonbigmat string-length limit L + 1 < 2^15, auto form"""
    import os
    import tempfile
    rng = np.random.default_rng(run.seed)
    cases = []
    A = np.zeros((3500, 2)); A[3:3400, 0] = rng.standard_normal(3397); A[10, 0] = 0.0; A[3499, 1] = -2.5
    cases.append(("over-cutoff", A, None))
    Ac = np.zeros((1600, 2), complex); Ac[2:1590, 0] = rng.standard_normal(1588) + 1j * rng.standard_normal(1588); Ac[1599, 1] = 1.5 - 2j
    cases.append(("over-cutoff-complex", Ac, None))      # 1500 complex rows = 3000 doubles per column
    for nr_ in (2999, 3000, 3001):
        At = np.zeros((nr_, 1)); At[:, 0] = rng.standard_normal(nr_)
        cases.append(("cutoff-%d" % nr_, At, None))
    B = np.zeros((70000, 2)); B[5, 0] = 1.5; B[65540:65543, 0] = [1.0, 2.0, 3.0]; B[69999, 1] = 4.0
    cases.append(("rows>=65536", B, None))
    for nr_ in (65535, 65536, 65537):        # the row count at which nonbigmat requests must turn into bigmat, on both sides
        Bn = np.zeros((nr_, 2)); Bn[3, 0] = 2.5; Bn[nr_ - 2:, 0] = [1.0, -3.0]; Bn[nr_ - 1, 1] = 4.0
        cases.append(("rows>=65536" if nr_ >= 65536 else "rows-65535", Bn, None))
    Cm = np.zeros((16390, 1)); Cm[:16383, 0] = np.arange(1, 16384)
    cases.append(("string-16383", Cm, None))
    Dm = np.zeros((16390, 1)); Dm[:16384, 0] = np.arange(1, 16385)
    cases.append(("string-16384", Dm, None))
    S = np.array([[1.0, 2.0, 0.0], [2.0, 0.0, 3.0], [0.0, 3.0, 4.0]])
    cases.append(("symmetric", S, 6))
    N = S.copy(); N[0, 1] = 2.5
    cases.append(("nonsymmetric", N, 1))
    for label, A, autoform in cases:
        for binary in (True, False):
            for mode in ("dense", "bigmat", "nonbigmat", "auto"):
                for intype in ("ndarray", "csc"):
                    if A.shape[0] > 10000 and (intype == "csc") != (mode == "auto") and label != "string-16384":
                        continue
                    # columns around the struct -> tobytes / fromfile cut-over are written in both byte orders
                    for endian in (("", "<", ">") if (binary and "cutoff" in label) else ("",)):
                        long_string = label == "string-16384" and mode == "nonbigmat"
                        tags = {"kind": "binary" if binary else "ascii", "sparse": mode, "long_string": long_string}
                        case = {"large": label, "binary": binary, "sparse": mode, "input": intype, "shape": list(A.shape), "endian": endian}
                        run.case(json.dumps(case), part="large/special shapes")
                        fd, path = tempfile.mkstemp(suffix=".op4", prefix="verif_L_")
                        os.close(fd)
                        try:
                            inp = A if intype == "ndarray" else sp.csc_matrix(A)
                            try:
                                op4.write(path, ["big"], [inp], binary=binary, sparse=mode, **({"endian": endian} if endian else {}))
                            except Exception as ex:
                                run.violation("OP4 write of %s raised %r" % (label, ex), case, tags)
                                continue
                            var, blocks = P.tokenize(open(path, "rb").read())
                            b = blocks[0]
                            if label == "rows>=65536" and mode in ("nonbigmat", "bigmat") and b["hdr"]["nrows"] >= 0:
                                run.violation("matrix with >= 65536 rows must be written in bigmat form (negative row count)", case, tags)
                            if autoform is not None and b["hdr"]["form"] != autoform:
                                run.violation("auto form of a %s square matrix is %d" % (label, b["hdr"]["form"]), case, tags)
                            rnd16 = np.vectorize(lambda y: float("%.16E" % y))
                            if np.iscomplexobj(A):
                                exp = A if binary else rnd16(A.real) + 1j * rnd16(A.imag)
                            else:
                                exp = A if binary else rnd16(A)
                                coo = sorted((s_["r0"] - 1 + k, c["icol"] - 1, v) for c in b["cols"] for s_ in c["strs"] for k, v in enumerate(s_["vals"]) if v != 0)
                                want = sorted((int(i), int(j), float(exp[i, j])) for i, j in zip(*np.nonzero(exp)))
                                if coo != want:
                                    run.violation("values in the written file differ from the matrix (%s)" % label, case, tags)
                            for rmode in (False, True, None):
                                n_, m_, f_, t_ = op4.load(path, into="list", sparse=rmode)
                                d = m_[0].toarray() if sp.issparse(m_[0]) else np.asarray(m_[0])
                                if d.shape != A.shape or not np.array_equal(d, exp):
                                    run.violation("load(sparse=%r) of %s differs from what was written" % (rmode, label), case, tags)
                            run.trace_validated()
                        except P.FormatError as ex:
                            run.violation("written file (%s) is not a word of the OUTPUT4 grammar: %s" % (label, ex), case, tags)
                        finally:
                            try:
                                os.unlink(path)
                            except OSError:
                                pass


def one_file(np, sp, op4, legal, inputs, mats, names, forms, binary, sparse_mode, extra, cplx, pats, run):
    import os
    import tempfile
    fd, path = tempfile.mkstemp(suffix=".op4", prefix="verif_w_")
    os.close(fd)
    try:
        kw = dict(names=names, matrices=inputs, binary=binary, sparse=sparse_mode, forms=forms)
        if binary:
            kw["endian"] = extra
        else:
            kw["digits"] = extra
        try:
            op4.write(path, **kw)
        except Exception as ex:
            return "write raised %r" % ex
        data = open(path, "rb").read()
        try:
            var, blocks = P.tokenize(data)
        except (P.FormatError, ValueError, IndexError) as ex:
            return "written file is not a word of the OUTPUT4 grammar: %s" % ex
        run.trace_validated()
        if len(blocks) != len(mats):
            return "file holds %d matrices, %d were written" % (len(blocks), len(mats))
        digits = None if binary else extra
        for b, A, nm, fo, pt in zip(blocks, mats, names, forms, pats):
            h = b["hdr"]
            if h["name"] != nm or (abs(h["nrows"]), h["ncols"]) != A.shape or h["mtype"] != (4 if cplx else 2):
                return "header %r does not describe matrix %s %r" % (h, nm, A.shape)
            if fo is not None and h["form"] != fo:
                return "form %r written, %r requested" % (h["form"], fo)
            if fo is None and h["form"] != 2:
                return "auto form of a rectangular matrix is %r" % h["form"]
            lay = "dense" if (b["cols"] and b["cols"][0]["irow"] > 0) else ("bigmat" if h["nrows"] < 0 else "nonbigmat")
            if not b["cols"]:
                lay = "bigmat" if h["nrows"] < 0 else None
            ids = tuple(tuple(pt[r * A.shape[1] + c] for c in range(A.shape[1])) for r in range(A.shape[0]))
            if lay is not None:
                shapes = legal[(cplx, not binary)].get((ids, lay))
                if shapes is None or C.shape_of(b) not in shapes:
                    return "encoding of matrix %s (layout %s) is not a legal encoding of that matrix per the spec: %r" % (nm, lay, C.shape_of(b))
            want_lay = {"dense": "dense", "bigmat": "bigmat", "nonbigmat": "nonbigmat"}.get(sparse_mode)
            if want_lay and lay is not None and lay != want_lay:
                return "layout %s written, %s requested" % (lay, want_lay)
            got = np.array(P.place(b))
            exp = A if binary else np.vectorize(lambda y: complex(float("%.*E" % (digits, y.real)), float("%.*E" % (digits, y.imag))) if cplx
                                                else float("%.*E" % (digits, y)))(A)
            if not np.array_equal(got, exp):
                return "values in the file differ from the matrix passed in (%s)" % nm
        # read back: all modes
        for mode in (False, True, None):
            try:
                rn, rm, rf, rt = op4.load(path, into="list", sparse=mode)
            except Exception as ex:
                return "load(sparse=%r) of the written file raised %r" % (mode, ex)
            if list(rn) != list(names):
                return "names read back %r, written %r" % (rn, names)
            for A, m, fo, f2, t2 in zip(mats, rm, forms, rf, rt):
                d = m.toarray() if sp.issparse(m) else np.asarray(m)
                exp = A if binary else np.vectorize(lambda y: complex(float("%.*E" % (digits, y.real)), float("%.*E" % (digits, y.imag))) if cplx
                                                    else float("%.*E" % (digits, y)))(A)
                if d.shape != A.shape or not np.array_equal(d, exp):
                    return "load(sparse=%r): values read back differ from those written" % mode
                if t2 != (4 if cplx else 2) or (fo is not None and f2 != fo):
                    return "load(sparse=%r): form/type read back %r" % (mode, (f2, t2))
        if len(set(names)) == len(names):
            dct = op4.read(path)
            for A, nm in zip(mats, names):
                exp = A if binary else None
                if exp is not None and not np.array_equal(np.asarray(dct[nm]), exp):
                    return "read(): %s differs" % nm
        return None
    finally:
        try:
            os.unlink(path)
        except OSError:
            pass


if __name__ == "__main__":
    main("C04", "model_checking", body)
