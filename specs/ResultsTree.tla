---------------------------- MODULE ResultsTree ----------------------------
(***************************************************************************)
(* C16 growth: a DR_Results hierarchy as a TREE that is edited and         *)
(* re-enveloped.  specs/ClaExtrema.tla follows one category through load   *)
(* cases and one level of events; programs build hierarchies               *)
(* (event -> sub-event -> base results), split base results into their      *)
(* cases, drop cases, merge them back and call form_extreme again with      *)
(* any label mode.                                                          *)
(*                                                                          *)
(* A LEAF is a base-level results object: its load cases in recovery order, *)
(* each with (max, min) of the one row followed here and a global id that   *)
(* fixes the abscissae (10 id + 1 for the max, 10 id + 2 for the min).      *)
(* A NODE is an ordered dictionary key -> subtree, optionally carrying the  *)
(* 'extreme' entry computed the last time form_extreme ran over it.         *)
(*                                                                          *)
(* Actions (one public call or idiom each):                                 *)
(*   Form(da, ord)   top.form_extreme(doappend=da, case_order=ord)          *)
(*                   = delete every old 'extreme', then bottom-up envelopes *)
(*   DeleteExt       top.delete_extreme()                                   *)
(*   SplitMerge(p)   node[k] = DR_Results().merge(node[k].split().values()) *)
(*                   a base results object becomes a node of 1-case leaves  *)
(*   Drop(p, i)      del node[k]   (stale 'extreme' entries stay behind)    *)
(* The envelope is written twice: as the code's left-to-right compare-and-  *)
(* replace fold (FoldEx) and declaratively (the greatest value over the     *)
(* base cases below, attained first in traversal order); TLC checks they    *)
(* agree on every reachable tree, that values do not depend on the order of *)
(* the children, that form_extreme is idempotent and undone by              *)
(* delete_extreme, that a split-and-merged leaf envelopes to the leaf's own *)
(* table, and the label law of each doappend mode.                          *)
(* Every history is exported with the tree after each action for replay.    *)
(***************************************************************************)
EXTENDS Integers, Sequences, FiniteSets, TLC

CONSTANTS MaxOps, Export, ShapeSet, ValSet,
          DataMod,   \* the machine is run on one in DataMod of the data assignments (the laws configuration takes all: DataMod = 1)
          Track      \* TRUE: histories are recorded and exported (the machine); FALSE: only the trees reachable by the structural
                     \* actions are visited, each once, and the laws are checked on them

\* (max, min) of one base case on the followed row
Vals == CASE ValSet = "three" -> {<<1, 0 - 2>>, <<3, 0 - 2>>, <<3, 1>>}
          [] ValSet = "four"  -> {<<1, 0 - 2>>, <<1, 1>>, <<3, 0 - 2>>, <<3, 1>>}

NoEx == [has |-> FALSE]
Leaf(ids) == [kind |-> "leaf", ids |-> ids]
Node(ks, kd) == [kind |-> "node", keys |-> ks, kids |-> kd, ex |-> NoEx]
CaseName(id) == <<"c1", "c2", "c3", "c4">>[id]

\* initial hierarchies (built by merge; nested dictionaries are named through rename_dict or through their own extreme's name)
Shape(s) ==
  CASE s = "flat"   -> Node(<<"A", "B">>, <<Leaf(<<1, 2>>), Leaf(<<3>>)>>)
    [] s = "mixed"  -> Node(<<"G", "L">>, <<Node(<<"Y", "Z">>, <<Leaf(<<1, 2>>), Leaf(<<3>>)>>), Leaf(<<4>>)>>)
    [] s = "twins"  -> Node(<<"G", "H">>, <<Node(<<"Y", "Z">>, <<Leaf(<<1>>), Leaf(<<2>>)>>),
                                            Node(<<"Y", "W">>, <<Leaf(<<3>>), Leaf(<<4>>)>>)>>)
NCases(s) == IF s = "flat" THEN 3 ELSE 4

VARIABLES shape, data, tree, hist, trail
vars == <<shape, data, tree, hist, trail>>

---------------------------------------------------------------------------
\* envelopes.  An envelope record: mx, mn values; mxid, mnid = global id of the base case that attains them (-> abscissa);
\* maxcase, mincase = label as a sequence of components (joined with "," by the code)
LeafEnv(l) ==
  LET RECURSIVE F(_, _)
      F(i, acc) == IF i > Len(l.ids) THEN acc ELSE
        LET id == l.ids[i]  v == data[id] IN
        F(i + 1, IF i = 1 THEN [mx |-> v[1], mn |-> v[2], mxid |-> id, mnid |-> id, maxcase |-> <<CaseName(id)>>, mincase |-> <<CaseName(id)>>]
                 ELSE [mx |-> IF v[1] > acc.mx THEN v[1] ELSE acc.mx, mxid |-> IF v[1] > acc.mx THEN id ELSE acc.mxid,
                       maxcase |-> IF v[1] > acc.mx THEN <<CaseName(id)>> ELSE acc.maxcase,
                       mn |-> IF v[2] < acc.mn THEN v[2] ELSE acc.mn, mnid |-> IF v[2] < acc.mn THEN id ELSE acc.mnid,
                       mincase |-> IF v[2] < acc.mn THEN <<CaseName(id)>> ELSE acc.mincase])
  IN F(1, <<>>)

\* label of a child's contribution (the code's _mk_case_lbls): da = 2 behaves as 1 above the lowest level
Lbl(da, key, isnode, kidlabel) ==
  LET d == IF isnode /\ da = 2 THEN 1 ELSE da IN
  IF d = 1 THEN <<key>> \o kidlabel ELSE IF d = 3 THEN kidlabel ELSE <<key>>

\* the code's fold over the envelopes es[j] of the children taken in order ks (strict comparison: the first one attaining a value
\* keeps it); nd[j] = whether the j-th child is itself a node
FoldSeq(ks, nd, es, da) ==
  LET RECURSIVE F(_, _)
      F(j, acc) == IF j > Len(ks) THEN acc ELSE
        LET e == es[j]  lmax == Lbl(da, ks[j], nd[j], e.maxcase)  lmin == Lbl(da, ks[j], nd[j], e.mincase) IN
        F(j + 1, IF j = 1 THEN [mx |-> e.mx, mn |-> e.mn, mxid |-> e.mxid, mnid |-> e.mnid, maxcase |-> lmax, mincase |-> lmin]
                 ELSE [mx |-> IF e.mx > acc.mx THEN e.mx ELSE acc.mx, mxid |-> IF e.mx > acc.mx THEN e.mxid ELSE acc.mxid,
                       maxcase |-> IF e.mx > acc.mx THEN lmax ELSE acc.maxcase,
                       mn |-> IF e.mn < acc.mn THEN e.mn ELSE acc.mn, mnid |-> IF e.mn < acc.mn THEN e.mnid ELSE acc.mnid,
                       mincase |-> IF e.mn < acc.mn THEN lmin ELSE acc.mincase])
  IN F(1, <<>>)

\* envelope of a subtree, computed from scratch (used by the laws)
RECURSIVE Env(_, _)
Env(n, da) == IF n.kind = "leaf" THEN LeafEnv(n)
              ELSE FoldSeq(n.keys, [j \in 1..Len(n.kids) |-> n.kids[j].kind = "node"], [j \in 1..Len(n.kids) |-> Env(n.kids[j], da)], da)

\* the 'extreme' entry of a node from the envelopes of its children: the envelope, the children it was formed over (.cases) and
\* their own maxima / minima (.mx, .mn columns)
ExOf(ord, nd, es, da) ==
  LET e == FoldSeq(ord, nd, es, da) IN
  [has |-> TRUE, da |-> da, cases |-> ord, mx |-> e.mx, mn |-> e.mn, mxid |-> e.mxid, mnid |-> e.mnid,
   maxcase |-> e.maxcase, mincase |-> e.mincase,
   mxs |-> [j \in 1..Len(ord) |-> es[j].mx], mns |-> [j \in 1..Len(ord) |-> es[j].mn]]
MkEx(keys, kids, ord, da) ==
  LET Pos(k) == CHOOSE i \in 1..Len(keys) : keys[i] = k IN
  ExOf(ord, [j \in 1..Len(ord) |-> kids[Pos(ord[j])].kind = "node"], [j \in 1..Len(ord) |-> Env(kids[Pos(ord[j])], da)], da)

\* form_extreme as the code does it: bottom-up, a node's children are enveloped first and THEIR 'extreme' entries are what the node reads
EnvOfEx(x) == [mx |-> x.mx, mn |-> x.mn, mxid |-> x.mxid, mnid |-> x.mnid, maxcase |-> x.maxcase, mincase |-> x.mincase]
RECURSIVE Reform(_, _, _)
Reform(n, da, ord) ==
  IF n.kind = "leaf" THEN n ELSE
  LET kids2 == [i \in 1..Len(n.kids) |-> Reform(n.kids[i], da, <<>>)]           \* case_order is used at the top level only
      o == IF ord = <<>> THEN n.keys ELSE ord
      Pos(k) == CHOOSE i \in 1..Len(n.keys) : n.keys[i] = k
      kenv(j) == LET kd == kids2[Pos(o[j])] IN IF kd.kind = "leaf" THEN LeafEnv(kd) ELSE EnvOfEx(kd.ex)
  IN [n EXCEPT !.kids = kids2,
               !.ex = ExOf(o, [j \in 1..Len(o) |-> kids2[Pos(o[j])].kind = "node"], [j \in 1..Len(o) |-> kenv(j)], da)]
RECURSIVE Clear(_)
Clear(n) == IF n.kind = "leaf" THEN n ELSE [n EXCEPT !.kids = [i \in 1..Len(n.kids) |-> Clear(n.kids[i])], !.ex = NoEx]

\* tree plumbing
RECURSIVE At(_, _)
At(n, p) == IF p = <<>> THEN n ELSE At(n.kids[Head(p)], Tail(p))
RECURSIVE Put(_, _, _)
Put(n, p, new) == IF p = <<>> THEN new ELSE [n EXCEPT !.kids[Head(p)] = Put(n.kids[Head(p)], Tail(p), new)]
RECURSIVE PathsOf(_)
PathsOf(n) == IF n.kind = "leaf" THEN {<<>>}
              ELSE {<<>>} \cup UNION {{<<i>> \o q : q \in PathsOf(n.kids[i])} : i \in 1..Len(n.kids)}
RemoveAt(s, i) == [j \in 1..(Len(s) - 1) |-> IF j < i THEN s[j] ELSE s[j + 1]]
RECURSIVE BaseIds(_)
BaseIds(n) == IF n.kind = "leaf" THEN {n.ids[i] : i \in 1..Len(n.ids)} ELSE UNION {BaseIds(n.kids[i]) : i \in 1..Len(n.kids)}
RECURSIVE Depth(_)
Depth(n) == IF n.kind = "leaf" THEN 0 ELSE 1 + (LET ds == {Depth(n.kids[i]) : i \in 1..Len(n.kids)} IN CHOOSE d \in ds : \A e \in ds : e <= d)

\* split + merge of a base results object: one single-case leaf per load case, keyed by the case name
SplitOf(l) == Node([i \in 1..Len(l.ids) |-> CaseName(l.ids[i])], [i \in 1..Len(l.ids) |-> Leaf(<<l.ids[i]>>)])

---------------------------------------------------------------------------
DataCode(d) == d[1][1] + 2 * d[1][2] + 3 * d[2][1] + 5 * d[2][2] + 7 * d[3][1] + 11 * d[3][2] + 13 * d[4][1] + 17 * d[4][2]
Init == /\ shape \in ShapeSet
        /\ data \in [1..4 -> Vals]
        /\ DataCode(data) % DataMod = 0
        /\ (NCases(shape) = 3 => data[4] = data[3])          \* unused case: one representative
        /\ tree = Shape(shape) /\ hist = <<>> /\ trail = <<>>

Step(op, t) == /\ tree' = t /\ UNCHANGED <<shape, data>>
               /\ IF Track THEN hist' = Append(hist, op) /\ trail' = Append(trail, t) ELSE UNCHANGED <<hist, trail>>

Orders(n) == {<<>>} \cup {[i \in 1..Len(n.keys) |-> n.keys[Len(n.keys) + 1 - i]]} \cup (IF Len(n.keys) >= 2 THEN {<<n.keys[2]>>} ELSE {})
Form(da, ord) == Track /\ Len(hist) < MaxOps /\ Step(<<"form", da, ord>>, Reform(tree, da, ord))
DeleteExt == Track /\ Len(hist) < MaxOps /\ Step(<<"delete">>, Clear(tree))
SplitMerge(p) == /\ Len(hist) < MaxOps /\ p # <<>> /\ Len(p) <= 2 /\ At(tree, p).kind = "leaf"
                 /\ Step(<<"splitmerge", p>>, Put(tree, p, SplitOf(At(tree, p))))
Drop(p, i) == /\ Len(hist) < MaxOps /\ At(tree, p).kind = "node" /\ Len(At(tree, p).keys) >= 2 /\ i \in 1..Len(At(tree, p).keys)
              /\ LET n == At(tree, p) IN Step(<<"drop", p, i>>, Put(tree, p, [n EXCEPT !.keys = RemoveAt(n.keys, i), !.kids = RemoveAt(n.kids, i)]))
Next == \/ \E da \in 0..3, ord \in Orders(tree) : Form(da, ord)
        \/ DeleteExt
        \/ \E p \in PathsOf(tree) : (SplitMerge(p) \/ \E i \in 1..3 : Drop(p, i))
Spec == Init /\ [][Next]_vars

---------------------------------------------------------------------------
\* what TLC checks on every reachable tree
Max(S) == CHOOSE x \in S : \A y \in S : y <= x
Min(S) == CHOOSE x \in S : \A y \in S : x <= y
RECURSIVE Order(_)
\* base cases below a node in traversal order
Order(n) == IF n.kind = "leaf" THEN n.ids
            ELSE LET RECURSIVE C(_) C(i) == IF i > Len(n.kids) THEN <<>> ELSE Order(n.kids[i]) \o C(i + 1) IN C(1)
FirstWith(seq, P(_)) == seq[CHOOSE i \in 1..Len(seq) : P(seq[i]) /\ \A j \in 1..(i - 1) : ~P(seq[j])]
RECURSIVE Subtrees(_)
Subtrees(n) == IF n.kind = "leaf" THEN {n} ELSE {n} \cup UNION {Subtrees(n.kids[i]) : i \in 1..Len(n.kids)}

\* fold = declarative envelope: greatest / least value over the base cases below, attained by the FIRST such case in traversal order
EnvIsEnvelope == \A n \in Subtrees(tree) : \A da \in 0..3 :
   LET e == Env(n, da)  ids == BaseIds(n)  sq == Order(n)
       hi == Max({data[i][1] : i \in ids})  lo == Min({data[i][2] : i \in ids}) IN
   /\ e.mx = hi /\ e.mn = lo
   /\ e.mxid = FirstWith(sq, LAMBDA i : data[i][1] = hi) /\ e.mnid = FirstWith(sq, LAMBDA i : data[i][2] = lo)
\* values (not labels) do not depend on the order of the children
Reverse(s) == [i \in 1..Len(s) |-> s[Len(s) + 1 - i]]
OrderIndependent == \A n \in Subtrees(tree) : n.kind = "node" =>
   LET r == [n EXCEPT !.keys = Reverse(n.keys), !.kids = Reverse(n.kids)] IN Env(r, 2).mx = Env(n, 2).mx /\ Env(r, 2).mn = Env(n, 2).mn
\* label law per mode: 0 -> the child's key; 3 -> the base case's name; 1 -> the whole path down to the base case;
\* 2 -> the path without the base case's name
RECURSIVE PathTo(_, _)
PathTo(n, id) == IF n.kind = "leaf" THEN <<CaseName(id)>>
                 ELSE LET i == CHOOSE i \in 1..Len(n.kids) : id \in BaseIds(n.kids[i]) IN <<n.keys[i]>> \o PathTo(n.kids[i], id)
LabelLaw == \A n \in Subtrees(tree) : n.kind = "node" =>
   /\ Env(n, 0).maxcase = <<PathTo(n, Env(n, 0).mxid)[1]>>
   /\ Env(n, 3).maxcase = <<CaseName(Env(n, 3).mxid)>> /\ Env(n, 3).mincase = <<CaseName(Env(n, 3).mnid)>>
   /\ Env(n, 1).maxcase = PathTo(n, Env(n, 1).mxid) /\ Env(n, 1).mincase = PathTo(n, Env(n, 1).mnid)
   /\ Env(n, 2).maxcase = SubSeq(PathTo(n, Env(n, 2).mxid), 1, Len(PathTo(n, Env(n, 2).mxid)) - 1)
\* form_extreme is idempotent, delete_extreme undoes it, and forming always starts from a clean slate
FormLaws == \A da \in 0..3 :
   /\ Reform(tree, da, <<>>).ex = MkEx(tree.keys, tree.kids, tree.keys, da)          \* bottom-up through the children's entries = from scratch
   /\ Reform(Reform(tree, da, <<>>), da, <<>>) = Reform(tree, da, <<>>)
   /\ Clear(Reform(tree, da, <<>>)) = Clear(tree)
   /\ Reform(Clear(tree), da, <<>>) = Reform(tree, da, <<>>)
\* merge(split(R)) envelopes (default mode) to R's own table: values, attaining cases, labels, and one column per case
SplitLaw == \A n \in Subtrees(tree) : n.kind = "leaf" =>
   LET e == LeafEnv(n)  x == MkEx(SplitOf(n).keys, SplitOf(n).kids, SplitOf(n).keys, 2) IN
   /\ x.mx = e.mx /\ x.mn = e.mn /\ x.mxid = e.mxid /\ x.mnid = e.mnid /\ x.maxcase = e.maxcase /\ x.mincase = e.mincase
   /\ x.mxs = [i \in 1..Len(n.ids) |-> data[n.ids[i]][1]] /\ x.mns = [i \in 1..Len(n.ids) |-> data[n.ids[i]][2]]
\* an action never touches the base data, and only Form / DeleteExt change 'extreme' entries of surviving nodes
Bounded == Depth(tree) <= 3 /\ BaseIds(tree) \subseteq 1..4 /\ BaseIds(tree) # {}

\* machine-side invariant (cheap): right after form_extreme every entry is fresh - re-forming changes nothing
LastIsForm == hist # <<>> /\ hist[Len(hist)][1] = "form"
FreshAfterForm == LastIsForm => Reform(tree, hist[Len(hist)][2], hist[Len(hist)][3]) = tree
RECURSIVE NoEntries(_)
NoEntries(n) == n.kind = "leaf" \/ (~n.ex.has /\ \A i \in 1..Len(n.kids) : NoEntries(n.kids[i]))
CleanAfterDelete == (hist # <<>> /\ hist[Len(hist)][1] = "delete") => NoEntries(tree)

\* every state is exported with its history; the tree after each action of a history is the export of that prefix
ExportHist == Export => PrintT(<<"TREE", shape, data, hist, tree>>)
=============================================================================
