CONSTANTS
  MaxModes = 2
  Export = TRUE
INIT Init
NEXT Next
INVARIANT ClassesNonTrivial
INVARIANT PartitionTotal
INVARIANT ExportProblem
INVARIANT ExportTerms
