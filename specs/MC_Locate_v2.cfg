CONSTANTS
  MaxLen = 1
  MaxVal = 1
  Export = TRUE
  TableVariant = 2
INIT Init
NEXT Next
INVARIANT Laws
INVARIANT ExportOK
INVARIANT ExportTable
