"""C11, OUTPUT2 part (filled in later in this round)."""


def run_op2(run):
    return
