CONSTANTS
  NR = 3
  NC = 2
  NV = 2
  WPV = 2
  CPLX = 2
  Ascii = TRUE
  PerLine = 3
  RowOffset = 0
  WriterOnly = FALSE
  Export = TRUE
INIT Init
NEXT Next
INVARIANT DecodeIsIdentity
INVARIANT LayoutRecognised
INVARIANT SkipExact
INVARIANT FieldRanges
INVARIANT ExportOK
