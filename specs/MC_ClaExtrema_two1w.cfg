CONSTANTS
  NC = 4
  NR = 1
  Form = "two"
  Alpha = "two1w"
  XLess = {}
  Export = TRUE
SPECIFICATION Spec
INVARIANT TypeOK
INVARIANT TrueExtTwo
INVARIANT TrueExtOne
INVARIANT LabelsAttain
INVARIANT PerCase
INVARIANT ExportOK
