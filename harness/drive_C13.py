"""C13: bulk-data writers and their readers are mutual inverses.

specs/BulkLists.tla enumerates id lists by run structure (singletons / THRU-compressible runs on every line position),
table lengths, and DMIG matrices (forms 1/2/6/9 over value ids) with the entry set the card must carry; TLC checks
Expand(ThruItems(ids)) = ids and Rebuild(Entries(M)) = M and exports every case.  Each case is written by the real writer
(wtspoints, wtcsuper, wtextrn, wtset, wtseset-style THRU writers, wttabled1, wtgrids, wtcoordcards, wtdmig, uset2bulk) and
read by the matching reader; the written text is also tokenised field-wise (8/16-column cells, no pyYeti code) and its
content compared with the spec (ids covered exactly once, THRU items = runs of the spec, DMIG entry coordinates)."""
import io
import json
import random

from . import tlc
from .runner import main, Run


def cells(line, width=8):
    line = line.rstrip("\n")
    return [line[i:i + width] for i in range(0, len(line), width)]


def text_ids_small(text, name):
    """neutral parse of small-field cards with optional THRU: returns the id sequence the cards denote"""
    out = []
    for ln in text.splitlines():
        if not ln.strip() or ln.startswith("$"):
            continue
        c = [x.strip() for x in cells(ln[:72])]
        body = c[1:] if (c[0].upper().startswith(name) or c[0] in ("", "+")) else None
        if body is None:
            raise ValueError("unexpected line %r" % ln)
        i = 0
        while i < len(body):
            if body[i] == "":
                i += 1
                continue
            if i + 2 < len(body) and body[i + 1].upper() == "THRU":
                out.extend(range(int(body[i]), int(body[i + 2]) + 1))
                i += 3
            else:
                out.append(int(body[i]))
                i += 1
    return out


def lists_part(run, bulk, np):
    cfg = "MC_BulkLists_lists.cfg" if run.tier == "quick" else "MC_BulkLists_lists_t.cfg"
    res = tlc.run("BulkLists", cfg, timeout=1200, heap="6g")
    if res.violation:
        run.add_tlc(cfg, res)
        run.violation("TLC: %s on the BulkLists model" % res.violation, {"tlc": res.error_text()}, {"where": "model"})
        return
    run.add_tlc(cfg, res, "all gap patterns of id lists up to MaxN x 3 start values; ListLaws")
    rnd = random.Random(run.seed)
    for ci, (ids, runs, l4, l2) in enumerate(res.tagged("IDS")):
        ids = list(ids)
        n = len(ids)
        nontriv = len(runs) > 1 and any(r[0] != r[1] for r in runs)
        case = {"ids": ids}
        run.case(("ids", tuple(ids)), nontrivial=nontriv, part="id lists")

        def fail(what, **kw):
            run.violation(what, dict(case, **kw), {"fn": what.split(":")[0]})

        # SPOINT (THRU compression)
        try:
            f = io.StringIO()
            bulk.wtspoints(f, ids)
            txt = f.getvalue()
            if any(len(l) > 80 for l in txt.splitlines()):
                run.deviation("BulkLists (layout)", "wtspoints: line longer than 80 characters", dict(case, text=txt))
            if text_ids_small(txt, "SPOINT") != ids:
                fail("wtspoints: the cards do not denote exactly the given ids (neutral field parse)", text=txt)
            back = bulk.rdspoints(io.StringIO(txt))
            if [int(x) for x in back] != ids:
                fail("wtspoints/rdspoints: ids read back %r" % ([int(x) for x in back],), text=txt)
        except Exception as ex:
            fail("wtspoints: raised %r" % ex)
        # CSUPER (plain id list with continuation)
        try:
            f = io.StringIO()
            bulk.wtcsuper(f, 100 + n, ids)
            txt = f.getvalue()
            back = bulk.rdcsupers(io.StringIO(txt))
            got = [int(x) for x in back[100 + n]]
            if got[:2] != [100 + n, 0] or got[2:] != ids or set(back) != {100 + n}:
                fail("wtcsuper/rdcsupers: read back %r" % (got,), text=txt)
            flat = [int(c) for ln in txt.splitlines() for c in [x.strip() for x in cells(ln[8:72])] if c]
            if flat != [100 + n, 0] + ids:
                fail("wtcsuper: card fields (neutral parse) are not superid, 0, ids", text=txt)
        except Exception as ex:
            fail("wtcsuper: raised %r" % ex)
        # EXTRN (id, dof pairs)
        try:
            dofs = [rnd.choice([123456, 123, 0, 246, 1]) for _ in ids]
            f = io.StringIO()
            bulk.wtextrn(f, ids, dofs)
            txt = f.getvalue()
            back = bulk.rdextrn(io.StringIO(txt), expand=False)
            if [[int(a), int(b)] for a, b in back] != [[i, d] for i, d in zip(ids, dofs)]:
                fail("wtextrn/rdextrn(expand=False): read back %r" % (back.tolist(),), text=txt, dofs=dofs)
            back = bulk.rdextrn(io.StringIO(txt), expand=True)
            exp = [[i, int(ch)] for i, d in zip(ids, dofs) for ch in str(d)]
            if [[int(a), int(b)] for a, b in back] != exp:
                fail("wtextrn/rdextrn(expand=True): DOF labels read back differ", text=txt, dofs=dofs)
        except Exception as ex:
            fail("wtextrn: raised %r" % ex)
        # case-control SET with wrapping
        for ml in (72, 50, 36):   # every max_length can hold the longest single item ("SET n = a THRU b")
            try:
                f = io.StringIO()
                bulk.wtset(f, 7, ids, max_length=ml)
                txt = f.getvalue()
                back = bulk.rdsets(io.StringIO(txt))
                if list(back.keys()) != [7] or [int(x) for x in back[7]] != ids:
                    fail("wtset/rdsets(max_length=%d): read back %r" % (ml, back), text=txt)
                lines = txt.splitlines()
                if ml == 72 and any(len(l.rstrip()) > 72 for l in lines):
                    run.deviation("BulkLists (layout)", "wtset: line longer than 72 characters", dict(case, text=txt))
            except Exception as ex:
                fail("wtset: raised %r" % ex)
        # TABLED1-style table of n points, both field widths
        for form, perline, nl in (("{:8.2f}{:8.5f}", 4, l4), ("{:16.9E}{:16.9E}", 2, l2)):
            try:
                t = np.arange(n) * 0.25
                d = np.array([((7 * i) % 11) / 8.0 - 0.5 for i in range(n)])
                f = io.StringIO()
                bulk.wttabled1(f, 40 + n, t, d, form=form)
                txt = f.getvalue()
                back = bulk.rdtabled1(io.StringIO(txt))
                tab = back[40 + n]
                if tab.shape != (n, 2) or not np.allclose(tab[:, 0], t, atol=5e-3, rtol=0) or not np.allclose(tab[:, 1], d, atol=5e-6, rtol=0):
                    fail("wttabled1/rdtabled1 (%d points, %d pairs per line): table read back differs" % (n, perline), text=txt, got=tab.tolist())
                body_lines = [l for l in txt.splitlines()[1:] if l.strip() not in ("*", "")]
                if "ENDT" not in txt or (len([l for l in body_lines if l[8:].strip() not in ("", "ENDT")]) != nl):
                    run.deviation("BulkLists.TableLines", "wttabled1: %d points are not laid out on %d data lines" % (n, nl), dict(case, text=txt))
            except Exception as ex:
                fail("wttabled1 (%d points): raised %r" % (n, ex))
        run.trace_validated()
        if ci < 2:
            run.sample({"ids": ids, "runs": runs})


def dmig_part(run, bulk, np, pd):
    cfg = "MC_BulkLists_dmig.cfg" if run.tier == "quick" else "MC_BulkLists_dmig_t.cfg"
    res = tlc.run("BulkLists", cfg, timeout=1500, heap="6g")
    if res.violation:
        run.add_tlc(cfg, res)
        run.violation("TLC: %s on the BulkLists model (dmig)" % res.violation, {"tlc": res.error_text()}, {"where": "model"})
        return
    run.add_tlc(cfg, res, "DMIG matrices <= 3x3 over value ids x column index kind; DmigLaws")
    vals_r = {1: 1.5, 2: -2.25e-7}
    vals_c = {1: 1.5 - 0.5j, 2: 3.0e5j}
    rows_idx = [(100, 1), (100, 3), (200, 0)]
    cols_idx = [(100, 1), (100, 3), (200, 0)]
    cols_idx2 = [(100, 3), (200, 0), (300, 2)]          # kind "dof2": columns on other DOF than the rows
    dtypes = [np.float32, np.float64, np.complex64, np.complex128]
    pick = random.Random(run.seed + 13)        # not an index stride: the export order cycles through the column kinds
    for ci, (r, c, kind, form, M, entries) in enumerate(res.tagged("DMIG")):
        if run.tier == "quick" and pick.random() > 0.4:
            continue
        for ti, dt in enumerate(dtypes):
            if pick.random() > (0.5 if run.tier == "quick" else 0.6):
                continue
            cplx = ti >= 2
            vm = vals_c if cplx else vals_r
            A = np.zeros((r, c), dt)
            for i in range(r):
                for j in range(c):
                    if M[i][j]:
                        A[i, j] = vm[M[i][j]]
            ri = pd.MultiIndex.from_tuples(rows_idx[:r], names=["id", "dof"])
            cols_here = cols_idx if kind == "dof" else cols_idx2
            if kind in ("dof", "dof2"):
                cidx = pd.MultiIndex.from_tuples(cols_here[:c], names=["id", "dof"])
            else:
                # form 9 column numbers need not be 1..n (a matrix read without its null columns, a partition of a larger one)
                clabels = list(range(1, c + 1)) if (ci + ti) % 2 == 0 else [2, 5, 9][:c]
                cidx = pd.Index(clabels)
            df = pd.DataFrame(A, index=ri, columns=cidx)
            case = {"M": M, "form": form, "kind": kind, "dtype": str(np.dtype(dt))}
            run.case(("dmig", json.dumps(M), kind, ti), nontrivial=bool(entries), part="dmig form %d" % form)
            if not entries:
                continue
            try:
                f = io.StringIO()
                bulk.wtdmig(f, {"kmat": df})
                txt = f.getvalue()
            except Exception as ex:
                run.violation("wtdmig: raised %r" % ex, case, {"fn": "wtdmig"})
                continue
            # neutral tokenise: header + column cards + entries
            lines = txt.splitlines()
            hdr = cells(lines[0])
            got_entries = set()
            colnow = None
            ok = hdr[0].strip() == "DMIG" and int(hdr[4]) == ti + 1
            form_file = int(hdr[3])
            if form_file != form:
                # which form the writer picks is its own choice as long as the matrix is read back (below): entries are then judged
                # by the rule of the form that IS on the card
                run.deviation("BulkLists.Form", "wtdmig chose form %d, the spec's rule (plain columns 9, different DOF or not square 2, symmetric 6, else 1) says %d" % (form_file, form), case)
                nz = {(i + 1, j + 1) for i in range(r) for j in range(c) if M[i][j]}
                entries = [e for e in nz if form_file != 6 or e[0] >= e[1]]
            for ln in lines[1:]:
                if ln.startswith("DMIG*"):
                    cc = cells(ln[8:], 16)
                    g, cdof = int(cc[1]), int(cc[2])
                    colnow = (cols_here.index((g, cdof)) + 1) if kind in ("dof", "dof2") else (clabels.index(g) + 1 if g in clabels else -g)
                elif ln.startswith("*"):
                    cc = cells(ln[8:], 16)
                    g, d = int(cc[0]), int(cc[1])
                    got_entries.add((rows_idx.index((g, d)) + 1, colnow))
                    if len(ln) > 8 + 16 * (4 if cplx else 3):
                        ok = False
            if not ok or got_entries != set(tuple(e) for e in entries):
                run.violation("wtdmig: header type or entry positions on the cards differ from the spec (form %d: %s)"
                              % (form_file, "lower triangle only" if form_file == 6 else "all non-zeros"), dict(case, text=txt), {"fn": "wtdmig"})
                continue
            try:
                back = bulk.rddmig(io.StringIO(txt))["kmat"]
            except Exception as ex:
                run.violation("rddmig: raised %r on wtdmig output" % ex, dict(case, text=txt), {"fn": "rddmig"})
                continue
            # compare on the DOF actually referenced (rows/cols that are entirely zero are not on the cards)
            keep_r = [i for i in range(r) if A[i].any() or (form_file == 6 and A[:, i].any())]
            keep_c = [j for j in range(c) if A[:, j].any() or (form_file == 6 and A[j].any())]
            exp = A[np.ix_(keep_r, keep_c)]
            try:
                bv = back.values
                good = bv.shape == exp.shape and np.allclose(bv, exp, rtol=2e-9 if ti % 2 else 2e-7, atol=0)
                good = good and [tuple(int(v) for v in x) for x in back.index] == [rows_idx[i] for i in keep_r]
                if kind in ("dof", "dof2"):
                    good = good and [tuple(int(v) for v in x) for x in back.columns] == [cols_here[j] for j in keep_c]
                else:
                    good = good and [int(x) for x in back.columns] == [clabels[j] for j in keep_c]
                if good:
                    # writing what was read and reading it again changes nothing (labels, order, values)
                    f2 = io.StringIO()
                    bulk.wtdmig(f2, {"kmat": back})
                    again = bulk.rddmig(io.StringIO(f2.getvalue()))["kmat"]
                    if list(again.index) != list(back.index) or list(again.columns) != list(back.columns) or not np.array_equal(again.values, back.values):
                        good = False
            except Exception as ex:
                good = False
            if not good:
                run.violation("wtdmig/rddmig: matrix read back differs from the one written (labels or values)", dict(case, text=txt, got=str(back)),
                              {"fn": "rddmig"})
            run.trace_validated()
        if ci < 3:
            run.sample({"dmig M": M, "form": form, "entries": entries})


def card_ids(text, name, lead):
    """neutral parse of small-field cards `name, <lead leading fields>, ids with optional THRU ...` (continuation lines have a blank or '+'
    first cell): the id sequence of all cards in the text and the list of leading-field tuples"""
    out, leads, toks = [], [], None

    def flush():
        if toks is None:
            return
        leads.append(tuple(toks[:lead]))
        body = toks[lead:]
        i = 0
        while i < len(body):
            if i + 2 < len(body) and body[i + 1].upper() == "THRU":
                out.extend(range(int(body[i]), int(body[i + 2]) + 1))
                i += 3
            else:
                out.append(int(body[i]))
                i += 1
    for ln in text.splitlines():
        if not ln.strip() or ln.startswith("$"):
            continue
        c = [x.strip() for x in cells(ln[:72])]
        if c[0].upper() == name:
            flush()
            toks = [x for x in c[1:] if x]
        elif c[0] in ("", "+") and toks is not None:
            toks.extend(x for x in c[1:] if x)
        else:
            raise ValueError("unexpected line %r" % ln)
    flush()
    return out, leads


def other_thru_writers(run, bulk, ids, case):
    """growth (cards the property does not name): SESET, BSET1-style and SPC1-style writers share the run detector of SPOINT / SET; their
    cards must denote the ids given, in order, under the leading fields given - by the neutral parse and through the generic card reader"""
    for fn, args, name, lead, want_lead in (("wtseset", (5, ids), "SESET", 1, ("5",)),
                                            ("wtxset1", (1246, ids, "BSET1"), "BSET1", 1, ("1246",)),
                                            ("wtspc1", (3, 123, ids), "SPC1", 2, ("3", "123"))):
        try:
            f = io.StringIO()
            getattr(bulk, fn)(f, *args)
            txt = f.getvalue()
            got, leads = card_ids(txt, name, lead)
            if got != ids or any(l != want_lead for l in leads) or not leads:
                run.deviation("BulkLists (other THRU writers)", "%s: the cards do not denote the given ids in the given order under the given leading fields" % fn,
                              dict(case, text=txt, parsed=got))
                continue
            rows = bulk.rdcards(io.StringIO(txt), name.lower(), return_var="list")
            flat = []
            for row in (rows or []):
                body = [x for x in list(row)[lead:] if x != ""]
                i = 0
                while i < len(body):
                    if i + 2 < len(body) and str(body[i + 1]).strip().upper() == "THRU":
                        flat.extend(range(int(body[i]), int(body[i + 2]) + 1))
                        i += 3
                    else:
                        flat.append(int(body[i]))
                        i += 1
            if flat != ids:
                run.deviation("BulkLists (other THRU writers)", "%s + rdcards: fields read back denote %r" % (fn, flat), dict(case, text=txt))
        except Exception as ex:
            run.deviation("BulkLists (other THRU writers)", "%s: raised %r" % (fn, ex), case)


def perms_part(run, bulk, np):
    """id lists in any order (BulkLists Mode "perms"): every arrangement of up to MaxN distinct ids from a pool of MaxN+1, two offsets"""
    cfg = "MC_BulkLists_perms.cfg" if run.tier == "quick" else "MC_BulkLists_perms_t.cfg"
    res = tlc.run("BulkLists", cfg, timeout=1200, heap="6g")
    if res.violation:
        run.add_tlc(cfg, res)
        run.violation("TLC: %s on the BulkLists model" % res.violation, {"tlc": res.error_text()}, {"where": "model"})
        return
    run.add_tlc(cfg, res, "every arrangement of up to MaxN distinct ids out of MaxN+1 x 2 offsets; PermLaws")
    for ids, runs in res.tagged("PERM"):
        ids = list(ids)
        case = {"ids": ids}
        run.case(("perm", tuple(ids)), nontrivial=ids != sorted(ids) and any(r[0] != r[1] for r in runs), part="id lists in any order")

        def fail(what, **kw):
            run.violation(what, dict(case, **kw), {"fn": what.split(":")[0]})
        for arr in (ids, np.array(ids)):
            try:
                f = io.StringIO()
                bulk.wtspoints(f, arr)
                txt = f.getvalue()
                if text_ids_small(txt, "SPOINT") != ids:
                    fail("wtspoints: the cards do not denote exactly the given ids in the given order (neutral field parse)", text=txt)
                back = bulk.rdspoints(io.StringIO(txt))
                if [int(x) for x in back] != ids:
                    fail("wtspoints/rdspoints: ids read back %r" % ([int(x) for x in back],), text=txt)
            except Exception as ex:
                fail("wtspoints: raised %r" % ex)
        for ml in (72, 36):
            try:
                f = io.StringIO()
                bulk.wtset(f, 7, ids, max_length=ml)
                txt = f.getvalue()
                back = bulk.rdsets(io.StringIO(txt))
                if list(back.keys()) != [7] or [int(x) for x in back[7]] != ids:
                    fail("wtset/rdsets(max_length=%d): read back %r" % (ml, back), text=txt)
            except Exception as ex:
                fail("wtset: raised %r" % ex)
        other_thru_writers(run, bulk, ids, case)
        try:
            f = io.StringIO()
            bulk.wtcsuper(f, 55, ids)
            back = bulk.rdcsupers(io.StringIO(f.getvalue()))
            if [int(x) for x in back[55]][2:] != ids:
                fail("wtcsuper/rdcsupers: read back %r" % (back[55],), text=f.getvalue())
        except Exception as ex:
            fail("wtcsuper: raised %r" % ex)
        run.trace_validated()


def ints_part(run, bulk, np):
    """integer lists wrapped over continuation lines (BulkLists Mode "ints"): wtnasints for every start field 2..9 x 0..MaxN integers"""
    res = tlc.run("BulkLists", "MC_BulkLists_ints.cfg", timeout=600)
    if res.violation:
        run.add_tlc("MC_BulkLists_ints.cfg", res)
        run.violation("TLC: %s on the BulkLists model" % res.violation, {"tlc": res.error_text()}, {"where": "model"})
        return
    run.add_tlc("MC_BulkLists_ints.cfg", res, "start field 2..9 x 0..27 integers; IntLaws (no cell skipped or used twice, fields 2..9, line count)")
    for start, n, pos, nlines in res.tagged("INTS"):
        for base, step in ((1, 1), (99999900 - 37 * n, 37), (-9999999, 3)):
            ints = [base + step * i for i in range(n)]
            case = {"start": start, "ints": ints}
            run.case(("ints", start, n, base), nontrivial=n > 10 - start, part="wrapped integer lists")
            try:
                for arr in (ints, np.array(ints, dtype=np.int64)):
                    f = io.StringIO()
                    f.write("NAME    " + "".join("%8d" % (900 + k) for k in range(start - 2)))
                    bulk.wtnasints(f, start, arr)
                    txt = f.getvalue()
                    lines = txt.split("\n")
                    if lines[-1] != "":
                        run.violation("wtnasints: the card does not end with a newline", dict(case, text=txt), {"fn": "wtnasints"})
                        break
                    lines = lines[:-1]
                    got, where = [], []
                    for li, ln in enumerate(lines):
                        c = cells(ln)
                        for fi, cell in enumerate(c[1:], start=2):
                            if cell.strip() and not (li == 0 and fi < start):
                                got.append(int(cell))
                                where.append((li + 1, fi))
                    if got != ints or any(c.strip() and not c.startswith("+") for ln in lines[1:] for c in cells(ln)[:1]) or any(len(ln) > 72 for ln in lines):
                        run.violation("wtnasints: the fields of the card (neutral parse) are not the given integers in the given order",
                                      dict(case, text=txt, parsed=got), {"fn": "wtnasints"})
                        break
                    if where != [tuple(p_) for p_ in pos] or len(lines) != nlines:
                        run.deviation("BulkLists.IntPos", "wtnasints: integers are not in the cells the layout model gives (start %d, %d integers)" % (start, n),
                                      dict(case, text=txt))
                        break
            except Exception as ex:
                run.violation("wtnasints: raised %r" % ex, case, {"fn": "wtnasints"})
            run.trace_validated()


def layouts_part(run, bulk, np):
    """growth: element / load cards written by their dedicated writers and read by the generic card reader, against the field layouts of the
    spec (BulkLists Mode "layouts")"""
    res = tlc.run("BulkLists", "MC_BulkLists_layouts.cfg", timeout=600)
    if res.violation:
        run.add_tlc("MC_BulkLists_layouts.cfg", res)
        run.violation("TLC: %s on the BulkLists model" % res.violation, {"tlc": res.error_text()}, {"where": "model"})
        return
    run.add_tlc("MC_BulkLists_layouts.cfg", res, "field layouts of RBE2 / MPC / TABDMP1 for 1..12 entries, CONM2, TLOAD1, TLOAD2; LayoutLaws")
    spec = "BulkLists.Layouts"
    rng = np.random.default_rng(run.seed + 5)

    def trim(l):
        l = list(l)
        while l and l[-1] == "":
            l.pop()
        return l

    def same(got, exp):
        got, exp = trim(got), trim(exp)
        return len(got) == len(exp) and all((g == e) if isinstance(e, (str, int)) else (isinstance(g, float) and abs(g - e) <= 1e-6 * abs(e)) for g, e in zip(got, exp))

    def judge(what, card, txt, exp, case):
        try:
            got = bulk.rdcards(io.StringIO(txt), card, return_var="list")
        except Exception as ex:
            return run.deviation(spec, "%s: rdcards raised %r" % (what, ex), dict(case, text=txt))
        if got is None or len(got) != 1 or not same(got[0], exp):
            run.deviation(spec, "%s: the generic reader returns %r, the layout says %r" % (what, got, exp), dict(case, text=txt))

    for n, lay in res.tagged("LAYOUT"):
        n = int(n)
        ids = [int(x) for x in rng.choice(np.arange(1, 99999), n + 3, replace=False)]
        vals = {"eid": ids[0], "indep": ids[1], "dof": int(rng.choice([123456, 123, 13, 2])), "": ""}
        vals.update({"dep%d" % (i + 1): ids[3 + i] for i in range(n)})
        case = {"entries": n}
        run.case(("layout", n), nontrivial=n > 5, part="card layouts (growth)")
        try:
            f = io.StringIO()
            bulk.wtrbe2(f, vals["eid"], vals["indep"], vals["dof"], [vals["dep%d" % (i + 1)] for i in range(n)])
            judge("wtrbe2", "rbe2", f.getvalue(), [vals[x] for x in lay["rbe2"]], case)
            # MPC: term 1 is the dependent DOF
            g = [int(x) for x in rng.choice(np.arange(1, 9999), n, replace=False)]
            c = [int(x) for x in rng.integers(1, 7, n)]
            a = [float(x) for x in rng.choice([-2.0, -0.5, 0.25, 1.0, 1.5, 3.0], n)]
            mv = {"sid": 7, "": ""}
            for k in range(n):
                mv.update({"g%d" % (k + 1): g[k], "c%d" % (k + 1): c[k], "a%d" % (k + 1): a[k]})
            if n >= 2:
                f = io.StringIO()
                bulk.wtmpc(f, 7, np.array([g[0], c[0]]), a[0], np.array([[g[k], c[k]] for k in range(1, n)]), np.array(a[1:]))
                judge("wtmpc", "mpc", f.getvalue(), [mv[x] for x in lay["mpc"]], case)
            fr = [0.5 * (k + 1) for k in range(n)]
            gd = [0.01 * (k + 1) for k in range(n)]
            tv = {"id": 9, "type": "CRIT", "": "", "ENDT": "ENDT"}
            for k in range(n):
                tv.update({"f%d" % (k + 1): fr[k], "g%d" % (k + 1): gd[k]})
            if n >= 2:                       # a damping table needs two points (documented)
                f = io.StringIO()
                bulk.wttabdmp1(f, 9, fr, gd)
                judge("wttabdmp1", "tabdmp1", f.getvalue(), [tv[x] for x in lay["tabdmp1"]], case)
            # RBE3: two groups (n grids with weight 1.5 and DOF 123, two grids with weight 2.5 and DOF 12), with / without UM and ALPHA
            gi = [int(x) for x in rng.choice(np.arange(1, 9999), n + 6, replace=False)]
            rv = {"eid": 77, "": "", "refg": gi[0], "refc": 123456, "wt1": 1.5, "c1": 123, "wt2": 2.5, "c2": 12, "h1": gi[1], "h2": gi[2],
                  "UM": "UM", "m1": gi[3], "mc1": 12, "m2": gi[4], "mc2": 13, "m3": gi[5], "mc3": 1, "ALPHA": "ALPHA", "alpha": 6.5e-6}
            rv.update({"g%d" % (i + 1): gi[6 + i] for i in range(n)})
            ind = [[123, 1.5], gi[6:6 + n], [12, 2.5], [gi[1], gi[2]]]
            um_l = [gi[3], 12, gi[4], 13, gi[5], 1]
            for key, um_, al_ in (("rbe3", None, None), ("rbe3um", um_l, None), ("rbe3umalpha", um_l, 6.5e-6), ("rbe3alpha", None, 6.5e-6)):
                f = io.StringIO()
                bulk.wtrbe3(f, 77, gi[0], 123456, ind, um_, alpha=al_)
                judge("wtrbe3 (%s)" % key, "rbe3", f.getvalue(), [rv[x] for x in lay[key]], case)
            if n <= 3:
                off = [None, [4.0, 5.0, 6.0], [0.5, -1.5, 2.5]][n - 1]
                offd = [None, [0.125, 0.25, 0.5], None][n - 1]
                cv = {"eid": 5, "gid": 100 + n, "cid": n - 1, "mass": 12.5 * n, "": "", "i11": 1.0 * n, "i22": 2.0, "i33": 3.0}
                cv.update(dict(zip(("x1", "x2", "x3"), off or [0.0, 0.0, 0.0])))
                cv.update(dict(zip(("i21", "i31", "i32"), offd or [0.0, 0.0, 0.0])))
                f = io.StringIO()
                bulk.wtconm2(f, 5, 100 + n, n - 1, 12.5 * n, [1.0 * n, 2.0, 3.0], offd, off)
                judge("wtconm2", "conm2", f.getvalue(), [cv[x] for x in lay["conm2"]], case)
                lv = {"sid": 9, "exciteid": 10 + n, "delay": 0, "type": ["LOAD", "DISP", "ACCE"][n - 1], "tid": 33, "t1": 0.5, "t2": 1.5, "f": 2.0 * n, "p": 10.0, "c": 0.25, "b": 0.125}
                f = io.StringIO()
                bulk.wttload1(f, 9, 10 + n, 0, lv["type"].lower(), 33)
                judge("wttload1", "tload1", f.getvalue(), [lv[x] for x in lay["tload1"]], case)
                f = io.StringIO()
                bulk.wttload2(f, 9, 10 + n, 0, lv["type"].lower(), 0.5, 1.5, 2.0 * n, 10.0, 0.25, 0.125)
                judge("wttload2", "tload2", f.getvalue(), [lv[x] for x in lay["tload2"]], case)
        except Exception as ex:
            run.deviation(spec, "writer raised %r" % ex, case)
        run.trace_validated()


def geometry_part(run, bulk, np):
    """GRID / CORD2x / USET-to-bulk round trips (values to field precision, ids and order exact)"""
    from pyyeti.nastran import n2p
    rng = np.random.default_rng(run.seed)
    for trial in range(30 if run.tier == "quick" else 400):
        n = int(rng.integers(1, 9))
        ids = sorted(rng.choice(np.arange(1, 9999), n, replace=False).tolist())
        xyz = np.round(rng.standard_normal((n, 3)) * 10.0 ** rng.integers(-2, 3, (n, 1)), 3)
        cp = int(rng.choice([0, 0, 7]))
        cd = int(rng.choice([0, 9]))
        psv, sev = [("", ""), (123456, ""), ("", 7), (13, 2)][trial % 4]      # none / PS only / SEID only / both
        case = {"grids": ids, "xyz": xyz.tolist(), "cp": cp, "cd": cd, "ps": psv, "seid": sev}
        run.case(("grid", trial), part="grids/coords")
        for form, tol in (("{:8d}", 2e-4), ("{:16d}", 1e-9)):
            try:
                f = io.StringIO()
                bulk.wtgrids(f, ids, cp=cp, xyz=xyz, cd=cd, ps=psv, seid=sev, form="{:8.3f}" if form == "{:8d}" else "{:16.8f}")
                txt = f.getvalue()
                back = bulk.rdgrids(io.StringIO(txt))
                if back is None or [int(x) for x in back[:, 0]] != ids or not np.allclose(back[:, 2:5], xyz, atol=5.1e-4 if form == "{:8d}" else 5.1e-9, rtol=0) \
                        or [int(x) for x in back[:, 1]] != [cp] * n or [int(x) for x in back[:, 5]] != [cd] * n \
                        or [int(x) for x in back[:, 6]] != [int(psv or 0)] * n or [int(x) for x in back[:, 7]] != [int(sev or 0)] * n:
                    run.violation("wtgrids/rdgrids: grids read back differ", dict(case, text=txt, got=None if back is None else back.tolist()), {"fn": "wtgrids"})
            except Exception as ex:
                run.violation("wtgrids/rdgrids: raised %r" % ex, case, {"fn": "wtgrids"})
        # coordinate systems: CORD2R/C/S cards through a chain
        try:
            A0 = rng.standard_normal(3)
            cs = {}
            cards = []
            for k, (cid, typ, ref) in enumerate([(7, 1, 0), (9, 2, 7), (11, 3, 9)]):
                a = np.round(rng.standard_normal(3) * 3, 4)
                b = a + np.round(rng.standard_normal(3), 4) + [0, 0, 1.5]
                cpt = a + np.round(rng.standard_normal(3), 4) + [1.5, 0, 0]
                cards.append(np.vstack(([cid, typ, ref], a, b, cpt)))
            uset = None
            uset = n2p.addgrid(None, 1, "b", cards[0], [1.0, 2.0, 3.0], cards[0], coordref={})
            f = io.StringIO()
            ci = n2p.mkcordcardinfo(uset)
            bulk.wtcoordcards(f, ci)
            txt = f.getvalue()
            back = bulk.rdcord2cards(io.StringIO(txt))
            # the USET rows 2..6 of a grid hold its coordinate system: [id type ref; origin; T].  Card writer and
            # reader are inverses when the system read back equals the one the cards were made from.
            want = uset.iloc[1:6, 1:4].values.astype(float)
            got = back[7] if isinstance(back, dict) and 7 in back else None
            if got is None or not np.allclose(np.asarray(got), want, atol=1e-7):
                run.violation("wtcoordcards/rdcord2cards: coordinate system read back differs from the one written",
                              dict(case, text=txt, got=str(back.get(7) if isinstance(back, dict) else back), want=want.tolist()), {"fn": "wtcoordcards"})
        except Exception as ex:
            run.violation("wtcoordcards/rdcord2cards: raised %r" % ex, case, {"fn": "wtcoordcards"})
        # USET table of several grids (input and output systems drawn from basic and the chain 7 <- 9 <- 11, in any order, so that basic
        # grids sit before, between and after the grids in local systems) -> uset2bulk -> bulk2uset: same grids in the same order, same
        # locations and transforms to the precision of the cards; and every system on the CORD2x cards is the one in the table
        try:
            cmap = {0: 0, 7: cards[0], 9: cards[1], 11: cards[2]}
            ng = int(rng.integers(2, 7))
            gids = sorted(rng.choice(np.arange(1, 5000), ng, replace=False).tolist())   # a USET table is in id order (bulk2uset sorts)
            cins = rng.choice([0, 7, 9, 11], ng).tolist()
            couts = rng.choice([0, 0, 7, 9, 11], ng).tolist()
            if trial % 3 == 0:
                couts[0] = 0                                  # a basic grid ahead of the local ones
            cref = {}
            for c_ in cards:                                  # make the chain known (7, then 9 on 7, then 11 on 9)
                n2p.addgrid(None, 1, "b", c_, [1.0, 2.0, 3.0], c_, coordref=cref)
            ut = None
            for g, a_, b_ in zip(gids, cins, couts):
                loc = np.round(rng.standard_normal(3) * 4, 3) + [3.0, 1.0, 1.0]
                ut = n2p.addgrid(ut, g, "b", cmap[a_], loc, cmap[b_], coordref=cref)
            ucase = dict(case, uset_grids=gids, cin=cins, cout=couts)
            f = io.StringIO()
            bulk.uset2bulk(f, ut)
            txt = f.getvalue()
            u2, _cr = bulk.bulk2uset(io.StringIO(txt))
            if list(u2.index) != list(ut.index) or u2.shape != ut.shape or not np.allclose(u2.values.astype(float), ut.values.astype(float), atol=1e-6):   # 9 digits on A, B, C (|.| <= 30) through the axes
                run.violation("uset2bulk/bulk2uset: USET table read back differs (grid order, locations or transforms)",
                              dict(ucase, text=txt), {"fn": "uset2bulk"})
            f = io.StringIO()
            bulk.wtcoordcards(f, n2p.mkcordcardinfo(ut))
            back = bulk.rdcord2cards(io.StringIO(f.getvalue()))
            for k, b_ in enumerate(couts):
                if b_ == 0:
                    continue
                want = ut.iloc[6 * k + 1:6 * k + 6, 1:4].values.astype(float)
                got = back.get(b_) if isinstance(back, dict) else None
                if got is None or not np.allclose(np.asarray(got), want, atol=1e-6):
                    run.violation("mkcordcardinfo/wtcoordcards/rdcord2cards: system %d read back differs from the one in the USET table" % b_,
                                  dict(ucase, text=f.getvalue(), got=str(got), want=want.tolist()), {"fn": "wtcoordcards"})
                    break
        except Exception as ex:
            run.violation("uset2bulk/bulk2uset: raised %r" % ex, case, {"fn": "uset2bulk"})
        run.trace_validated()


def body(run: Run, replay):
    import numpy as np
    import pandas as pd
    import warnings
    warnings.simplefilter("ignore")
    from pyyeti.nastran import bulk
    run.rule = ("id lists: every gap pattern (singletons / runs) up to MaxN ids x 3 start magnitudes through SPOINT (THRU), CSUPER, EXTRN, "
                "SET (3 wrap widths), TABLED1 (both field widths, 1..MaxN points); DMIG: every matrix <= 3x3 over value ids x "
                "{dof, plain} column index x 4 dtypes (forms 1/2/6/9, types 1-4); GRID/CORD2x random sweeps. distinct non-trivial = "
                "lists with >= 2 runs one of which is THRU-compressible; DMIG with at least one entry")
    run.assumptions = ["values compared to the precision of the written format", "text parsed by a neutral fixed-column cell splitter"]
    lists_part(run, bulk, np)
    perms_part(run, bulk, np)
    ints_part(run, bulk, np)
    layouts_part(run, bulk, np)
    dmig_part(run, bulk, np, pd)
    geometry_part(run, bulk, np)


if __name__ == "__main__":
    main("C13", "model_checking", body)
