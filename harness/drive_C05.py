"""C05 rainflow: TLC checks Impl = Ref (ASTM) on the model and exports, for every input, the expected
table; every implementation built/loaded from the working tree is replayed on every exported input
(and on affine images of it) and must return exactly that table."""
import json
import os
import sys

from . import tlc
from .runner import main, Run


def _impls():
    import numpy as np
    from . import repo_build

    cfast = repo_build.build_c_rain(False)
    cslow = repo_build.build_c_rain(True)
    import pyyeti.rainflow.py_rain as py_rain

    sys.modules["pyyeti.rainflow.c_rain"] = cfast
    import pyyeti.rainflow as pr

    pr.c_rain = cfast
    import pyyeti.cyclecount as cc

    if getattr(cc.rain, "__file__", None) != cfast.__file__:
        cc.rain = cfast

    def cc_np(p, g):
        return cc.rainflow(p, g, use_pandas=False)

    def cc_pd(p, g):
        r = cc.rainflow(p, g, use_pandas=True)
        if g:
            return r[0].values, r[1].values
        return r.values

    return [
        ("c_rain", cfast.rainflow),
    ] + ([("c_rain_twopass", cslow.rainflow)] if cslow is not None else []) + [
        ("py_rain", py_rain.rainflow),
        ("cyclecount.rainflow[np]", cc_np),
        ("cyclecount.rainflow[pandas]", cc_pd),
    ]


# affine images  x -> a*x + b  (dyadic: exact in binary64).  a < 0 covers negation.
AFFINE = [(1.0, 0.0), (-1.0, 0.0), (1.0, 3.0), (2.0, 0.0), (0.5, -0.25), (-3.0, 7.5), (1024.0, -4096.0)]


def check_case(run, impls, inp, rows, affine, np):
    """rows: expected <<amp2, mean2, cnt2, start, stop>> from TLC.  Returns False on violation."""
    exp_rf = np.array([[r[0] / 2.0, r[1] / 2.0, r[2] / 2.0] for r in rows], float).reshape(-1, 3)
    exp_os = np.array([[r[3], r[4]] for r in rows], np.int64).reshape(-1, 2)
    ok = True
    for a, b in affine:
        x = [a * v + b for v in inp]
        e_rf = exp_rf.copy()
        e_rf[:, 0] *= abs(a)
        e_rf[:, 1] = a * e_rf[:, 1] + b
        for name, fn in impls:
            for go in (True, False):
                for form in ("list", "array"):
                    arg = x if form == "list" else np.array(x)
                    if form == "array" and (go or a != 1.0):
                        continue
                    try:
                        # poison the allocator's free lists: a table row the code forgets to write must not show the correct
                        # values left there by the previous call on the same input
                        junk = [np.full((len(x) - 1, 3), np.nan), np.full((len(x) - 1, 2), -7, np.int64), np.full(len(x), np.nan)]
                        del junk
                        res = fn(arg, go)
                        if go:
                            rf, os_ = res
                            rf = np.asarray(rf, float)
                            os_ = np.asarray(os_)
                        else:
                            rf, os_ = np.asarray(res, float), None
                        good = rf.shape == e_rf.shape and np.array_equal(rf, e_rf)
                        if good and os_ is not None:
                            good = os_.shape == exp_os.shape and np.array_equal(os_, exp_os)
                        got = {"rf": rf.tolist(), "os": None if os_ is None else os_.tolist()}
                    except Exception as ex:  # an exception on valid input is a violation too
                        good = False
                        got = {"exception": repr(ex)}
                    run.case(None, nontrivial=False)
                    if not good:
                        ok = False
                        run.violation(
                            "table(%s, getoffsets=%s) = ASTM reference exported by TLC" % (name, go),
                            {"inp": inp, "affine": [a, b], "impl": name, "getoffsets": go,
                             "expected_rows": rows, "got": got},
                            {"impl": name},
                        )
                        return ok
    return ok


def layout_case(run, impls, inp, rows, lays, filler, np):
    """spec section 'Memory layouts': the sequence sits in a buffer as (offset, stride); every implementation must read it
    through the view (table = the one of the plain list) and must not write any cell of the buffer (InputNeverWritten)"""
    exp_rf = np.array([[r[0] / 2.0, r[1] / 2.0, r[2] / 2.0] for r in rows], float).reshape(-1, 3)
    exp_os = np.array([[r[3], r[4]] for r in rows], np.int64).reshape(-1, 2)
    n = len(inp)
    ok = True
    for lay in lays:
        for dt in (np.float64, np.int64):
            buf = np.full(lay["len"], filler, dt)
            for i in range(n):
                buf[lay["off"] + i * lay["stride"]] = inp[i]
            view = buf[lay["off"]::lay["stride"]][:n]
            if view.tolist() != [dt(v).item() for v in inp]:
                raise RuntimeError("layout construction does not read back the sequence")
            snap = buf.tobytes()
            for name, fn in impls:
                for go in (True, False):
                    bad = None
                    try:
                        res = fn(view, go)
                        rf, os_ = (np.asarray(res[0], float), np.asarray(res[1])) if go else (np.asarray(res, float), None)
                        if rf.shape != exp_rf.shape or not np.array_equal(rf, exp_rf) or (os_ is not None and not np.array_equal(os_, exp_os)):
                            bad = "table(%s, getoffsets=%s) on a %s %s view differs from the table of the same sequence as a list" % (name, go, lay["name"], np.dtype(dt).name)
                    except Exception as ex:
                        bad = "%s raised %r on a %s %s view" % (name, ex, lay["name"], np.dtype(dt).name)
                    if bad is None and buf.tobytes() != snap:
                        bad = "%s (getoffsets=%s) wrote into the caller's array (%s %s view)" % (name, go, lay["name"], np.dtype(dt).name)
                        buf[:] = np.frombuffer(snap, dt)
                    run.case(None, nontrivial=False)
                    if bad:
                        ok = False
                        run.violation(bad, {"inp": inp, "layout": lay, "impl": name, "getoffsets": go, "expected_rows": rows},
                                      {"impl": name, "layout": lay["name"]})
    return ok


def body(run: Run, replay):
    import numpy as np

    impls = _impls()
    run.rule = ("TLC enumerates every integer reversal sequence up to the stated length/alphabet, checks "
                "Impl-shaped machine = ASTM reference + counting/offset/largest-range/metamorphic invariants, and "
                "exports the expected table per input; each implementation built from the working tree (c_rain fast, "
                "c_rain two-pass macro variant, py_rain, cyclecount.rainflow np/pandas; with and without offsets) is "
                "run on every input and on 7 affine images; a sample of the inputs is also passed as non-contiguous views (spec Layouts: every "
                "second cell, table column, reversed view; float64 and int64) with the rest of the buffer holding a filler, and the whole "
                "buffer must be unchanged afterwards (InputNeverWritten); distinct non-trivial = inputs with >= 3 points whose table "
                "has at least one full cycle or a step-5 half cycle (i.e. not a pure step-6 flush)")
    run.assumptions = [
        "numba is not installed: py_rain's numba-decorated definitions run undecorated",
        "expected tables come from specs/Rainflow.tla (TLC), integer inputs; real-valued inputs only via exact dyadic affine images and C-vs-Python agreement",
    ]
    if replay:
        rec = json.load(open(replay))["case"]
        check_case(run, impls, rec["inp"], rec["expected_rows"], [tuple(rec["affine"])], np)
        run.case(("replay", rec["inp"]))
        run.case(("replay2", rec["inp"]))
        return

    cfgs = [("MC_Rainflow.cfg", "len<=6 over 0..4")]
    if run.tier == "thorough":
        cfgs = [("MC_Rainflow_A.cfg", "len<=7 over 0..4"), ("MC_Rainflow_B.cfg", "len<=9 over 0..2"),
                ("MC_Rainflow_C.cfg", "len<=5 over 0..8")]
    seen = set()
    for cfg, note in cfgs:
        res = tlc.run("Rainflow", cfg, timeout=1500, heap="8g")
        if res.violation:
            run.add_tlc(cfg, res, note)
            run.violation("TLC: %s on the model (%s)" % (res.violation, cfg), {"tlc": res.error_text()}, {"where": "model"})
            return
        run.add_tlc(cfg, res, note + "; invariants ImplIsRef SliceExact CountIdentity CountsAll RowsNameTheirPoints LargestCounted Laws")
        exports = res.tagged("RF")
        if not exports:
            raise RuntimeError("no RF exports from TLC")
        layouts = {L: (sorted(lays, key=lambda d: d["name"]), filler) for L, lays, filler in res.tagged("LAYOUT")}
        if not layouts:
            raise RuntimeError("no LAYOUT exports from TLC")
        nlay = 0
        for inp, rows in exports:
            key = tuple(inp)
            if key in seen:
                continue
            seen.add(key)
            full = any(r[2] == 2 for r in rows)
            # step-5 half cycles: a half row emitted before the input was exhausted can only be
            # recognised structurally: table is not the plain chain (i,i+1) for all i
            chain = [[i, i + 1] for i in range(len(inp) - 1)]
            nontriv = len(inp) >= 3 and (full or [[r[3], r[4]] for r in rows] != chain)
            quick_aff = AFFINE if (run.tier == "thorough" or len(seen) % 8 == 0) else AFFINE[:2]
            ok = check_case(run, impls, inp, rows, quick_aff, np)
            if ok and (run.tier == "thorough" and len(seen) % 3 == 0 or len(seen) % 11 == 0) and len(inp) in layouts:
                ok = layout_case(run, impls, inp, rows, layouts[len(inp)][0], layouts[len(inp)][1], np)
                nlay += 1
            run.trace_validated()
            run.case(key, nontrivial=nontriv)
            if nontriv:
                run.sample({"inp": inp, "expected_rows(amp2,mean2,cnt2,start,stop)": rows})
            if not ok and len(run.violations) >= 5:
                return
    run.exhaustive = True
    # E: C vs Python bit-for-bit on random real-valued inputs (no oracle; agreement only)
    rng = np.random.default_rng(run.seed)
    nrand = 400 if run.tier == "quick" else 20000
    for t in range(nrand):
        n = int(rng.integers(2, 40))
        kind = t % 4
        if kind == 0:
            x = rng.standard_normal(n)
        elif kind == 1:
            x = np.round(rng.standard_normal(n) * 3) / 2  # many ties
        elif kind == 2:
            x = np.cumsum(rng.standard_normal(n))  # monotone stretches
        else:
            x = rng.integers(-3, 4, n).astype(float) * 1e-300
        base = impls[2][1](x, True)
        for name, fn in impls[:2] + impls[3:4]:
            r = fn(x, True)
            same = np.asarray(r[0]).tobytes() == np.asarray(base[0], float).tobytes() and np.array_equal(r[1], base[1])
            r1 = np.asarray(fn(x, False))
            same = same and r1.tobytes() == np.asarray(base[0], float).tobytes()
            run.case(None, nontrivial=False, part="E:c-vs-python real inputs")
            if not same:
                run.violation("%s and py_rain return identical tables (bit-for-bit) on real input" % name,
                              {"inp": x.tolist(), "impl": name}, {"impl": name})
                return
        # consequences on real input: 2*sum(count) = L-1 ; rows name their points
        rf, os_ = np.asarray(base[0]), np.asarray(base[1])
        good = 2 * rf[:, 2].sum() == n - 1 and np.array_equal(rf[:, 0], np.abs(x[os_[:, 0]] - x[os_[:, 1]]) / 2) \
            and np.array_equal(rf[:, 1], (x[os_[:, 0]] + x[os_[:, 1]]) / 2)
        if not good:
            run.violation("counting identity / rows name their points on real input", {"inp": x.tolist()}, {})
            return


if __name__ == "__main__":
    main("C05", "model_checking", body)
