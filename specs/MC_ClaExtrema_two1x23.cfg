CONSTANTS
  NC = 3
  NR = 1
  Form = "two"
  Alpha = "two1"
  XLess = {2, 3}
  Export = TRUE
SPECIFICATION Spec
INVARIANT TypeOK
INVARIANT TrueExtTwo
INVARIANT TrueExtOne
INVARIANT LabelsAttain
INVARIANT PerCase
INVARIANT AbscissaKnownIffHolderHasOne
INVARIANT ExportOK
