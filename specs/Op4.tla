-------------------------------- MODULE Op4 --------------------------------
(***************************************************************************)
(* C04 / C11.  The Nastran OUTPUT4 matrix format as a grammar with a        *)
(* NONDETERMINISTIC encoder (everything the format permits) and the reader  *)
(* automaton's arithmetic transcribed from pyYeti's readers.                *)
(*                                                                          *)
(* A matrix block is                                                        *)
(*   header  (ncols, +-nrows, form, type, name)        -nrows => "bigmat"   *)
(*   one column record per non-null column:                                 *)
(*     dense      (icol, irow, nw)  values of rows irow .. irow+n-1         *)
(*     bigmat     (icol, 0, nw)  strings (L+1, irow) values                 *)
(*     nonbigmat  (icol, 0, nw)  strings (IS) values,  IS = irow+65536(L+1) *)
(*   trailer column record (ncols+1, 1, 1) one value                        *)
(* L = words of a string = n values x WPV words per value x CPLX (1 real,   *)
(* 2 complex).  nw = L (dense), sum(2+L) (bigmat), sum(1+L) (nonbigmat).    *)
(*                                                                          *)
(* The format's freedom (C11): a column's rows may be cut into strings at   *)
(* arbitrary places, strings may contain zeros, null columns are skipped.   *)
(* pyYeti's writer (C04) is the sub-behaviour "maximal runs of non-zeros"   *)
(* (sparse) / "first to last non-zero" (dense).                             *)
(*                                                                          *)
(* Values are model ids 1..NV (0 = zero); the driver instantiates them.     *)
(***************************************************************************)
EXTENDS Integers, Sequences, FiniteSets, TLC

CONSTANTS NR, NC, NV,      \* rows, columns, number of distinct non-zero value ids
          WPV, CPLX,       \* words per value (1|2), values per entry (1 real | 2 complex)
          Ascii,           \* TRUE: formatted file (dense NW counts NUMBERS, strings still count words)
          PerLine,         \* ASCII: values per line
          RowOffset,       \* the NR modelled rows sit at RowOffset+1 .. RowOffset+NR of a taller matrix (high row numbers
                           \* exercise the IS = irow + 65536(L+1) arithmetic up to the nonbigmat limit of 65535 rows)
          WriterOnly,      \* TRUE: only the encodings pyYeti's writer produces
          Export

Rows == 1..NR
Cols == 1..NC
W == WPV * CPLX            \* words per matrix entry

Matrices == [Rows \X Cols -> 0..NV]
ColOf(M, c) == [r \in Rows |-> M[<<r, c>>]]
NonZero(col) == {r \in Rows : col[r] # 0}

Max(S) == CHOOSE x \in S : \A y \in S : y <= x
Min(S) == CHOOSE x \in S : \A y \in S : y >= x

---------------------------------------------------------------------------
(* Encoder: all legal partitions of a column into strings <<r0, n>>         *)
RECURSIVE Strs(_, _)
Strs(col, r) ==        \* sequences of strings that start at or after row r and cover every non-zero row >= r
  (IF {q \in NonZero(col) : q >= r} = {} THEN {<<>>} ELSE {}) \cup
  UNION { UNION { { <<<<r0, n>>>> \o rest : rest \in Strs(col, r0 + n) }
                  : n \in 1..(NR - r0 + 1) }
          : r0 \in {q \in r..NR : {z \in NonZero(col) : z >= r /\ z < q} = {}} }

\* pyYeti's writer: maximal runs of non-zeros
RECURSIVE Runs(_, _)
Runs(col, r) ==
  IF {q \in NonZero(col) : q >= r} = {} THEN <<>>
  ELSE LET r0 == Min({q \in NonZero(col) : q >= r})
           e == IF {q \in r0..NR : col[q] = 0} = {} THEN NR ELSE Min({q \in r0..NR : col[q] = 0}) - 1
       IN <<<<r0, e - r0 + 1>>>> \o Runs(col, e + 1)

SparseStrings(col) == IF WriterOnly THEN {Runs(col, 1)} ELSE {s \in Strs(col, 1) : s # <<>>}
\* dense: one run; the writer starts at the first and stops at the last non-zero, the format allows any superset
DenseStrings(col) ==
  IF WriterOnly THEN {<<<<Min(NonZero(col)), Max(NonZero(col)) - Min(NonZero(col)) + 1>>>>}
  ELSE {<<<<p[1], p[2]>>>> : p \in {q \in Rows \X Rows : /\ q[1] <= Min(NonZero(col))
                                                          /\ q[1] + q[2] - 1 <= NR
                                                          /\ q[1] + q[2] - 1 >= Max(NonZero(col))}}

\* "bigmat+" = bigmat strings under a POSITIVE row count: what Nastran writes on its own for matrices of 65536 rows
\* or more (the reader must infer bigmat from the size); nonbigmat is only legal below 65536 rows
TotalRows == NR + RowOffset
Layouts == IF TotalRows >= 65536 THEN {"dense", "bigmat", "bigmat+"} ELSE {"dense", "bigmat", "nonbigmat"}
Big(layout) == layout \in {"bigmat", "bigmat+"}

\* abstract column record
StringRec(layout, col, s) ==
  LET L == s[2] * W IN
  [ hw   |-> IF Big(layout) THEN <<L + 1, s[1] + RowOffset>>
             ELSE IF layout = "nonbigmat" THEN <<(s[1] + RowOffset) + 65536 * (L + 1)>> ELSE <<>>,
    r0   |-> s[1] + RowOffset, n |-> s[2],
    vals |-> [k \in 1..s[2] |-> col[s[1] + k - 1]] ]

ColRec(layout, c, col, strs) ==
  [ icol |-> c,
    irow |-> IF layout = "dense" THEN strs[1][1] + RowOffset ELSE 0,
    nw   |-> IF layout = "dense" THEN (IF Ascii THEN strs[1][2] * CPLX ELSE strs[1][2] * W)
             ELSE LET RECURSIVE S(_) S(i) == IF i = 0 THEN 0 ELSE S(i - 1) + strs[i][2] * W + (IF Big(layout) THEN 2 ELSE 1)
                  IN S(Len(strs)),
    strs |-> [i \in 1..Len(strs) |-> StringRec(layout, col, strs[i])] ]

\* all encodings of matrix M in a layout: a function from the non-null columns to a string partition
NonNull(M) == {c \in Cols : NonZero(ColOf(M, c)) # {}}
Choices(layout, M) ==
  [NonNull(M) -> UNION {(IF layout = "dense" THEN DenseStrings(ColOf(M, c)) ELSE SparseStrings(ColOf(M, c))) : c \in NonNull(M)}]
Legal(layout, M, ch) ==
  \A c \in NonNull(M) : ch[c] \in (IF layout = "dense" THEN DenseStrings(ColOf(M, c)) ELSE SparseStrings(ColOf(M, c)))

SeqOfSet(S) == LET RECURSIVE H(_, _) H(i, acc) == IF i > NC THEN acc ELSE H(i + 1, IF i \in S THEN Append(acc, i) ELSE acc)
               IN H(1, <<>>)
Encode(layout, M, ch) ==
  [ hdr  |-> [ncols |-> NC, nrows |-> IF layout = "bigmat" THEN -(NR + RowOffset) ELSE NR + RowOffset, layout |-> layout],
    cols |-> LET cs == SeqOfSet(NonNull(M)) IN
             [i \in 1..Len(cs) |-> ColRec(layout, cs[i], ColOf(M, cs[i]), ch[cs[i]])],
    trailer |-> [icol |-> NC + 1, irow |-> 1, nw |-> IF Ascii THEN 1 ELSE WPV] ]

---------------------------------------------------------------------------
(* Reader automaton: the arithmetic of _rd_*_binary/_ascii and the skipper  *)
Zero == [x \in Rows \X Cols |-> 0]

\* r0 is the absolute 1-based row the reader computed; the model keeps only rows RowOffset+1..RowOffset+NR
Put(X, c, r0abs, vals) == LET r0 == r0abs - RowOffset IN
   [x \in Rows \X Cols |-> IF x[2] = c /\ x[1] >= r0 /\ x[1] < r0 + Len(vals) THEN vals[x[1] - r0 + 1] ELSE X[x]]

\* returns <<X, nwords left>>; the reader loops `while nwords > 0`
RECURSIVE RdStrings(_, _, _, _, _, _)
RdStrings(layout, X, c, strs, i, nwords) ==
  IF nwords <= 0 \/ i > Len(strs) THEN <<X, nwords, i>>
  ELSE LET s == strs[i]
           L1 == IF layout = "bigmat" THEN s.hw[1] - 1                 \* L, r = s2(..); L = (L-1)//wper
                 ELSE (s.hw[1] \div 65536) - 1                          \* L = (IS >> 16) - 1
           r == IF layout = "bigmat" THEN s.hw[2] - 1
                ELSE s.hw[1] - (L1 + 1) * 65536 - 1                    \* r = IS - ((L+1) << 16) - 1
           left == IF layout = "bigmat" THEN nwords - (L1 + 2) ELSE nwords - (L1 + 1)
           n == L1 \div W
       IN RdStrings(layout, Put(X, c, r + 1, SubSeq(s.vals, 1, n)), c, strs, i + 1, left)

RdCol(layout, X, rec) ==
  IF layout = "dense" THEN <<Put(X, rec.icol, rec.irow, SubSeq(rec.strs[1].vals, 1, IF Ascii THEN rec.nw \div CPLX ELSE rec.nw \div W)), 0, 2>>
  ELSE RdStrings(layout, X, rec.icol, rec.strs, 1, rec.nw)

RECURSIVE RdCols(_, _, _, _)
RdCols(layout, X, cols, i) ==
  IF i > Len(cols) THEN <<X, TRUE>>
  ELSE LET r == RdCol(layout, X, cols[i]) IN
       IF r[2] # 0 \/ r[3] # Len(cols[i].strs) + 1 THEN <<X, FALSE>>    \* word count must be consumed exactly
       ELSE RdCols(layout, r[1], cols, i + 1)

\* the reader decides the layout from the header and the first column record
ReaderLayout(e) == IF Len(e.cols) > 0 /\ e.cols[1].irow > 0 THEN "dense"
                   ELSE IF e.hdr.nrows < 0 \/ e.hdr.nrows >= 65536 THEN "bigmat" ELSE "nonbigmat"
Decode(e) == IF Len(e.cols) = 0 THEN <<Zero, TRUE>> ELSE RdCols(ReaderLayout(e), Zero, e.cols, 1)

\* ASCII skipper (_skipop4_ascii): number of text lines it jumps over for one column record
Lines(n) == (n + PerLine - 1) \div PerLine
RECURSIVE SkipStrings(_, _, _, _, _)
SkipStrings(layout, strs, i, elems, lines) ==
  IF elems <= 0 \/ i > Len(strs) THEN <<lines, elems, i>>
  ELSE LET L1 == IF layout = "bigmat" THEN strs[i].hw[1] - 1 ELSE (strs[i].hw[1] \div 65536) - 1
           left == IF layout = "bigmat" THEN elems - (L1 + 2) ELSE elems - (L1 + 1)
       IN SkipStrings(layout, strs, i + 1, left, lines + 1 + Lines(L1 \div WPV))
SkipLines(layout, rec) == IF layout = "dense" THEN <<Lines(rec.nw), 0, 2>> ELSE SkipStrings(layout, rec.strs, 1, rec.nw, 0)
\* the lines the renderer writes after the column header line: per string one header line (sparse) + value lines
RealLines(layout, rec) ==
  LET RECURSIVE S(_) S(i) == IF i = 0 THEN 0 ELSE S(i - 1) + (IF layout = "dense" THEN 0 ELSE 1) + Lines(rec.strs[i].n * CPLX)
  IN S(Len(rec.strs))

---------------------------------------------------------------------------
VARIABLES M, layout, enc
Init == /\ M \in Matrices
        /\ layout \in Layouts
        /\ \E ch \in Choices(layout, M) : Legal(layout, M, ch) /\ enc = Encode(layout, M, ch)
Next == UNCHANGED <<M, layout, enc>>

\* every legal encoding decodes to the matrix, consuming every column's word count exactly
DecodeIsIdentity == LET d == Decode(enc) IN d[2] /\ d[1] = M

\* the reader recognises the layout that was written (dense needs irow > 0, which the format guarantees)
LayoutRecognised == Len(enc.cols) > 0 => ReaderLayout(enc) = (IF layout = "bigmat+" THEN "bigmat" ELSE layout)

\* skipping a column (dir, named-subset reads) jumps over exactly the lines that were written
SkipExact == Ascii => \A i \in 1..Len(enc.cols) :
   LET s == SkipLines(ReaderLayout(enc), enc.cols[i]) IN
   s[2] = 0 /\ s[1] = RealLines(ReaderLayout(enc), enc.cols[i])

\* field ranges: nonbigmat string headers fit a 32-bit signed key only while L+1 < 2^15
FieldRanges == \A i \in 1..Len(enc.cols) : \A k \in 1..Len(enc.cols[i].strs) :
   layout = "nonbigmat" => enc.cols[i].strs[k].hw[1] < 2147483647

ExportOK == Export => PrintT(<<"OP4", M, enc>>)
=============================================================================
