CONSTANTS
  Export = TRUE
  Den = 4
  MaxN = 14
INIT Init
NEXT Next
INVARIANT ExportGrid
INVARIANT ExportTerms
INVARIANT ExportLaws
