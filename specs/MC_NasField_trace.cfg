CONSTANTS
  Mode = "trace"
  Export = TRUE
INIT Init
NEXT Next
INVARIANT TableLaws
INVARIANT ExportTable
INVARIANT TraceOK
INVARIANT CardLaws
INVARIANT ExportCards
