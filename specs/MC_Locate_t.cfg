CONSTANTS
  MaxLen = 4
  MaxVal = 3
  Export = TRUE
INIT Init
NEXT Next
INVARIANT Laws
INVARIANT ExportOK
