------------------------------ MODULE ExpmInt ------------------------------
(***************************************************************************)
(* C07 (first half).  exp(Ah), its integrals and the E, P, Q coefficient   *)
(* matrices of the exponential time-stepping solvers.                      *)
(*                                                                          *)
(* 1. DEFINITIONS as terms (power series - definitions, not algorithms):    *)
(*      E  = sum_k (Ah)^k / k!                                              *)
(*      I1 = h   sum_k (Ah)^k / (k+1)!          = int_0^h exp(At) dt        *)
(*      I2 = h^2 sum_k (Ah)^k / (k! (k+2))      = int_0^h t exp(At) dt      *)
(*    and what getEPQ* must return:  order 0: P = I1 B, Q = 0;              *)
(*    order 1: P = (I2/h) B, Q = (I1 - I2/h) B;  half = left half of the    *)
(*    columns; one step of y' = Ay + Bu under a zero / first order hold,    *)
(*    written from the definitions (NOT as E y + P u0 + Q u1).              *)
(* 2. The ALGORITHM of expmint as a state machine: Pade order selection     *)
(*    from the eta/ell classes, scaling count s, and the squaring phase in  *)
(*    which the integral must be propagated with the exponential of the     *)
(*    SAME span (I += I.E before E = E.E).  TLC checks that every run ends  *)
(*    with E and I1 spanning exactly [0, h], for every input class.         *)
(* 3. The CASE LATTICE handed to the driver: matrix structure x norm class  *)
(*    (both sides of every switch) x order x B x half, with the predicted   *)
(*    route (getEPQ1 / getEPQ2) of getEPQ.                                  *)
(* 4. Trace validation (ExpmIntTrace.tla) of branch events recorded from    *)
(*    the real code against PadeOf / ScaleOK / I2Formula / Route.           *)
(***************************************************************************)
EXTENDS Integers, Sequences, FiniteSets, TLC

CONSTANTS Export, MaxS

V(n) == <<"var", n>>
Num(n) == <<"num", n>>
Add(a, b) == <<"add", a, b>>
Sub(a, b) == <<"sub", a, b>>
Mul(a, b) == <<"mul", a, b>>
Div(a, b) == <<"div", a, b>>
MatMul(a, b) == <<"matmul", a, b>>
Idx == <<"idx", "k">>
Series(body) == <<"series", "k", body>>
MPow(x, k) == <<"mpow", x, k>>
Fact(k) == <<"fact", k>>

A == V("A")  h == V("h")  B == V("B")
X == Mul(h, A)
Edef  == Series(Div(MPow(X, Idx), Fact(Idx)))
I1def == Mul(h, Series(Div(MPow(X, Idx), Fact(Add(Idx, Num(1))))))
I2def == Mul(Mul(h, h), Series(Div(MPow(X, Idx), Mul(Fact(Idx), Add(Idx, Num(2))))))

\* E, I1, I2 below are symbols bound by the driver to the evaluated definitions
E == V("E")  I1 == V("I1")  I2 == V("I2")
Pdef(order) == IF order = 0 THEN MatMul(I1, B) ELSE MatMul(Div(I2, h), B)
Qdef(order) == IF order = 0 THEN <<"zero", MatMul(I1, B)>> ELSE MatMul(Sub(I1, Div(I2, h)), B)
Half(t) == <<"lefthalf", t>>
\* exact state after one step, input u(t) = u0 + (u1 - u0) t/h (order 1) or u0 (order 0), from the definitions
StepDef(order) ==
  IF order = 0 THEN Add(MatMul(E, V("y0")), MatMul(I1, MatMul(B, V("u0"))))
  ELSE Add(Add(MatMul(E, V("y0")), MatMul(I1, MatMul(B, V("u1")))),
           <<"neg", MatMul(Div(I2, h), MatMul(B, Sub(V("u1"), V("u0"))))>>)
\* laws of the definitions themselves (checked numerically by the driver on the evaluated series: they tie the three
\* series to one another, so a slip in one definition cannot go unnoticed):  A I1 = E - I ;  A I2 = h E - I1
LawI1 == <<MatMul(A, I1), Sub(E, <<"eye", A>>)>>
LawI2 == <<MatMul(A, I2), Sub(Mul(h, E), I1)>>

---------------------------------------------------------------------------
(* 2. the algorithm                                                        *)
Theta == [t3 |-> "1.495585217958292e-002", t5 |-> "2.539398330063230e-001", t7 |-> "9.504178996162932e-001",
          t9 |-> "2.097847961257068e000", t13 |-> "4.25", switch |-> "2.097847961257068"]

\* input class: which eta thresholds are met, the ell corrections, the base scaling count
Classes == [e1 : BOOLEAN, e2 : BOOLEAN, e37 : BOOLEAN, e39 : BOOLEAN, l3 : 0..1, l5 : 0..1, l7 : 0..1, l9 : 0..1,
            sbase : 0..MaxS, l13 : 0..1, geti2 : BOOLEAN, luok : BOOLEAN]
\* eta_3 < theta_7 implies eta_3 < theta_9 (same quantity, nested thresholds)
ClassOK(c) == c.e37 => c.e39

PadeOf(c) == IF c.e1 /\ c.l3 = 0 THEN 3
             ELSE IF c.e2 /\ c.l5 = 0 THEN 5
             ELSE IF c.e37 /\ c.l7 = 0 THEN 7
             ELSE IF c.e39 /\ c.l9 = 0 THEN 9 ELSE 13
I2Formula(pade, luok) == IF pade <= 9 THEN "pade" ELSE IF luok THEN "inverse" ELSE "series"
Pow2(n) == LET RECURSIVE P(_) P(i) == IF i = 0 THEN 1 ELSE 2 * P(i - 1) IN P(n)

VARIABLES cls, pc, pade, s, sq, spanE, spanI, i2f, log
vars == <<cls, pc, pade, s, sq, spanE, spanI, i2f, log>>

Init == /\ cls \in {c \in Classes : ClassOK(c)}
        /\ pc = "try3" /\ pade = 0 /\ s = 0 /\ sq = 0 /\ spanE = 0 /\ spanI = 0 /\ i2f = "none" /\ log = <<>>

\* spans are counted in units of h / 2^s
Approx(p, nextpc) == /\ pade' = p /\ s' = 0 /\ sq' = 0 /\ spanE' = 1 /\ spanI' = 1 /\ pc' = nextpc
Try(order, ok, nxt) ==
   /\ pc = "try" \o ToString(order)
   /\ IF ok THEN Approx(order, "i2") ELSE (pc' = nxt /\ UNCHANGED <<pade, s, sq, spanE, spanI>>)
   /\ log' = Append(log, <<"try", order, ok>>)
   /\ UNCHANGED <<cls, i2f>>
Try3 == Try(3, cls.e1 /\ cls.l3 = 0, "try5")
Try5 == Try(5, cls.e2 /\ cls.l5 = 0, "try7")
Try7 == Try(7, cls.e37 /\ cls.l7 = 0, "try9")
Try9 == Try(9, cls.e39 /\ cls.l9 = 0, "scale")
\* Pade 13 on A h / 2^s with the step h / 2^s
Scale == /\ pc = "scale" /\ pade' = 13 /\ s' = cls.sbase + cls.l13 /\ sq' = 0 /\ spanE' = 1 /\ spanI' = 1
         /\ pc' = "sqI" /\ log' = Append(log, <<"scale", cls.sbase + cls.l13>>) /\ UNCHANGED <<cls, i2f>>
\* squaring phase, two separate assignments per round:   I += I.E   then   E = E.E
SquareI == /\ pc = "sqI" /\ sq < s
           /\ spanI' = spanI + spanE           \* I(a) + I(a) E(b) spans a + b ONLY IF a = b  (checked by SpanLaw)
           /\ pc' = "sqE" /\ log' = Append(log, <<"I+=I.E", spanI, spanE>>) /\ UNCHANGED <<cls, pade, s, sq, spanE, i2f>>
SquareE == /\ pc = "sqE" /\ spanE' = 2 * spanE /\ sq' = sq + 1 /\ pc' = "sqI"
           /\ log' = Append(log, <<"E=E.E", spanE>>) /\ UNCHANGED <<cls, pade, s, spanI, i2f>>
EndSquare == /\ pc = "sqI" /\ sq = s /\ pc' = "i2" /\ UNCHANGED <<cls, pade, s, sq, spanE, spanI, i2f, log>>
GetI2 == /\ pc = "i2" /\ pc' = "done"
         /\ i2f' = IF cls.geti2 THEN I2Formula(pade, cls.luok) ELSE "none"
         /\ UNCHANGED <<cls, pade, s, sq, spanE, spanI, log>>
Next == Try3 \/ Try5 \/ Try7 \/ Try9 \/ Scale \/ SquareI \/ SquareE \/ EndSquare \/ GetI2
Spec == Init /\ [][Next]_vars
FairSpec == Spec /\ WF_vars(Next)

\* the additive law of the integral is used with equal spans only
SpanLaw == pc = "sqE" => spanI = 2 * spanE
\* at the end E and I1 both span exactly [0, h] = 2^s units, with the Pade order the classes select
DoneOK == pc = "done" => /\ spanE = Pow2(s) /\ spanI = Pow2(s) /\ pade = PadeOf(cls)
                          /\ (pade = 13 => s = cls.sbase + cls.l13) /\ (pade # 13 => s = 0)
                          /\ (cls.geti2 => i2f = I2Formula(pade, cls.luok))
\* an inverse / series I2 is only ever needed with Pade 13 (every lower order carries its own I2 approximant)
I2PadeUnless13 == (pc = "done" /\ cls.geti2 /\ pade # 13) => i2f = "pade"
Terminates == <>(pc = "done")

---------------------------------------------------------------------------
(* 3. case lattice                                                         *)
\* "diagonal": exactly diagonal A with rates spread over three decades and one zero entry (uncoupled first-order systems, 1x1 blocks): the
\* closed forms a shortcut would use for it cancel catastrophically in the second integral when |a h| is small
Structures == {"generic", "singular", "nilpotent2", "nilpotent3", "jordan", "uppertri", "stiff", "oscillator", "diagonal"}
\* norm classes ||A h||_1 as <<numerator, denominator>>, increasing; the getEPQ switch lies between classes 7 and 8
NormClasses == << <<1, 1000000>>, <<1, 10000>>, <<1, 100>>, <<1, 10>>, <<1, 2>>, <<3, 2>>, <<2097, 1000>>,
                  <<2098, 1000>>, <<5, 1>>, <<30, 1>>, <<100, 1>>, <<1000, 1>> >>
SwitchIndex == 7
Route(nc) == IF nc <= SwitchIndex THEN "getEPQ1" ELSE "getEPQ2"
Increasing == \A i \in 1..(Len(NormClasses) - 1) :
                 NormClasses[i][1] * NormClasses[i + 1][2] < NormClasses[i + 1][1] * NormClasses[i][2]
ASSUME Increasing
\* 2097/1000 < 2.097847961257068 < 2098/1000 : checked on the first seven digits (TLC integers are 32 bit)
ASSUME 2097 * 10000 < 20978479 /\ 20978479 < 2098 * 10000

Cases == {[st |-> st, nc |-> nc, order |-> o, hasB |-> hb, half |-> hf] :
            st \in Structures, nc \in 1..Len(NormClasses), o \in {0, 1}, hb \in BOOLEAN, hf \in BOOLEAN}
\* half needs an even size (the oscillator family is 2k x 2k; the others are instantiated 4 x 4 when half is asked);
\* half is ignored when B is given (documented) - both kept, the driver checks "ignored"
ExportCases == (Export /\ pc = "try3" /\ cls = [e1 |-> TRUE, e2 |-> TRUE, e37 |-> TRUE, e39 |-> TRUE, l3 |-> 0, l5 |-> 0, l7 |-> 0,
                                                l9 |-> 0, sbase |-> 0, l13 |-> 0, geti2 |-> FALSE, luok |-> FALSE]) =>
   /\ PrintT(<<"NORMS", NormClasses, SwitchIndex, Theta>>)
   /\ PrintT(<<"DEFS", [E |-> Edef, I1 |-> I1def, I2 |-> I2def, P0 |-> Pdef(0), Q0 |-> Qdef(0), P1 |-> Pdef(1), Q1 |-> Qdef(1),
                        step0 |-> StepDef(0), step1 |-> StepDef(1), lawI1 |-> LawI1, lawI2 |-> LawI2]>>)
   /\ \A c \in Cases : PrintT(<<"CASE", c, Route(c.nc)>>)
\* every Pade order and every I2 formula is selected by some class (the decision function is onto: non-vacuity)
Onto == \A p \in {3, 5, 7, 9, 13} : \E c \in Classes : ClassOK(c) /\ PadeOf(c) = p
ASSUME Onto
=============================================================================
