"""C16 part B: uncertainty factors (specs/ApplyUF.tla).  Replays TLC-enumerated call histories of uf tuples that
share one cache into cla.apply_uf; every call's output is compared with the spec's terms (generic evaluator) and
with a cache-free call bit-for-bit."""
import random

from . import tlc, terms

GEN = {"ruf": 1.2, "euf": 1.1, "duf": 1.25, "suf": 0.9}


def make_problem(rng, np, nrb, nel, nrf, mform, bform, kform, interleave, nt=5, with_pg=True):
    from types import SimpleNamespace
    n = nrb + nel + nrf
    idx = np.arange(nrb, n)
    if interleave and nrf and nel:
        rf = np.sort(rng.choice(idx, nrf, replace=False))
    else:
        rf = idx[nel:]
    el = np.array([i for i in idx if i not in set(rf.tolist())], int)
    md = rng.uniform(0.5, 2, n)
    bd = rng.uniform(0.1, 1, n)
    kd = rng.uniform(10, 100, n)
    kd[:nrb] = 0.0
    M = np.diag(md)
    B = np.diag(bd)
    K = np.diag(kd)

    def couple(A, ix, s):
        q = rng.standard_normal((len(ix), len(ix)))
        q = s * (q + q.T)
        np.fill_diagonal(q, 0)
        A[np.ix_(ix, ix)] += q

    if mform == "mat":
        couple(M, el, 0.05)
    if bform == "mat":
        couple(B, el, 0.03)
    if kform == "mat":
        couple(K, el, 1.0)
        couple(K, rf, 1.0)
    m = None if mform == "none" else (md if mform == "vec" else M)
    if mform == "none":
        M = np.eye(n)
    b = bd if bform == "vec" else B
    k = kd if kform == "vec" else K
    sol = SimpleNamespace(a=rng.standard_normal((n, nt)), v=rng.standard_normal((n, nt)), d=rng.standard_normal((n, nt)),
                          t=np.arange(nt) * 0.1, h=0.1)
    if with_pg:
        sol.pg = rng.standard_normal((3, nt))
    ee = np.ix_(el, el)
    env = dict(a_rb=sol.a[:nrb].copy(), v_rb=sol.v[:nrb].copy(), d_rb=sol.d[:nrb].copy(),
               a_el=sol.a[el].copy(), v_el=sol.v[el].copy(), d_el=sol.d[el].copy(),
               a_rf=sol.a[rf].copy(), v_rf=sol.v[rf].copy(), d_rf=sol.d[rf].copy(),
               M_el=(md[el] if mform == "vec" else M[ee]), B_el=(bd[el] if bform == "vec" else B[ee]),
               K_el=(kd[el] if kform == "vec" else K[ee]), pg=sol.pg.copy() if with_pg else None)
    if mform == "none":
        env["M_el"] = np.ones(len(el))
    return sol, m, b, k, nrb, (rf if nrf else None), el, rf, env


def close(x, y):
    """equal to a few ulp of the array's scale: the statement is about WHAT is computed, not about the order of the floating-point
    operations (a cached path may legitimately associate differently)"""
    import numpy as np
    x, y = np.asarray(x), np.asarray(y)
    if x.shape != y.shape:
        return False
    if x.size == 0:
        return True
    sc = max(float(np.abs(y).max()), float(np.abs(x).max()))
    return bool(np.abs(x - y).max() <= 1e-13 * sc) if sc > 0 else True


def merge_part(run, cla, res):
    """spec MergeOne / MergeLaws: DR_Event.add(..., uf_reds, method) updates a category's factors entry by entry"""
    rows = res.tagged("MERGE")
    if not rows:
        raise RuntimeError("no MERGE export from TLC")
    allrows = sorted(rows[0][0], key=repr)
    groups = []
    for meth in ("replace", "multiply"):
        mr = [r_ for r_ in allrows if r_[2] == meth]
        # four rows at a time make one (rigid, elastic, dynamic, static) update; two different strides so that every row meets others
        for step in (1, 5):
            for k in range(len(mr)):
                groups.append([mr[(k + j * step) % len(mr)] for j in range(4)])
    for grp in groups:
        method = grp[0][2]
        old = tuple(g[0] / 10.0 for g in grp)
        new = tuple(None if g[1] < 0 else g[1] / 10.0 for g in grp)
        want = tuple(g[3] / 100.0 for g in grp)
        run.case(("uf-merge", method, old, new), part="B:uf merge")
        for how in ("name", "callable"):
            drdefs = cla.DR_Def(dict(se=0, uf_reds=old))

            @cla.DR_Def.addcat
            def _():
                name = "cat"
                desc = "c"
                labels = ["r1"]
                drfunc = "sol.a[:1]"
                drdefs.add(**locals())

            DR = cla.DR_Event()
            try:
                DR.add(None, drdefs, uf_reds=new, method=method if how == "name" else ((lambda o, n: n) if method == "replace" else (lambda o, n: o * n)))
                got = tuple(float(x) for x in DR.Info["cat"].uf_reds)
            except Exception as ex:
                run.violation("DR_Event.add(uf_reds=%r, method=%r) raised %r" % (new, method, ex), {"old": old, "new": new}, {"target": "uf-merge"})
                continue
            if any(abs(a - b) > 1e-12 for a, b in zip(got, want)) or got not in [tuple(float(x) for x in u) for u in DR.UF_reds]:
                run.violation("DR_Event.add(uf_reds=%r, method=%s %r) on factors %r gives %r (registered %r), the documented entry-wise rule gives %r" % (
                    new, how, method, old, got, DR.UF_reds, want), {"old": old, "new": new, "method": method}, {"target": "uf-merge"})
        run.trace_validated()


def run_uf(run):
    import numpy as np
    import copy
    from pyyeti import cla
    from pyyeti.cla.dr_event import apply_uf

    res = tlc.run("ApplyUF", "MC_ApplyUF.cfg", timeout=600)
    if res.violation:
        run.add_tlc("MC_ApplyUF.cfg", res)
        run.violation("TLC: %s on the ApplyUF model" % res.violation, {"tlc": res.error_text()}, {"where": "model"})
        return
    run.add_tlc("MC_ApplyUF.cfg", res, "invariants UnitIsIdentity CacheInvisible; call histories of <=3 uf tuples x {shared,fresh} cache")
    table = {tuple(uf): rec for uf, rec in res.tagged("UFT")}
    hists = [h[0] for h in res.tagged("UFC")]
    merge_part(run, cla, res)
    rnd = random.Random(run.seed)
    rng = np.random.default_rng(run.seed)
    nh = 40 if run.tier == "quick" else 600
    problems = []
    for nrb, nel, nrf in ((0, 3, 0), (2, 3, 2), (1, 2, 1), (2, 0, 0), (0, 2, 2), (1, 0, 2)):
        for mform in ("none", "vec", "mat"):
            for bform, kform in (("vec", "vec"), ("mat", "vec"), ("mat", "mat"), ("vec", "mat")):
                for inter in (False, True):
                    if inter and not (nrf and nel):
                        continue
                    problems.append((nrb, nel, nrf, mform, bform, kform, inter))
    for pi, p in enumerate(problems):
        sol, m, b, k, nrb, rfm, el, rf, env = make_problem(rng, np, *p, with_pg=(pi % 2 == 0))
        n = sol.a.shape[0]
        sol0 = copy.deepcopy(sol)
        for h in rnd.sample(hists, min(nh, len(hists))):
            save = {}
            for uf, mode in h:
                vals = tuple(1.0 if c == "one" else GEN[nm] for c, nm in zip(uf, ("ruf", "euf", "duf", "suf")))
                out = apply_uf(sol, vals, m, b, k, nrb, rfm, save if mode == "shared" else None)
                fresh = apply_uf(sol, vals, m, b, k, nrb, rfm, {})
                case = {"problem": p, "history": h, "uf": uf, "mode": mode}
                run.case((p, tuple(map(tuple, [u for u, _ in h])), tuple(md for _, md in h)), nontrivial=(len(set(map(str, h))) > 1), part="B:apply_uf")
                bad = None
                for nm in ("a", "v", "d", "d_static", "d_dynamic") + (("pg",) if hasattr(sol, "pg") else ()):
                    if not close(getattr(out, nm), getattr(fresh, nm)):
                        bad = "result with the shared cache differs from a cache-free call (%s)" % nm
                if bad is None:
                    e = dict(env, **{kk: vv for kk, vv in zip(("ruf", "euf", "duf", "suf"), vals)})
                    rec = table[tuple(uf)]
                    exp = {}
                    for key, rows in (("rb", slice(0, nrb)), ("el", el), ("rf", rf)):
                        for q in ("a", "v", "ds", "dd"):
                            if q + "_" + key in rec:
                                exp.setdefault(q, np.zeros((n, sol.a.shape[1])))[rows] = terms.ev(rec[q + "_" + key], e)
                    got = {"a": out.a, "v": out.v, "ds": out.d_static, "dd": out.d_dynamic}
                    for q in got:
                        rows = np.arange(n)
                        if len(el) == 0 and q in ("ds", "dd"):
                            rows = np.arange(nrb)  # documented early return: only rb rows are defined
                        sc = max(np.abs(exp[q]).max(), 1.0)
                        if not np.abs(got[q][rows] - exp[q][rows]).max() <= 1e-10 * sc:
                            bad = "%s does not equal the documented scaling (spec term)" % q
                    if bad is None and len(el) + len(rf) > 0 or nrb == n:
                        if not close(out.d, out.d_static + out.d_dynamic):
                            bad = "d != d_static + d_dynamic"
                    if bad is None and hasattr(sol, "pg"):
                        if not np.allclose(out.pg, terms.ev(rec["pg"], e), rtol=1e-14, atol=0):
                            bad = "pg scaling"
                    if bad is None and all(c == "one" for c in uf):
                        if not (close(out.a[:nrb], sol.a[:nrb]) and close(out.v[el], sol.v[el])):
                            bad = "unit factors changed a/v"
                        if len(el) and not np.allclose(out.d[el], sol.d[el], rtol=1e-9, atol=1e-9 * np.abs(sol.d).max()):
                            bad = "unit factors changed the elastic displacement"
                if bad is None:
                    for nm in ("a", "v", "d"):
                        if not np.array_equal(getattr(sol, nm), getattr(sol0, nm)):
                            bad = "input solution was modified (%s)" % nm
                if bad:
                    run.violation("apply_uf: " + bad, case, {"target": "apply_uf"})
                    return
            run.trace_validated()
        if pi < 2:
            run.sample({"apply_uf problem (nrb,nel,nrf,m,b,k,interleaved)": p, "history": h})
    # DR_Event.apply_uf: all registered tuples at once, sharing one cache inside
    # tuples drawn from a small value grid, so that different tuples share products (ruf*suf, euf*duf, euf*suf, ...):
    # a cache keyed on anything less than the whole tuple shows up
    grid = (1, 1.25, 2, 0.5)
    ufs = [(1, 1, 1, 1), (1.25, 1.25, 1, 1), (1, 1, 1.25, 1.25), (2, 2, 1, 1), (1, 1, 2, 2), (1, 1, 1.25, 1), (0.5, 2, 1, 2),
           (2, 0.5, 2, 0.5), (1.25, 1, 1, 1.25), (1, 1.25, 1.25, 1)]
    ufs += [tuple(rnd.choice(grid) for _ in range(4)) for _ in range(6)]
    ufs = list(dict.fromkeys(ufs))
    nu = len(ufs)
    for order in (list(range(nu)), list(range(nu))[::-1], rnd.sample(range(nu), nu)):
        DR = cla.DR_Event()
        for oi in order:
            drdefs = cla.DR_Def(dict(se=0, uf_reds=ufs[oi]))

            @cla.DR_Def.addcat
            def _():
                name = "cat%d" % oi
                desc = "c"
                labels = ["r1"]
                drfunc = "sol.a[:1]"
                drdefs.add(**locals())

            DR.add(None, drdefs)
        for p in problems[::7]:
            sol, m, b, k, nrb, rfm, el, rf, env = make_problem(rng, np, *p)
            outs = DR.apply_uf(sol, m, b, k, nrb, rfm)
            run.case(("DR_Event.apply_uf", p, tuple(order)), part="B:DR_Event.apply_uf")
            if set(outs) != set(tuple(ufs[i]) for i in order):
                run.violation("DR_Event.apply_uf keys", {"problem": p, "order": order}, {"target": "apply_uf"})
                return
            for key, out in outs.items():
                fresh = apply_uf(sol, key, m, b, k, nrb, rfm, None)
                for nm in ("a", "v", "d", "d_static", "d_dynamic", "pg"):
                    if not close(getattr(out, nm), getattr(fresh, nm)):
                        run.violation("DR_Event.apply_uf (shared cache, registration order %r) differs from a cache-free apply_uf for %r (%s)"
                                      % (order, key, nm), {"problem": p, "order": order, "uf": key}, {"target": "apply_uf"})
                        return
