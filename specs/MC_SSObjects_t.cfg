CONSTANTS
  Export = TRUE
  MaxCalls = 4
SPECIFICATION Spec
PROPERTY Immutable
INVARIANT DomainIsParity
INVARIANT DerivationExtendsSource
INVARIANT CallsConsistent
INVARIANT Alternates
INVARIANT ExportHist
CHECK_DEADLOCK FALSE
